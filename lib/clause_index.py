#!/usr/bin/env python3
"""Regenerates section 14 of DESIGN.md (clause index) from spec/*.tla: every operator named Cxx_Name, with the comment line(s)
directly above its definition."""
import glob
import os
import re

VERIF = os.path.dirname(os.path.dirname(os.path.abspath(__file__)))
DEF = re.compile(r"^(C(\d\d)R?_[A-Za-z0-9]+)\s*(\([^)]*\))?\s*==")
found = {}   # prop -> [(name, module, comment)]
seen = set()
for path in sorted(glob.glob(os.path.join(VERIF, "spec", "*.tla"))):
    mod = os.path.basename(path)
    lines = open(path, encoding="utf-8").read().split("\n")
    for i, ln in enumerate(lines):
        m = DEF.match(ln)
        if not m:
            continue
        name, prop = m.group(1), "C" + m.group(2)
        if (name, mod) in seen:
            continue
        seen.add((name, mod))
        com = []
        j = i - 1
        while j >= 0 and lines[j].lstrip().startswith("\\*"):
            com.insert(0, lines[j].lstrip()[2:].strip())
            j -= 1
        text = " ".join(com).strip()
        text = re.sub(r"^\.\.\.\s*", "", text)
        found.setdefault(prop, []).append((name, mod, text))

out = ["The named clauses TLC evaluates on recorded observations (and, for the design modules, as invariants). A `VIOLATION` line names the failing clause(s).", ""]
total = 0
for prop in sorted(found):
    out += ["", "**%s**" % prop, ""]
    for name, mod, text in found[prop]:
        total += 1
        out.append("* `%s` (%s)%s" % (name, mod, " — " + text if text else ""))
out.append("")
out.append("(%d clauses in %d modules; regenerate with `python3 lib/clause_index.py`)" % (total, len({m for v in found.values() for _, m, _ in v})))
p = os.path.join(VERIF, "DESIGN.md")
s = open(p, encoding="utf-8").read()
head = "## 14. Clause index (generated from spec/*.tla)"
k = s.index(head)
s = s[:k] + head + "\n\n" + "\n".join(out) + "\n"
open(p, "w", encoding="utf-8").write(s)
print("%d clauses" % total)
