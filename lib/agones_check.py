"""C20: spec/Agones.tla (API server, watch protocol, kube watcher, adapter handler, cache) checked by TLC; histories
exported by TLC (random walks over the design) are replayed through a loopback mock Kubernetes API into the real
AgonesDiscoveryAdapter (harness/hx-agones); the recorded offered sets are judged by TLC (spec/Trace_Agones.tla) with the
named clauses of spec/AgonesProps.tla.  Python only orchestrates: it picks WHICH exported histories are replayed
(a seeded, feature-covering selection), never what is right."""
import json
import os
import random
import re
import threading
import time

import vlib

EXPORTS = ("MC_AgonesExport.cfg", "MC_AgonesExportFaults.cfg")

TIERS = {
    # exhaustive cfg, workers, simulate num (per worker), histories replayed, harness threads
    "quick": dict(mc=["MC_AgonesQuick.cfg"], workers=4, sim="num=250", depth=100, histories=64, threads=48),
    "thorough": dict(mc=["MC_AgonesFull.cfg", "MC_AgonesFull2.cfg"], workers=6, sim="num=1500", depth=100, histories=600, threads=20),
}


# ------------------------------------------------------------------------------------------------
# describing histories (signatures, selection features) -- descriptions of INPUTS only
# ------------------------------------------------------------------------------------------------
GOOD = ("A1", "A2", "A6")


def shape_class(o):
    """Ready / Allocated / Shutdown ... with the reason it cannot be converted, if any."""
    if o is None or o.get("state") == "none":
        return "absent"
    why = []
    if o["addr"] not in GOOD:
        why.append("no-address" if o["addr"] == "none" else "bad-address")
    if not o["ports"]:
        why.append("no-ports")
    return o["state"] + ("(%s)" % ",".join(why) if why else "")


def offerable(o):
    return o is not None and o.get("state") in ("Ready", "Allocated") and o["addr"] in GOOD and bool(o["ports"])


def describe(steps, only=None):
    """Normalised description of a step sequence: names in order of first appearance, shapes by class.
    A modify between two offerable descriptions also says what changed.  only = set of names: writes to other
    GameServers are left out (the slice of the history that concerns the servers whose offer is wrong)."""
    ren = {}
    cur = {}
    bits = []
    for s in steps:
        k = s["k"]
        if k in ("create", "modify", "churn", "delete") and only is not None and s["n"] not in only:
            continue
        if k in ("create", "modify", "churn", "delete"):
            nm = ren.setdefault(s["n"], "abc"[len(ren)] if len(ren) < 3 else "n%d" % len(ren))
            if k == "delete":
                bits.append("delete %s" % nm)
                cur.pop(s["n"], None)
            else:
                old = cur.get(s["n"])
                d = shape_class(s["o"])
                if k == "modify" and offerable(old) and offerable(s["o"]):
                    ch = [f for f in ("addr", "ports", "meta") if old[f] != s["o"][f]]
                    if ch:
                        d += "[" + ",".join(ch) + "]"
                bits.append("%s %s %s" % (k, nm, d))
                cur[s["n"]] = s["o"]
        elif k == "drop":
            bits.append("drop(%s)" % s["n"])
        else:
            bits.append(k)
    return " · ".join(bits)


def coarse(o):
    """The four classes an event handler can tell apart."""
    if o is None or o.get("state") == "none":
        return "absent"
    if offerable(o):
        return "offer"
    return "conv" if (o["addr"] in GOOD and o["ports"]) else "unconv"


def features(steps):
    """What a history exercises, as seen from the client: (how it learns of a change, class before -> class after).
    Features starting with "C" use the four coarse classes (weighted higher by the selection), the others the exact shapes."""
    feats = set()
    cur = {}      # API server
    seen = {}     # what the client was last told
    pending = True
    disconnected = False
    listed_before = set()
    pruned = set()   # offered objects that the last re-list no longer contained (and an earlier one did)
    prev_change = None   # the previous step, if it was a change the client learnt of through the watch
    for s in steps:
        k = s["k"]
        if k == "errevent":
            # an ERROR event the watcher does not re-list for; behind a change event it shares that event's segment
            feats.add(("C", "errevent") + (prev_change if prev_change else ("alone",)))
        this_change = None
        if k == "churn":
            feats.add(("C", "churn", "pending" if pending else ("rewatch" if disconnected else "watch")))
        if k in ("create", "modify", "churn", "delete"):
            before = cur.get(s["n"])
            after = None if k == "delete" else s["o"]
            if after is None:
                cur.pop(s["n"], None)
            else:
                cur[s["n"]] = after
            if not pending:
                via = "rewatch" if disconnected else "watch"
                changed = ()
                if offerable(before) and offerable(after):
                    changed = tuple(x for x in ("addr", "ports", "meta", "state") if before[x] != after[x])
                    for x in changed:
                        feats.add(("C", "watch", "offer-changes", x))
                feats.add(("C", via, coarse(before), coarse(after)))
                this_change = (k if k != "churn" else "modify", coarse(before), coarse(after))
                if pruned:
                    # the first events after a re-list that pruned something (whatever the cache remembers of positions must have followed)
                    # ... told apart by whether a pruned object had been listed AHEAD of the one the event is about
                    feats.add(("C", "after-pruning-relist", k, coarse(before), coarse(after), min(len(cur), 2), any(p < s["n"] for p in pruned)))
                if offerable(after):
                    feats.add(("C", "watch", "offered-as", after["state"], after["addr"], len(after["ports"]) > 1))
                feats.add(("C", "watch", coarse(before), coarse(after)))
                feats.add(("watch", k, shape_class(before), shape_class(after), changed))
                seen[s["n"]] = after
                others = sum(1 for n, o in cur.items() if n != s["n"] and offerable(o))
                feats.add(("C", "others-offered", coarse(before), coarse(after), min(others, 2)))
        elif k == "list":
            for nm in set(cur) | set(seen):
                b, a = seen.get(nm), cur.get(nm)
                feats.add(("C", "relist", coarse(b), coarse(a), b == a))
                if offerable(a):
                    feats.add(("C", "relist", "offered-as", a["state"], len(a["ports"]) > 1))
                feats.add(("relist", shape_class(b), shape_class(a)))
            # an object that an EARLIER list contained and this one does not (deleted while the client was away; no DELETED event for it)
            pruned = set()
            for nm in listed_before - set(cur):
                feats.add(("C", "relist-without-previously-listed", coarse(seen.get(nm)), min(len(cur), 1)))
                if offerable(seen.get(nm)) and len(cur) > 0:
                    pruned.add(nm)
            listed_before |= set(cur)
            feats.add(("C", "list-size", min(len(cur), 3)))
            if seen or not pending or steps.index(s) > 0:
                # a RE-list: how much it returns, and whether something was being offered before it (an empty re-list must empty the offer)
                feats.add(("C", "relist-size", min(len(cur), 2), any(offerable(o) for o in seen.values())))
            seen = dict(cur)
            pending = False
            disconnected = False
        elif k == "drop":
            feats.add(("C", "drop", s["n"], "again" if disconnected else "first"))
            disconnected = True
        elif k == "gone":
            feats.add(("C", "gone", "disconnected" if disconnected else "connected"))
            pending = True
        elif k == "bookmark":
            feats.add(("C", "bookmark"))
            disconnected = False
        elif k == "listpart":
            first = sorted(cur)[0] if cur else None
            feats.add(("C", "listpart", coarse(seen.get(first)), coarse(cur.get(first)), any(offerable(o) for n, o in seen.items() if n != first)))
            if first is not None:
                seen[first] = cur[first]
        elif k == "listfail":
            feats.add(("C", "listfail", "first" if not seen else "relist", any(offerable(o) for o in seen.values())))
        prev_change = this_change
    return feats


def weight(f):
    return 20 if f[0] == "C" else 1


def select(pool, count, seed):
    """Greedy weighted feature cover, then the rest at random; deterministic for a seed."""
    rng = random.Random(seed)
    pool = sorted(pool, key=lambda h: json.dumps(h, sort_keys=True))
    rng.shuffle(pool)
    fs = [features(h["steps"]) for h in pool]
    chosen, covered, left = [], set(), set(range(len(pool)))
    # the greedy cover only ever needs ONE history per distinct feature set (the first in the shuffled order)
    reps, seen_fs = [], set()
    for i, f in enumerate(fs):
        k = frozenset(f)
        if k not in seen_fs:
            seen_fs.add(k)
            reps.append(i)
    while left and len(chosen) < count:
        best, gain = None, 0
        for i in reps:
            if i not in left:
                continue
            g = sum(weight(f) for f in fs[i] - covered)
            if g > gain:
                best, gain = i, g
        if best is None:
            break
        chosen.append(best)
        covered |= fs[best]
        left.discard(best)
    rest = sorted(left)
    rng.shuffle(rest)
    chosen += rest[: max(0, count - len(chosen))]
    allf = set().union(*fs) if fs else set()
    return [pool[i] for i in chosen], len(covered), len(allf)


def sim_states(out):
    m = re.search(r"The number of states generated: (\d+)", out)
    return int(m.group(1)) if m else 0


def run(prop, tier):
    t0 = time.time()
    cfg = TIERS[tier]
    wd = vlib.workdir(prop)
    seed = vlib.seed()
    rep = vlib.Reporter(prop)

    # (1) the design satisfies the property: exhaustive TLC run, concurrently with everything else
    mc = {}

    def model_check():
        try:
            mc["r"] = [vlib.run_tlc("MC_Agones", c, wd, workers=cfg["workers"], timeout=2400, markers=()) for c in cfg["mc"]]
        except Exception as e:  # noqa
            mc["e"] = e

    th = threading.Thread(target=model_check)
    th.start()
    try:
        hx = vlib.cargo_build("hx-agones")
        # (2) spec -> code: histories exported by TLC from random walks over the same design (invariants checked on the way)
        sims = {}

        def simulate(c):
            try:
                sims[c] = vlib.run_tlc("MC_Agones", c, wd, workers=2 if tier == "quick" else 4, timeout=1800,
                                       simulate=cfg["sim"], depth=cfg["depth"], extra=["-seed", str(seed)], dedupe=True)
            except Exception as e:  # noqa
                sims[c] = e

        sth = [threading.Thread(target=simulate, args=(c,)) for c in EXPORTS]
        for t in sth:
            t.start()
        for t in sth:
            t.join()
        pool, seen, sim_generated, sim_notes = [], set(), 0, []
        for c in EXPORTS:
            sim = sims[c]
            if isinstance(sim, Exception):
                raise sim
            if not sim.ok:
                raise vlib.ToolError("TLC reports %s on %s (specification error):\n%s" % (sim.violated, c, sim.output[-3000:]))
            before = len(pool)
            for h in sim.marked["REPLAY"]:
                key = json.dumps(h, sort_keys=True)
                if key not in seen:
                    seen.add(key)
                    pool.append(h)
            sim_generated += sim_states(sim.output)
            sim_notes.append("%s -simulate %s: %d states, %d histories exported, %.1fs" % (c, cfg["sim"], sim_states(sim.output), len(pool) - before, sim.wall))
        # ... and every history of the small directed configuration (exhaustive, not a random walk): the corner cases are all in the pool
        for dcfg in ("MC_AgonesDirected.cfg", "MC_AgonesDirected2.cfg", "MC_AgonesDirected3.cfg"):
            dr = vlib.run_tlc("MC_Agones", dcfg, wd, workers=6, timeout=1800, dedupe=True)
            if not dr.ok:
                raise vlib.ToolError("TLC reports %s on %s (specification error):\n%s" % (dr.violated, dcfg, dr.output[-3000:]))
            before = len(pool)
            for h in dr.marked["REPLAY"]:
                key = json.dumps(h, sort_keys=True)
                if key not in seen:
                    seen.add(key)
                    pool.append(h)
            sim_generated += dr.generated
            sim_notes.append("%s (exhaustive): %s, %d histories exported, %.1fs" % (dcfg, dr.summary(), len(pool) - before, dr.wall))
        if not pool:
            raise vlib.ToolError("TLC exported no history")
        sel, ncov, nall = select(pool, cfg["histories"], seed)
        inp = os.path.join(wd, "histories.ndjson")
        outp = os.path.join(wd, "observed.ndjson")
        vlib.write_ndjson(inp, sel)
        th0 = time.time()
        vlib.run_bin(hx, ["agones", "--in", inp, "--out", outp, "--threads", str(cfg["threads"])], timeout=3000)
        harness_wall = time.time() - th0
        observed = vlib.read_ndjson(outp)
        if len(observed) != len(sel):
            raise vlib.ToolError("harness wrote %d records for %d histories" % (len(observed), len(sel)))
        # (3) code -> spec: TLC judges the recorded offered sets
        tr = vlib.run_tlc("Trace_Agones", "Trace_Agones.cfg", wd, workers=1, timeout=1800, markers=("FAIL", "NOTCONSUMED"),
                          env_extra={"TRACE": outp, "PROP": prop}, java_opts=["-Xss1g", "-Dtlc2.tool.queue.IStateQueue=StateDeque"])
        if not tr.ok or tr.marked["NOTCONSUMED"] or tr.distinct != len(observed) + 1:
            raise vlib.ToolError("trace validation did not consume all %d records (distinct=%d):\n%s" % (len(observed), tr.distinct, tr.output[-2000:]))
    finally:
        th.join()
    if "e" in mc:
        raise mc["e"]
    for c, r in zip(cfg["mc"], mc["r"]):
        if not r.ok:
            raise vlib.ToolError("TLC reports %s on %s (specification error: the event-driven design must satisfy C20):\n%s" % (r.violated, c, r.output[-3000:]))
    mc_distinct = sum(r.distinct for r in mc["r"])
    mc_generated = sum(r.generated for r in mc["r"])

    failed_lines = set()
    inconclusive = []
    for f in tr.marked["FAIL"]:
        o = observed[f["line"] - 1]
        h = sel[f["line"] - 1]
        failed_lines.add(f["line"])
        clauses = sorted(f["clauses"])
        prefix = o["steps"][: f["step"]]
        got = {e["id"]: e for e in o["offered"][f["step"] - 1]}
        exp = {e["id"]: e for e in f["expected"]}
        wrong = {i for i in set(got) | set(exp) if got.get(i) != exp.get(i)}
        if len(got) != len(o["offered"][f["step"] - 1]):
            wrong |= set(got)  # offered twice
        # a server that is offered although it should not be (or with wrong data): its own slice of the history explains it;
        # a server that is missing may be missing because of ANY object (e.g. one that breaks the LIST): keep all writes
        missing = set(exp) - set(got)
        if "C20_KeptWhileRelisting" in clauses:
            hgot = {e["id"]: e for e in o["held"][f["step"] - 1]}
            hexp = {e["id"]: e for e in f["expectedheld"]}
            wrong |= {i for i in set(hgot) | set(hexp) if hgot.get(i) != hexp.get(i)}
            missing |= set(hexp) - set(hgot)
        rejected = "relisting" in o.get("stuck", "")  # the client could not digest the LIST answer (it asked again and again)
        sig = "%s %s [history: %s]%s" % (prop, "+".join(clauses), describe(prefix, None if (missing or rejected) else wrong),
                                         " {LIST answer rejected}" if rejected else "")
        rep.violation(sig, {"failing_clauses": clauses, "failing_step": f["step"], "wrongly_offered_or_missing": sorted(wrong), "history_prefix": prefix,
                            "expected_offered": f["expected"], "observed_offered": o["offered"][f["step"] - 1],
                            "expected_while_list_outstanding": f["expectedheld"], "observed_while_list_outstanding": o["held"][f["step"] - 1],
                            "full_history": h["steps"], "harness_note": o.get("stuck"), "namespace": o.get("ns"), "mock_requests": o.get("reqs"), "seed": seed,
                            "how_to_replay": "bin/check %s %s with VERIF_SEED=%d; history line %d of the selection" % (prop, tier, seed, f["line"])})
    # a history the harness could not drive to its end without TLC objecting to anything is a tool problem, not a verdict
    for o in observed:
        if o["line"] in failed_lines:
            continue
        if o.get("panic"):
            rep.violation("%s PANIC [history: %s]" % (prop, describe(o["steps"])), {"observed": o})
        elif "relisting" in o.get("stuck", ""):
            # the client cannot digest the LIST answer and nothing had to be offered in this history: no clause can fail, the
            # histories in which something has to be offered show the defect
            inconclusive.append(o["line"])
        elif o.get("stuck") or len(o["steps"]) != len(sel[o["line"] - 1]["steps"]):
            raise vlib.ToolError("history %d was not driven to its end (%s) although no clause failed: %s" % (o["line"], o.get("stuck"), json.dumps(o)[:1500]))
    rc = rep.finish()
    if inconclusive:
        print("NOTE %d histories ended early without a verdict: the adapter kept re-listing (could not digest the LIST answer) while nothing had to be offered" % len(inconclusive))

    judged_steps = sum(1 for h in sel for e in h["expectAfter"] if e["judged"])
    samples = []
    for o in observed[:3]:
        samples.append({"history": describe(o["steps"]), "steps": o["steps"], "offered_after_each_step": o["offered"], "converged_ms": o["converged_ms"],
                        "mock_requests": o.get("reqs", [])[:6]})
    cov = {
        "states": mc_distinct + tr.distinct,
        "transitions": mc_generated + sim_generated + tr.generated,
        "traces_validated_against_impl": len(observed),
        "samples": samples,
        "evaluations": judged_steps,
        "distinct_nontrivial": len({describe(h["steps"]) for h in sel}),
        "rule": "design: every reachable state of spec/Agones.tla under %s satisfies Quiescent => cache = ReadySet (exhaustive); binding: "
                "histories are exported by TLC from random walks over the same design (%s, seed %d), %d of %d distinct exported histories are "
                "replayed (greedy cover of %d/%d client-visible transition features, then random); the offered set recorded after every "
                "step of every replayed history is judged by TLC (Trace_Agones) against the clauses of spec/AgonesProps.tla; evaluations = judged steps; "
                "distinct = distinct normalised histories" % (" and ".join(cfg["mc"]), cfg["sim"], seed, len(sel), len(pool), ncov, nall),
        "exhaustive": False,
        "replayed_histories_with_step": {k: sum(1 for h in sel if any(st["k"] == k for st in h["steps"])) for k in ("list", "gone", "drop", "bookmark", "errevent", "listfail", "listpart", "churn", "delete")},
        "replayed_histories_with_empty_relist": sum(1 for h in sel if any(f[:2] == ("C", "relist-size") and f[2] == 0 and f[3] for f in features(h["steps"]))),
        "tlc": ["%s: %s, %.1fs" % (c, r.summary(), r.wall) for c, r in zip(cfg["mc"], mc["r"])] + sim_notes + [
                "Trace_Agones: %d records judged in %.1fs" % (len(observed), tr.wall)],
        "harness_wall_s": round(harness_wall, 1),
        "histories_failing": len(failed_lines),
        "histories_inconclusive_relisting": len(inconclusive),
        "known_findings_hit": {k: n for k, (_, n) in rep.known_hit.items()},
    }
    vlib.write_evidence(prop, tier, "model_checking", cov, time.time() - t0, len(rep.violations),
                        assumptions=["the loopback mock in harness/hx-agones speaks the Kubernetes LIST/WATCH protocol as a real API server does "
                                     "(chunked watch stream, 410 as an ERROR Status event, BOOKMARK events, resourceVersions)",
                                     "convergence is asynchronous: a step is recorded once discover() equals the expectation and the mock has delivered "
                                     "everything, or after 12 s (and at least 2 s after delivery; 30 s at most); the kube watcher's back-off after an error is 0.8-1.6 s, doubling",
                                     "metadata is judged as the exact string map the adapter documents (state, counter counts, list values joined by ',', labels, annotations)"])
    vlib.cleanup(wd)
    return rc
