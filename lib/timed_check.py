"""C07 (and C08, see frames part below): spec/ConnTimed.tla checked by TLC, every exported schedule run on the real Connection under
tokio virtual time, timestamped histories judged by TLC against ConnTimedProps (Trace_ConnTimed)."""
import json
import os
import time

import vlib


def sched_sig(o):
    s = o["sched"]
    extra = (" write-stall" if o.get("stalled") else "") + (" settings-again@%ss" % s["info2"] if "info2" in s else "") + (
        " scheduler-late@%ss+%sms" % (s["late"]["at"], s["late"]["ms"]) if "late" in s else "")
    return "policy=%s auth=%s ack=%s info=%s lat=%s%s" % (s.get("policy"), s.get("auth"), s.get("ackAt"), s.get("infoAt"), s.get("lat"), extra)


def timeline(obs):
    return [(x["t"], x["p"]["k"]) for x in obs if x["e"] == "tx" and x["p"]["k"] in ("KeepAlive", "Disconnect", "Transfer")]


def run_c07(prop, tier):
    t0 = time.time()
    wd = vlib.workdir(prop)
    seed = vlib.seed()
    hx = vlib.cargo_build("hx-core")
    rep = vlib.Reporter(prop)
    cfg = "MC_ConnTimedQuick.cfg" if tier == "quick" else "MC_ConnTimedFull.cfg"
    r = vlib.run_tlc("MC_ConnTimed", cfg, wd, workers=4, timeout=1800)
    if not r.ok:
        raise vlib.ToolError("TLC reports %s on %s (specification error):\n%s" % (r.violated, cfg, r.output[-3000:]))
    behaviours = r.marked["REPLAY"]
    # one run per distinct schedule; the model may allow several timelines for one schedule (coincident events)
    by_sched = {}
    for b in behaviours:
        by_sched.setdefault(json.dumps(b["sched"], sort_keys=True), []).append(b)
    scheds = [json.loads(k) for k in by_sched]
    inp = os.path.join(wd, "schedules.ndjson")
    outp = os.path.join(wd, "observed.ndjson")
    recs = [{"sched": s} for s in scheds]
    # the same timer clauses under partial I/O: the Keep Alive of 16 s is accepted k bytes at a time and is still unfinished when
    # discovery completes at 17 s (the raced keep_alive() future is dropped in mid-write); routing then outlasts the next deadline
    for pol in ("never", "wrong", "late", "prompt", "slow"):
        for k in (0, 1, 3, 9):
            for lat in ([16, 40, 2], [16, 2, 40]):
                recs.append({"sched": {"auth": 0, "ackAt": 1, "infoAt": 1, "lat": lat, "policy": pol}, "wstall": {"at": 15, "k": k, "release": 19}})
    # ... the transport reopens only after routing has completed and the final packets were queued behind the half-written Keep Alive
    # (discovery done at 17 s, everything at 19 s, transport stalled from the Keep Alive of 16 s until 24 s): the Transfer must still arrive whole
    for pol in ("prompt", "never"):
        for k in (0, 1, 3, 9):
            for lat in ([16, 1, 1], [4, 12, 2]):
                recs.append({"sched": {"auth": 0, "ackAt": 1, "infoAt": 1, "lat": lat, "policy": pol}, "wstall": {"at": 15, "k": k, "release": 24}})
    # ... a client that sends its settings once more while it waits (before / after the first Keep Alive, back to back with the first ones)
    for at in (1, 5, 17, 20):
        for lat in ([20, 4, 2], [4, 40, 2]):
            recs.append({"sched": {"auth": 0, "ackAt": 1, "infoAt": 1, "lat": lat, "policy": "prompt", "info2": at}})
    # ... a scheduler that is busy when the first Keep Alive is due (it goes out a few ms / a few hundred ms late): a silent client is still
    # timed out when the NEXT one is due, an echoing one is not affected
    for by in (1, 4, 300):
        for pol in ("never", "prompt", "wrong"):
            recs.append({"sched": {"auth": 0, "ackAt": 1, "infoAt": 1, "lat": [60, 4, 2], "policy": pol, "late": {"at": 16, "ms": by}}})
    # ... and with an echo that arrives in two pieces around the completion of a routing step (discovery done at 21 s: the echo of the
    # Keep Alive of 16 s starts at 19 s and is complete at 24 s -- in time), routing then outlasts the next deadlines
    for cut in (1, 3, 5, 9):
        for lat in ([20, 40, 2], [4, 16, 40]):
            recs.append({"sched": {"auth": 0, "ackAt": 1, "infoAt": 1, "lat": lat, "policy": "prompt"}, "seg": {"frame": "Echo", "cut": cut, "pause": 5}})
    # ... and with a client frame (an ignorable plugin message) that is half received when a Keep Alive falls due: it starts at 13 s or 29 s and is
    # completed 7 s later, across the deadline -- the Keep Alive goes out on time all the same, the echo is judged as usual
    for start in (13, 29):
        for cut in (1, 3, 6):
            for pol in ("prompt", "never"):
                recs.append({"sched": {"auth": 0, "ackAt": 1, "infoAt": 1, "lat": [40, 4, 2], "policy": pol, "plugin": {"at": start, "size": 5}},
                             "seg": {"frame": "Plugin", "cut": cut, "pause": 7}})
    vlib.write_ndjson(inp, recs)
    vlib.run_bin(hx, ["conn-timed", "--in", inp, "--out", outp, "--seed", str(seed), "--threads", "12"], timeout=1800)
    observed = vlib.read_ndjson(outp)
    tr = vlib.run_tlc("Trace_ConnTimed", "Trace_ConnTimed.cfg", wd, workers=1, timeout=1800, markers=("FAIL", "NOTCONSUMED"),
                      env_extra={"TRACE": outp}, java_opts=["-Xss1g", "-Dtlc2.tool.queue.IStateQueue=StateDeque"])
    if not tr.ok or tr.marked["NOTCONSUMED"] or tr.distinct != len(observed) + 1:
        raise vlib.ToolError("trace validation did not consume all %d records (distinct=%d):\n%s" % (len(observed), tr.distinct, tr.output[-2000:]))
    for o in observed:
        if o.get("panic"):
            rep.violation("%s panic [%s]" % (prop, sched_sig(o)), {"observed": o})
    for f in tr.marked["FAIL"]:
        o = observed[f["line"] - 1]
        clauses = sorted(f["clauses"])
        rep.violation("%s %s [%s]" % (prop, "+".join(clauses), sched_sig(o)),
                      {"failing_clauses": clauses, "schedule": o["sched"], "write_stall": o.get("wstall"), "observed": o,
                       "model_timelines": [b["tl"] for b in by_sched.get(json.dumps(o["sched"], sort_keys=True), [])], "seed": seed})
    drift = 0
    for o in observed:
        if o.get("stalled") or json.dumps(o["sched"], sort_keys=True) not in by_sched or o.get("seg") not in (None, "none"):
            continue
        allowed = [([(x["t"], x["k"]) for x in b["tl"]], b["result"]) for b in by_sched[json.dumps(o["sched"], sort_keys=True)]]
        if (timeline(o["obs"]), o["result"]) not in allowed:
            drift += 1
    rc = rep.finish()
    if drift:
        print("NOTE model-drift: %d of %d observed timelines are not timelines of the precise model ConnTimed.tla (timer phase etc.; the property-level verdict is what counts)" % (drift, len(observed)))
    cov = {
        "states": r.distinct + tr.distinct,
        "transitions": r.generated + tr.generated,
        "traces_validated_against_impl": len(observed),
        "samples": [{"schedule": observed[i]["sched"], "observed_timeline": timeline(observed[i]["obs"]), "result": observed[i]["result"]} for i in (0, len(observed) // 2, len(observed) - 1)],
        "evaluations": len(observed),
        "distinct_nontrivial": len({json.dumps(o["sched"], sort_keys=True) for o in observed if any(x[1] == "KeepAlive" for x in timeline(o["obs"]))}),
        "rule": "schedules = every combination of authentication latency (late first tick), arrival of Login Acknowledged and Client Information, three stage latencies "
                "(0 .. 3 periods) and echo policy (prompt, slow, late, never, wrong id, duplicate, unsolicited) of ConnTimed.tla; non-trivial = at least one Keep Alive was sent",
        "exhaustive": True,
        "tlc": ["%s: %s, %d behaviours / %d schedules, %.1fs" % (cfg, r.summary(), len(behaviours), len(scheds), r.wall), "Trace_ConnTimed: %d histories judged in %.1fs" % (len(observed), tr.wall)],
        "timelines_identical_to_precise_model": len(observed) - drift,
        "known_findings_hit": {k: n for k, (_, n) in rep.known_hit.items()},
    }
    vlib.write_evidence(prop, tier, "model_checking", cov, time.time() - t0, len(rep.violations),
                        assumptions=["tokio's paused clock is faithful to its real timer semantics", "whole frames are delivered (segmentation inside a frame is C08's business)",
                                     "client actions happen a quarter second after the whole second so that nothing coincides with a deadline"])
    vlib.cleanup(wd)
    return rc


def run(prop, tier):
    if prop == "C07":
        return run_c07(prop, tier)
    import frames_check
    return frames_check.run(prop, tier)
