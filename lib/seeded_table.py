#!/usr/bin/env python3
"""Regenerates the table of seeded changes in DESIGN.md (between the SEEDED-TABLE markers) from seeded/*/meta.json."""
import glob
import json
import os
import re

VERIF = os.path.dirname(os.path.dirname(os.path.abspath(__file__)))
rows = []
for d in sorted(glob.glob(os.path.join(VERIF, "seeded", "*"))):
    mp = os.path.join(d, "meta.json")
    if not os.path.exists(mp):
        continue
    m = json.load(open(mp))
    name = os.path.basename(d)
    det = m.get("detected_by", {})
    def one(c, v):
        if not (isinstance(v, dict) and v.get("caught")):
            return "%s: MISSED" % c
        fl = v.get("first_lines") or []
        line = next((x for x in fl if "what:" in x), fl[0] if fl else "")
        return "%s: caught — %s" % (c, re.sub(r"^\s*what:\s*", "", line)[:110])
    caught = ", ".join(one(c, v) for c, v in det.items()) or "not evaluated"
    what = (m.get("what") or "").replace("|", "/").replace("\n", " ")[:230]
    needs = (m.get("needs") or "").replace("|", "/").replace("\n", " ")[:200]
    hist = (m.get("history") or "").replace("|", "/")
    rows.append("| %s | %s | %s | %s | %s |" % (name, what, needs, caught.replace("|", "/"), hist))
table = ("| Seed | Change | Needs | Detected by (quick tier) | History |\n|---|---|---|---|---|\n" + "\n".join(rows) + "\n")
p = os.path.join(VERIF, "DESIGN.md")
s = open(p).read()
begin, end = "<!-- SEEDED-TABLE-BEGIN -->", "<!-- SEEDED-TABLE-END -->"
if begin not in s:
    s += ("\n\n---------------------------------------------------------------------------------------------------\n\n"
          "## 13. Seeded changes from independent sub-agents, and which check catches which\n\n"
          "Each change was written by a fresh sub-agent that saw only the text of one property and a scratch worktree of the repository "
          "(nothing from /verif). Every one compiles, passes the 77 existing tests, and comes with a demonstration that fails with the change and "
          "passes without it; all three facts were re-confirmed by `lib/seedtool.py confirm` before the change was kept under `seeded/<name>/` "
          "(patch.diff, demo/, meta.json). `lib/seedtool.py eval` applies a patch to /repo, runs the check(s), and reverts. Changes a check missed at "
          "first are marked in the History column together with what was strengthened.\n\n" + begin + "\n" + end + "\n")
s = s[:s.index(begin) + len(begin)] + "\n" + table + s[s.index(end):]
open(p, "w").write(s)
print("%d seeded changes in the table" % len(rows))
