"""C13: spec/RateLimiter.tla checked exhaustively by TLC (no time bound); walks exported by TLC (R) and seeded random
histories (V) run on the real RateLimiter under virtual time; every recorded history judged by TLC against
spec/RateLimiterProps.tla (Trace_RateLimiter)."""
import json
import os
import time

import vlib


def run(prop, tier):
    t0 = time.time()
    wd = vlib.workdir(prop)
    seed = vlib.seed()
    hx = vlib.cargo_build("hx-core")
    rep = vlib.Reporter(prop)
    notes = []
    states = transitions = 0
    # 1. the design satisfies the property, exhaustively for small constants, with no bound on time
    cfgs = ["MC_RateLimiterQuick.cfg"] if tier == "quick" else ["MC_RateLimiterQuick.cfg", "MC_RateLimiterFull.cfg", "MC_RateLimiterFull3.cfg"]
    for cfg in cfgs:
        r = vlib.run_tlc("MC_RateLimiter", cfg, wd, workers=4 if tier == "quick" else 8, timeout=1800)
        if not r.ok:
            raise vlib.ToolError("TLC reports %s on %s (specification error):\n%s" % (r.violated, cfg, r.output[-3000:]))
        states += r.distinct
        transitions += r.generated
        notes.append("%s: %s %.1fs" % (cfg, r.summary(), r.wall))
    # 2. walks through the model (simulation) for replay
    nwalks = 60 if tier == "quick" else 3000
    r = vlib.run_tlc("MC_RateLimiter", "MC_RateLimiterWalk.cfg", wd, workers=1, timeout=900,
                     simulate="num=%d" % nwalks, depth=100, extra=["-seed", str(seed)])
    if not r.ok:
        raise vlib.ToolError("TLC simulation failed: %s\n%s" % (r.violated, r.output[-2000:]))
    walks = r.marked["REPLAY"]
    notes.append("MC_RateLimiterWalk.cfg: %d walks exported (simulation), %.1fs" % (len(walks), r.wall))
    inp = os.path.join(wd, "walks.ndjson")
    outp = os.path.join(wd, "observed.ndjson")
    vlib.write_ndjson(inp, walks)
    nrand = 150 if tier == "quick" else 10000
    vlib.run_bin(hx, ["rl", "--in", inp, "--out", outp, "--seed", str(seed), "--random", str(nrand), "--len", "60" if tier == "quick" else "100"], timeout=1800)
    observed = vlib.read_ndjson(outp)
    # 3. code -> spec
    tr = vlib.run_tlc("Trace_RateLimiter", "Trace_RateLimiter.cfg", wd, workers=1, timeout=3000, markers=("FAIL", "DRIFT", "NOTCONSUMED"),
                      env_extra={"TRACE": outp}, java_opts=["-Xss1g", "-Dtlc2.tool.queue.IStateQueue=StateDeque"])
    if not tr.ok or tr.marked["NOTCONSUMED"] or tr.distinct != len(observed) + 1:
        raise vlib.ToolError("trace validation did not consume all %d records (distinct=%d):\n%s" % (len(observed), tr.distinct, tr.output[-2000:]))
    for o in observed:
        if o.get("panic"):
            rep.violation("C13 panic in RateLimiter [D=%s L=%s]" % (o["cfg"]["D"], o["cfg"]["L"]), {"observed": o})
    for f in tr.marked["FAIL"]:
        o = observed[f["line"] - 1]
        clauses = sorted(f["clauses"])
        sig = "%s %s [src=%s D=%s L=%s%s]" % (prop, "+".join(clauses), o["src"], o["cfg"]["D"], o["cfg"]["L"], " limiter up for %.1f days before" % (o["uptimeMs"] / 86400000.0) if o.get("uptimeMs") else "")
        rep.violation(sig, {"failing_clauses": clauses, "observed_history": o, "seed": seed})
    # "for each client key" at the listener: connections through one balancer peer are limited by their announced source address, each
    # address has its own budget (Admission.tla histories against the real Listener, judged by Trace_Listener)
    import listener_check
    lscs, lnotes = listener_check.scenarios("C15", tier, seed, wd)
    lscs = [x for x in lscs if x["cfg"]["limit"] > 0][: (10 if tier == "quick" else 40)]
    linp, loutp = os.path.join(wd, "listener_in.ndjson"), os.path.join(wd, "listener_obs.ndjson")
    vlib.write_ndjson(linp, lscs)
    vlib.run_bin(hx, ["listener", "--in", linp, "--out", loutp, "--parallel", "8"], timeout=1800)
    lobs = vlib.read_ndjson(loutp)
    lt = vlib.run_tlc("Trace_Listener", "Trace_Listener.cfg", wd, workers=1, timeout=600, markers=("FAIL", "NOTCONSUMED"),
                      env_extra={"TRACE": loutp, "PROP": "C15"}, java_opts=["-Xss1g", "-Dtlc2.tool.queue.IStateQueue=StateDeque"])
    if not lt.ok or lt.marked["NOTCONSUMED"] or lt.distinct != len(lobs) + 1:
        raise vlib.ToolError("Trace_Listener did not consume all %d records:\n%s" % (len(lobs), lt.output[-2000:]))
    for f in lt.marked["FAIL"]:
        if "C15_ServedIffAdmitted" in f["clauses"]:
            sc = lscs[f["line"] - 1]
            rep.violation("C13 C13_KeyedByEffectiveAddress [%s]" % listener_check.describe(sc, lobs[f["line"] - 1]), {"failing_clauses": sorted(f["clauses"]), "scenario": sc, "observed": lobs[f["line"] - 1], "seed": seed})
    notes.append("listener stage: %d arrival histories with a limiter judged by Trace_Listener" % len(lobs))
    # "no more than `limit`" also when admissions are decided at the same moment: n connections from one address while a tracing layer
    # stalls inside RateLimiter::enqueue (i.e. while the limiter is held) -- a contended limiter must not admit unchecked
    race = [{"family": "C15race", "cfg": {"proxy": "off", "limit": lim, "timeoutMs": 3000}, "n": n} for lim, n in ((1, 4), (2, 5), (3, 3))]
    rinp, routp = os.path.join(wd, "race_in.ndjson"), os.path.join(wd, "race_obs.ndjson")
    vlib.write_ndjson(rinp, race)
    vlib.run_bin(hx, ["listener", "--stall-enqueue-ms", "60", "--in", rinp, "--out", routp, "--parallel", "1"], timeout=600)
    robs = vlib.read_ndjson(routp)
    rt = vlib.run_tlc("Trace_Listener", "Trace_Listener.cfg", wd, workers=1, timeout=600, markers=("FAIL", "NOTCONSUMED"),
                      env_extra={"TRACE": routp, "PROP": "C15"}, java_opts=["-Xss1g", "-Dtlc2.tool.queue.IStateQueue=StateDeque"])
    if not rt.ok or rt.marked["NOTCONSUMED"] or rt.distinct != len(robs) + 1 or len(robs) != len(race):
        raise vlib.ToolError("Trace_Listener did not consume all %d race records:\n%s" % (len(robs), rt.output[-2000:]))
    for f in rt.marked["FAIL"]:
        sc = race[f["line"] - 1]
        rep.violation("C13 C13_LimitHoldsUnderContention [%d connections of one address at the same moment, limit %d]" % (sc["n"], sc["cfg"]["limit"]),
                      {"failing_clauses": sorted(f["clauses"]), "scenario": sc, "observed": robs[f["line"] - 1], "seed": seed})
    notes.append("listener stage: %d bursts of simultaneous connections from one address (limiter held for 60 ms per decision)" % len(robs))
    # "duration" and "limit" as the operator configures them (seconds, connections), through the application itself (passage::start)
    A = "203.0.113.10:40001"
    app = [{"family": "C13app", "proxy": True, "allowV1": True, "allowV2": True, "limit": lim, "durationS": dur, "timeoutS": 3,
            "conns": [{"hdr": "v1", "src": A, "waitMs": 0}] + [{"hdr": "v1", "src": A, "waitMs": 300}] * (2 * lim + 2) + [{"hdr": "v1", "src": A, "waitMs": 2 * dur * 1000 + 600}]}
           for lim, dur in ((2, 2), (1, 3))]
    ainp, aoutp = os.path.join(wd, "app_in.ndjson"), os.path.join(wd, "app_obs.ndjson")
    vlib.write_ndjson(ainp, app)
    hxa = vlib.cargo_build("hx-app")
    vlib.run_bin(hxa, ["serve", "--in", ainp, "--out", aoutp], timeout=300)
    aobs = vlib.read_ndjson(aoutp)
    if len(aobs) != len(app) or any("harnessError" in o for o in aobs):
        raise vlib.ToolError("hx-app serve did not produce a record for every scenario: %s" % json.dumps(aobs)[:600])
    at = vlib.run_tlc("Trace_Listener", "Trace_Listener.cfg", wd, workers=1, timeout=600, markers=("FAIL", "NOTCONSUMED"),
                      env_extra={"TRACE": aoutp, "PROP": "C13"}, java_opts=["-Xss1g", "-Dtlc2.tool.queue.IStateQueue=StateDeque"])
    if not at.ok or at.marked["NOTCONSUMED"] or at.distinct != len(aobs) + 1:
        raise vlib.ToolError("Trace_Listener did not consume all %d application records:\n%s" % (len(aobs), at.output[-2000:]))
    for f in at.marked["FAIL"]:
        o = aobs[f["line"] - 1]
        rep.violation("C13 %s [application: limit=%s duration=%ss]" % ("+".join(sorted(f["clauses"])), o["limit"], o["durationS"]),
                      {"failing_clauses": sorted(f["clauses"]), "scenario": app[f["line"] - 1], "observed": o, "seed": seed})
    notes.append("application stage: %d configured limiters driven over TCP, judged by Trace_Listener" % len(aobs))
    events = sum(len(o["h"]) for o in observed)
    drift = len(tr.marked["DRIFT"])
    walk_mismatch = sum(1 for o in observed if o["src"] == "walk" and any(e["ok"] != e["walkOk"] for e in o["h"]))
    rc = rep.finish()
    if drift or walk_mismatch:
        print("NOTE model-drift: %d histories differ from the precise sliding-window model (%d of them TLC walks)" % (drift, walk_mismatch))
    cov = {
        "states": states + tr.distinct,
        "transitions": transitions + tr.generated,
        "traces_validated_against_impl": len(observed),
        "samples": [{"cfg": o["cfg"], "src": o["src"], "first_events": o["h"][:12]} for o in observed[:2] + observed[-1:]],
        "evaluations": events,
        "distinct_nontrivial": len({json.dumps(o["h"], sort_keys=True) for o in observed if any(not e["ok"] for e in o["h"])}),
        "rule": "histories = TLC simulation walks of RateLimiter.tla + seeded random histories (1-16 keys, time steps 0 / sub-window / exactly D / "
                "multiples of D / > 4D, D in {1,2,4,8} ticks, limit 1-4); non-trivial = contains at least one rejection; distinct = distinct recorded histories",
        "exhaustive": False,
        "design_exhaustive_no_time_bound": True,
        "tlc": notes + ["Trace_RateLimiter: %d histories / %d events judged in %.1fs" % (len(observed), events, tr.wall)],
        "histories_with_model_drift": drift,
        "known_findings_hit": {k: n for k, (_, n) in rep.known_hit.items()},
    }
    vlib.write_evidence(prop, tier, "model_checking", cov, time.time() - t0, len(rep.violations),
                        assumptions=["window lengths are dyadic multiples of the tick so the f32 arithmetic of the code is exact; f32 rounding for other lengths is not decided",
                                     "the published size is read from the rate_limiter_size gauge through an OpenTelemetry manual reader"])
    vlib.cleanup(wd)
    return rc
