"""C08: spec/Frames.tla (byte transport under cancellation) checked by TLC; the situations in which TLC drops a raced future
(who wins: tick / routing completion; where the reader stands: in the length prefix, before the id, in the body; 1- or 2-byte
prefix; a clientbound frame half written) are instantiated as concrete timed schedules, run on the real Connection next to
their unsegmented reference, and judged by TLC (Trace_Frames)."""
import json
import os
import time

import vlib

LONG_LOCALE = "l" * 130
# total frame lengths in bytes (length prefix included), used to pick cut offsets
FRAMES = {
    ("ClientInfo", 2): 143, ("ClientInfo", 1): 16, ("Plugin", 2): 219, ("Plugin", 1): 23, ("Echo", 1): 10, ("LoginAck", 1): 2,
}


def cuts(frame, prefix, where, full):
    n = FRAMES[(frame, prefix)]
    if where == "inPrefix":
        return [1] if prefix == 2 else []
    if where == "atId":
        return [prefix]
    body = list(range(prefix + 1, n))
    if full:
        return body
    return sorted({prefix + 1, prefix + 2, (prefix + n) // 2, n - 1} & set(body))


def schedules(situations, full):
    out = []

    def add(tag, sched, **kw):
        rec = {"tag": tag, "sched": sched}
        rec.update(kw)
        out.append(rec)

    base = {"auth": 0, "policy": "prompt"}
    for s in situations:
        by, where, prefix, writing = s["by"], s["where"], s["prefix"], s["writing"]
        if by == "tick" and not writing:
            # config phase: the frame starts at 13, the rest arrives at 20, the deadline 16 falls in between
            for frame in ("ClientInfo", "Plugin"):
                for c in cuts(frame, prefix, where, full):
                    if frame == "ClientInfo":
                        sc = dict(base, ackAt=1, infoAt=13, lat=[4, 4, 2], locale=LONG_LOCALE if prefix == 2 else "en_US")
                        add("tick/%s/p%d/%s" % (frame, prefix, where), sc, seg={"frame": "ClientInfo", "cut": c, "pause": 7})
                    else:
                        sc = dict(base, ackAt=1, infoAt=25, lat=[4, 4, 2], locale="en_US", plugin={"at": 13, "size": 200 if prefix == 2 else 5})
                        add("tick/%s/p%d/%s" % (frame, prefix, where), sc, seg={"frame": "Plugin", "cut": c, "pause": 7})
                        if prefix == 2:
                            # ... a frame of exactly 128 bytes (length prefix 80 01: its first byte alone reads as zero)
                            sc = dict(sc, plugin={"at": 13, "size": 111})
                            add("tick/%s/p%d/%s/len128" % (frame, prefix, where), sc, seg={"frame": "Plugin", "cut": c, "pause": 7})
            if prefix == 1:
                # during routing: the echo of the Keep Alive of 16 starts at 19 and is completed at 34, after the deadline 32
                for c in cuts("Echo", 1, where, full):
                    sc = dict(base, ackAt=1, infoAt=1, lat=[40, 4, 2], locale="en_US")
                    add("tick/Echo/p1/%s" % where, sc, seg={"frame": "Echo", "cut": c, "pause": 15})
                if where == "atId":
                    sc = dict(base, ackAt=13, infoAt=25, lat=[4, 4, 2], locale="en_US")
                    add("tick/LoginAck/p1/atId", sc, seg={"frame": "LoginAck", "cut": 1, "pause": 7})
                    # ... or is completed only just before the NEXT deadline (31 s), with routing that outlasts several more
                    sc = dict(base, ackAt=13, infoAt=33, lat=[20, 4, 2], locale="en_US")
                    add("tick/LoginAck/p1/atId/late", sc, seg={"frame": "LoginAck", "cut": 1, "pause": 18})
        if by == "outer":
            # routing: discovery completes at 21 while a frame that started at 19 is completed at 24
            frames = [("Echo", 1)] if prefix == 1 else []
            frames.append(("Plugin", prefix))
            frames.append(("ClientInfo2", prefix))
            for frame, pf in frames:
                key = "ClientInfo" if frame == "ClientInfo2" else frame
                cs = cuts(key, pf, where, full) if where != "idle" else [0]
                for c in cs:
                    sc = dict(base, ackAt=1, infoAt=1, lat=[20, 4, 2], locale="en_US")
                    kw = {}
                    if frame == "Echo":
                        kw["seg"] = {"frame": "Echo", "cut": c, "pause": 5}
                    elif frame == "Plugin":
                        sc["plugin"] = {"at": 19, "size": 200 if pf == 2 else 5}
                        kw["seg"] = {"frame": "Plugin", "cut": c, "pause": 5}
                    else:
                        continue  # a second Client Information during routing is covered by the plugin message (same code path)
                    if where == "idle":
                        kw.pop("seg", None)
                    if writing:
                        # the Keep Alive of 16 is accepted k bytes at a time: still unfinished when a routing step completes at 17 --
                        # discovery, filtering, or selection (after which the next packet is queued directly, without a read in between)
                        if "plugin" in sc:
                            sc["plugin"]["at"] = 15
                        for lat in ([16, 4, 2], [4, 12, 2], [4, 4, 8]):
                            for k in ([0, 1, 3] if not full else [0, 1, 2, 3, 5, 9]):
                                add("outer/%s/p%d/%s/writing" % (frame, pf, where), dict(sc, lat=lat), wstall={"at": 15, "k": k, "release": 19}, **kw)
                    else:
                        add("outer/%s/p%d/%s" % (frame, pf, where), sc, **kw)
    out.extend(write_stall_schedules(full))
    # no cancellation at all, but every clientbound write accepted in two portions
    for k in (1, 2, 7):
        add("split-writes", dict(base, ackAt=1, infoAt=3, lat=[20, 4, 2], locale="en_US"), wsplit=k)
    out.extend(pipeline_schedules(full))
    # de-duplicate
    seen, uniq = set(), []
    for r in out:
        key = json.dumps(r, sort_keys=True)
        if key not in seen:
            seen.add(key)
            uniq.append(r)
    return uniq


def write_stall_schedules(full):
    """The Keep Alive of second 16 is accepted k bytes and then the transport stalls; a routing step (discovery / filtering / selection, or
    all three) completes at 17..19 while it is half written; the transport reopens at 19 or only at 30 (after everything else was queued).
    With a client that echoes promptly and with one that never does (the half-written Keep Alive is outstanding all the same)."""
    out = []
    for lat in ([16, 4, 2], [4, 12, 2], [4, 4, 8], [16, 1, 1]):
        for k in ([0, 1, 4] if not full else [0, 1, 2, 4, 5, 9]):
            for release in (19, 30):
                for policy in ("prompt", "never"):
                    out.append({"tag": "stall/lat=%s/k=%d/release=%d/%s" % ("-".join(map(str, lat)), k, release, policy),
                                "sched": {"auth": 0, "policy": policy, "ackAt": 1, "infoAt": 1, "lat": lat, "locale": "en_US"},
                                "wstall": {"at": 15, "k": k, "release": release}})
    # routing outlasts the next deadline: the half-written Keep Alive is outstanding, a client that never echoes it is timed out at 32 s
    for lat in ([16, 40, 2], [4, 12, 40]):
        for k in (0, 1, 4):
            out.append({"tag": "stall/lat=%s/k=%d/release=19/never-outlasting" % ("-".join(map(str, lat)), k),
                        "sched": {"auth": 0, "policy": "never", "ackAt": 1, "infoAt": 1, "lat": lat, "locale": "en_US"},
                        "wstall": {"at": 15, "k": k, "release": 19}})
    # ... and a client that WOULD echo promptly: it can only do so if the half-written Keep Alive is completed as soon as the transport
    # reopens (19 s), not when the next packet happens to be queued (the stage that follows outlasts the next deadline)
    for lat in ([16, 40, 2], [4, 12, 40], [16, 1, 40]):
        for k in (0, 1, 4):
            out.append({"tag": "stall/lat=%s/k=%d/release=19/prompt-outlasting" % ("-".join(map(str, lat)), k),
                        "sched": {"auth": 0, "policy": "prompt", "ackAt": 1, "infoAt": 1, "lat": lat, "locale": "en_US"},
                        "wstall": {"at": 15, "k": k, "release": 19}})
    return out


def pipeline_schedules(full):
    """A pipelined client: the (plaintext) Encryption Response is cut at some offset and its rest arrives in one segment together with
    the already encrypted Login Acknowledged and Client Information -- the switch to the encrypted stream falls inside a segment."""
    n = 263  # length of the Encryption Response frame: 2-byte prefix, id, two 128-byte RSA blocks with 2-byte prefixes
    cuts = range(1, n) if full else (1, 2, 3, 4, 131, 200, n - 1)
    return [{"tag": "pipeline/EncryptionResponse/cut", "sched": {"auth": 0, "policy": "prompt", "ackAt": 1, "infoAt": 1, "lat": [0, 0, 0], "locale": "en_US"}, "pipeline": c}
            for c in cuts]


def run_pairs(scheds, wd, hx, seed, name="observed"):
    """Runs schedules next to their references (hx conn-timed --pair) and lets TLC judge them (Trace_Frames). Returns (fails, observed, tlc result)."""
    inp = os.path.join(wd, name + "_in.ndjson")
    outp = os.path.join(wd, name + ".ndjson")
    vlib.write_ndjson(inp, scheds)
    vlib.run_bin(hx, ["conn-timed", "--pair", "--in", inp, "--out", outp, "--seed", str(seed), "--threads", "12"], timeout=1800)
    observed = vlib.read_ndjson(outp)
    tr = vlib.run_tlc("Trace_Frames", "Trace_Frames.cfg", wd, workers=1, timeout=1800, markers=("FAIL", "NOTCONSUMED"),
                      env_extra={"TRACE": outp}, java_opts=["-Xss1g", "-Dtlc2.tool.queue.IStateQueue=StateDeque"])
    if not tr.ok or tr.marked["NOTCONSUMED"] or tr.distinct != len(observed) + 1:
        raise vlib.ToolError("trace validation did not consume all %d records (distinct=%d):\n%s" % (len(observed), tr.distinct, tr.output[-2000:]))
    return tr.marked["FAIL"], observed, tr


def run(prop, tier):
    t0 = time.time()
    wd = vlib.workdir(prop)
    seed = vlib.seed()
    hx = vlib.cargo_build("hx-core")
    rep = vlib.Reporter(prop)
    notes = []
    r1 = vlib.run_tlc("MC_Frames", "MC_Frames.cfg", wd, workers=4, timeout=900)
    if not r1.ok:
        raise vlib.ToolError("TLC reports %s on MC_Frames.cfg (specification error):\n%s" % (r1.violated, r1.output[-3000:]))
    notes.append("MC_Frames.cfg (cancel-safe design): %s, %.1fs" % (r1.summary(), r1.wall))
    r2 = vlib.run_tlc("MC_Frames", "MC_FramesAsFound.cfg", wd, workers=1, timeout=600)
    if r2.ok or r2.violated != "C08":
        raise vlib.ToolError("MC_FramesAsFound.cfg is expected to violate C08 (vacuity guard), got %s" % r2.violated)
    notes.append("MC_FramesAsFound.cfg: C08 violated as expected (progress of a dropped future is lost)")
    r3 = vlib.run_tlc("MC_Frames", "MC_FramesSituations.cfg", wd, workers=4, timeout=900)
    if not r3.ok:
        raise vlib.ToolError("TLC reports %s on MC_FramesSituations.cfg:\n%s" % (r3.violated, r3.output[-3000:]))
    sits = {}
    for b in r3.marked["REPLAY"]:
        for s in b["situations"]:
            sits[json.dumps(s, sort_keys=True)] = s
    situations = [sits[k] for k in sorted(sits)]
    notes.append("MC_FramesSituations.cfg: %d distinct cancel situations from %d behaviours" % (len(situations), len(r3.marked["REPLAY"])))
    scheds = schedules(situations, tier == "thorough")
    inp = os.path.join(wd, "schedules.ndjson")
    outp = os.path.join(wd, "observed.ndjson")
    vlib.write_ndjson(inp, scheds)
    vlib.run_bin(hx, ["conn-timed", "--pair", "--in", inp, "--out", outp, "--seed", str(seed), "--threads", "12"], timeout=1800)
    observed = vlib.read_ndjson(outp)
    tr = vlib.run_tlc("Trace_Frames", "Trace_Frames.cfg", wd, workers=1, timeout=1800, markers=("FAIL", "NOTCONSUMED"),
                      env_extra={"TRACE": outp}, java_opts=["-Xss1g", "-Dtlc2.tool.queue.IStateQueue=StateDeque"])
    if not tr.ok or tr.marked["NOTCONSUMED"] or tr.distinct != len(observed) + 1:
        raise vlib.ToolError("trace validation did not consume all %d records (distinct=%d):\n%s" % (len(observed), tr.distinct, tr.output[-2000:]))
    for f in tr.marked["FAIL"]:
        o = observed[f["line"] - 1]
        sc = scheds[f["line"] - 1]
        clauses = sorted(f["clauses"])
        rep.violation("%s %s [%s]" % (prop, "+".join(clauses), sc["tag"]),
                      {"failing_clauses": clauses, "schedule": sc, "observed": {k: o[k] for k in o if k != "ref"}, "reference": o.get("ref"), "seed": seed})
    # the segmentation of the very first bytes, through the whole application with the PROXY protocol on: header and first frames in one
    # segment, the header in two pieces, everything separately (Trace_Listener!C08_HeaderSegmentationIrrelevant)
    import listener_check
    hscs = [{"family": "C08hdr", "proxy": True, "allowV1": True, "allowV2": True, "timeoutS": 4},
            {"family": "C08hdr", "proxy": True, "allowV1": True, "allowV2": True, "timeoutS": 4, "secret": "a secret of the operator"}]
    hfails, hobs, ht = listener_check.app_stage("C08", hscs, wd, "hdr")
    for sc, o, clauses in hfails:
        bad = [x for x in o.get("results", []) if x.get("outcome") != "served"]
        rep.violation("%s %s [application, PROXY protocol: %s]" % (prop, "+".join(clauses), ", ".join("%s/%s/%s -> %s" % (x["hdr"], x["kind"], x["cut"], x["outcome"]) for x in bad)[:300]),
                      {"failing_clauses": clauses, "scenario": sc, "observed": o, "seed": seed})
    notes.append("application level: %d connections with differently segmented PROXY header / first frames, judged by Trace_Listener" % sum(len(o.get("results", [])) for o in hobs))
    rc = rep.finish()
    cov = {
        "states": r1.distinct + r3.distinct + tr.distinct,
        "transitions": r1.generated + r3.generated + tr.generated,
        "traces_validated_against_impl": 2 * len(observed),
        "samples": [scheds[0], scheds[len(scheds) // 2], scheds[-1]],
        "evaluations": len(observed),
        "distinct_nontrivial": len({json.dumps(s, sort_keys=True) for s in scheds if "seg" in s or "wstall" in s}),
        "rule": "each cancel situation reached by TLC in Frames.tla (tick or routing completion wins; reader in prefix / before id / in body; 1- or 2-byte prefix; "
                "clientbound frame half written) is instantiated with concrete frames (Client Information, plugin message, Keep Alive echo, Login Acknowledged), cut "
                "offsets (thorough: every offset) and a pause in which the event falls; each is run next to its unsegmented reference; non-trivial = has a cut or a write stall",
        "exhaustive": tier == "thorough",
        "tlc": notes + ["Trace_Frames: %d pairs judged in %.1fs" % (len(observed), tr.wall)],
        "situations": situations,
        "known_findings_hit": {k: n for k, (_, n) in rep.known_hit.items()},
    }
    vlib.write_evidence(prop, tier, "model_checking", cov, time.time() - t0, len(rep.violations),
                        assumptions=["the reference execution is the implementation's own run with whole frames at the same completion times",
                                     "tokio's paused clock is faithful to its real timer semantics"])
    vlib.cleanup(wd)
    return rc
