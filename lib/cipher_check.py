"""C05: spec/Cipher.tla checked by TLC (every Pending / partial-accept / read-size schedule for small writes, switch at every
point); every schedule replayed against the real CipherStream; observations judged by TLC (Trace_Cipher)."""
import json
import os
import time

import vlib


def describe(o, s=None):
    pol = "".join("P" if w["out"] == "pending" else "a" for w in o["w"])
    if s:
        ops = [x["op"] for x in s.get("sched", [])]
        pol += (" abandon" if "abandon" in ops else "") + (" vectored" if "wv" in ops else "")
    rd = "".join("P" if w["out"] == "pending" else "r" for w in o["r"])
    return "src=%s writes=%s switchAfter=%s wpolls=%s rpolls=%s" % (o["src"], o["ws"], o["sw"], pol[:24], rd[:24])


def run(prop, tier):
    t0 = time.time()
    wd = vlib.workdir(prop)
    seed = vlib.seed()
    hx = vlib.cargo_build("hx-core")
    rep = vlib.Reporter(prop)
    notes = []
    states = transitions = 0
    scheds = []
    cfgs = ["MC_CipherWriteQuick.cfg", "MC_CipherVecQuick.cfg", "MC_CipherReadQuick.cfg"] if tier == "quick" else ["MC_CipherWrite.cfg", "MC_CipherRead.cfg"]
    for cfg in cfgs:
        r = vlib.run_tlc("MC_Cipher", cfg, wd, workers=4, timeout=1800)
        if not r.ok:
            raise vlib.ToolError("TLC reports %s on %s (specification error):\n%s" % (r.violated, cfg, r.output[-3000:]))
        states += r.distinct
        transitions += r.generated
        notes.append("%s: %s, %d schedules, %.1fs" % (cfg, r.summary(), len(r.marked["REPLAY"]), r.wall))
        scheds.extend(r.marked["REPLAY"])
    # the structure of the code as found must be rejected by the model (the invariant is not vacuous)
    r = vlib.run_tlc("MC_Cipher", "MC_CipherAsFound.cfg", wd, workers=1, timeout=600)
    if r.ok or r.violated != "C05":
        raise vlib.ToolError("MC_CipherAsFound.cfg is expected to violate C05 (vacuity guard), got %s" % r.violated)
    notes.append("MC_CipherAsFound.cfg: C05 violated as expected (keystream advanced on Pending / partial accept)")
    r = vlib.run_tlc("MC_Cipher", "MC_CipherStalled.cfg", wd, workers=1, timeout=600)
    if r.ok or r.violated != "C05":
        raise vlib.ToolError("MC_CipherStalled.cfg is expected to violate C05 (vacuity guard for abandoned writes), got %s" % r.violated)
    notes.append("MC_CipherStalled.cfg: C05 violated as expected (ciphertext of a stalled attempt kept for other bytes)")
    inp = os.path.join(wd, "schedules.ndjson")
    outp = os.path.join(wd, "observed.ndjson")
    vlib.write_ndjson(inp, scheds)
    nrand = 200 if tier == "quick" else 20000
    vlib.run_bin(hx, ["cipher", "--in", inp, "--out", outp, "--seed", str(seed), "--random", str(nrand)], timeout=1800)
    observed = vlib.read_ndjson(outp)
    tr = vlib.run_tlc("Trace_Cipher", "Trace_Cipher.cfg", wd, workers=1, timeout=1800, markers=("FAIL", "NOTCONSUMED"),
                      env_extra={"TRACE": outp}, java_opts=["-Xss1g", "-Dtlc2.tool.queue.IStateQueue=StateDeque"])
    if not tr.ok or tr.marked["NOTCONSUMED"] or tr.distinct != len(observed) + 1:
        raise vlib.ToolError("trace validation did not consume all %d records (distinct=%d):\n%s" % (len(observed), tr.distinct, tr.output[-2000:]))
    for f in tr.marked["FAIL"]:
        o = observed[f["line"] - 1]
        clauses = sorted(f["clauses"])
        first = next((w["out"] for w in o["w"] if w["acc"] != w["rep"] or w["match"] != w["acc"]), "-")
        kind = "first-bad-write-poll=%s" % first
        sig = "%s %s [%s %s]" % (prop, "+".join(clauses), kind, describe(o, scheds[f["line"] - 1] if f["line"] <= len(scheds) else None))
        rep.violation(sig, {"failing_clauses": clauses, "schedule": scheds[f["line"] - 1] if f["line"] <= len(scheds) else "random (seeded)",
                            "observed": o, "seed": seed})
    # the encrypted stream at CONNECTION level: the switch from plaintext to ciphertext inside one segment (pipelined client), every
    # clientbound write accepted in portions, a transport that stalls in the middle of a frame while routing steps complete, serverbound frames
    # that arrive in pieces around a timer tick or a routing completion -- each run next to its whole-frame reference (pairs judged by Trace_Frames)
    import frames_check
    r3 = vlib.run_tlc("MC_Frames", "MC_FramesSituations.cfg", wd, workers=4, timeout=900)
    if not r3.ok:
        raise vlib.ToolError("TLC reports %s on MC_FramesSituations.cfg:\n%s" % (r3.violated, r3.output[-3000:]))
    sits = {}
    for b in r3.marked["REPLAY"]:
        for x in b["situations"]:
            sits[json.dumps(x, sort_keys=True)] = x
    pscheds = frames_check.schedules([sits[k] for k in sorted(sits)], tier == "thorough")
    pfails, pobs, ptr = frames_check.run_pairs(pscheds, wd, hx, seed, name="connlevel")
    for f in pfails:
        o = pobs[f["line"] - 1]
        sc = pscheds[f["line"] - 1]
        rep.violation("%s C05_ConnectionStreamUnderPartialIO(%s) [%s]" % (prop, "+".join(sorted(f["clauses"])), sc["tag"]),
                      {"failing_clauses": sorted(f["clauses"]), "schedule": sc, "observed": {k: o[k] for k in o if k not in ("ref", "hist")}, "reference": o.get("ref"), "seed": seed})
    states += r3.distinct + ptr.distinct
    transitions += r3.generated + ptr.generated
    notes.append("connection level: %d schedules (pipelined switch, split writes, write stalls, segmented reads) run in pairs and judged by Trace_Frames" % len(pobs))
    rc = rep.finish()
    nontrivial = {json.dumps([o["ws"], o["sw"], [w["out"] for w in o["w"]], [(x["out"]) for x in o["r"]], i if o["src"] == "random" else 0])
                  for i, o in enumerate(observed) if any(w["out"] == "pending" for w in o["w"] + o["r"]) or len(o["w"]) > len(o["ws"])}
    cov = {
        "states": states + tr.distinct,
        "transitions": transitions + tr.generated,
        "traces_validated_against_impl": len(observed),
        "samples": [scheds[0], scheds[len(scheds) // 2], {"observed": observed[len(scheds) // 2]}],
        "evaluations": len(observed),
        "distinct_nontrivial": len(nontrivial),
        "rule": "schedules = every complete behaviour of Cipher.tla under the listed configs (poll outcomes Pending / Accept k, a buffer abandoned after Pending, "
                "two-slice vectored writes, arrival portions, read capacities down to 1, pre-filled buffers, switch point) + seeded random schedules over 1 B - 40 KB payloads "
                "(sizes around 4 / 8 / 16 KiB included; abandon and vectored writes mixed in); each abstract byte is 1, 7, 16 or 17 concrete bytes; "
                "non-trivial = contains a Pending or a partial accept",
        "exhaustive": True,
        "tlc": notes + ["Trace_Cipher: %d records judged in %.1fs" % (len(observed), tr.wall)],
        "known_findings_hit": {k: n for k, (_, n) in rep.known_hit.items()},
    }
    vlib.write_evidence(prop, tier, "model_checking", cov, time.time() - t0, len(rep.violations),
                        assumptions=["the independent CFB8 (raw AES block function) in harness/hx-core/src/refcodec.rs is correct (it agrees with the crate on whole writes)",
                                     "plaintexts and secrets are seeded random bytes"])
    vlib.cleanup(wd)
    return rc
