#!/usr/bin/env python3
"""Seeded-change bookkeeping.
  seedtool.py confirm <prop> <k> [--crate passage-protocol]   re-confirm a sub-agent's mutant in its worktree /tmp/wt-<prop>:
        existing suite passes with the change, demo fails with it, demo passes without it
  seedtool.py eval <prop> <k> [--tier quick] [--checks C01,C02]   apply to /repo, run the check(s), revert; prints the verdicts
  seedtool.py store <prop> <k> <name>                          copy into /verif/seeded/<name>/ with meta.json
"""
import glob
import json
import os
import re
import shutil
import subprocess
import sys

VERIF = os.path.dirname(os.path.dirname(os.path.abspath(__file__)))
RND = os.environ.get("SEED_ROUND", "")   # "" -> /tmp/seed-Cxx, /tmp/wt-Cxx ; "3" -> /tmp/seed3-Cxx, /tmp/wt3-Cxx
SEEDP = "/tmp/seed%s-" % RND
WTP = "/tmp/wt%s-" % RND


def sh(cmd, cwd=None, env=None, timeout=3600):
    e = dict(os.environ)
    if env:
        e.update(env)
    p = subprocess.run(cmd, shell=True, cwd=cwd, env=e, stdout=subprocess.PIPE, stderr=subprocess.STDOUT, timeout=timeout)
    return p.returncode, p.stdout.decode(errors="replace")


def demo_file(prop, k):
    fs = glob.glob(SEEDP + "%s/demo%s/*.rs" % (prop, k))
    fs.sort()
    return fs[0] if fs else None


def confirm(prop, k, crate, rustflags=None, demo_dir=None):
    wt = WTP + prop
    env = {"CARGO_TARGET_DIR": wt + "/target", "CARGO_NET_OFFLINE": "true"}
    denv = dict(env)
    if rustflags:
        denv["RUSTFLAGS"] = rustflags
    diff = SEEDP + "%s/mut%s.diff" % (prop, k)
    demo = demo_file(prop, k)
    res = {}
    sh("git checkout -- . && git clean -fdq -e target", cwd=wt)
    rc, out = sh("git apply %s" % diff, cwd=wt)
    if rc:
        return {"error": "patch does not apply: " + out[-300:]}
    rc, out = sh("cargo test --workspace --offline --no-fail-fast 2>&1 | grep -E '^test result|error(\\[|:)' ", cwd=wt, env=env)
    passed = sum(int(m) for m in re.findall(r"(\d+) passed", out))
    failed = sum(int(m) for m in re.findall(r"(\d+) failed", out))
    res["suite_with_change"] = {"passed": passed, "failed": failed, "compiles": "error" not in out}
    dest = None
    if demo_dir:
        # a standalone demo crate (path dependencies into the worktree)
        cmd = "cargo test --offline 2>&1 | tail -15"
        rc1, out1 = sh(cmd, cwd=demo_dir, env=denv)
        res["demo_with_change"] = "FAILS" if ("FAILED" in out1 or "panicked" in out1) else "passes"
        res["demo_with_change_tail"] = out1[-400:]
        sh("git checkout -- .", cwd=wt)
        rc2, out2 = sh(cmd, cwd=demo_dir, env=denv)
        res["demo_without_change"] = "passes" if "test result: ok" in out2 and "FAILED" not in out2 else "FAILS"
        res["demo_without_change_tail"] = out2[-300:]
    elif demo:
        dest = os.path.join(wt, crate, "tests", os.path.basename(demo))
        os.makedirs(os.path.dirname(dest), exist_ok=True)
        shutil.copy(demo, dest)
        name = os.path.splitext(os.path.basename(demo))[0]
        pkg = {"": "passage", "src": "passage"}.get(crate, crate.replace("/", "-").replace("passage-adapters-", "passage-adapters-"))
        if crate == ".":
            pkg = "passage"
        cmd = "cargo test -p %s --offline --test %s 2>&1 | tail -15" % (pkg, name)
        rc1, out1 = sh(cmd, cwd=wt, env=denv)
        res["demo_with_change"] = "FAILS" if ("FAILED" in out1 or "failed" in out1 or "panicked" in out1) and "test result: ok" not in out1.split("\n")[-3:] else "passes"
        res["demo_with_change_tail"] = out1[-400:]
        sh("git checkout -- .", cwd=wt)
        rc2, out2 = sh(cmd, cwd=wt, env=denv)
        res["demo_without_change"] = "passes" if "test result: ok" in out2 and "FAILED" not in out2 else "FAILS"
        res["demo_without_change_tail"] = out2[-300:]
        os.remove(dest)
    sh("git checkout -- . && git clean -fdq -e target", cwd=wt)
    return res


def evaluate(prop, k, tier, checks):
    diff = SEEDP + "%s/mut%s.diff" % (prop, k)
    REPO = os.environ.get("SEED_REPO", "/repo")
    rc, out = sh("git -C %s status --short" % REPO)
    if out.strip():
        return {"error": "%s is not clean: " % REPO + out}
    rc, out = sh("git -C %s apply %s" % (REPO, diff))
    if rc:
        return {"error": "patch does not apply to /repo: " + out[-300:]}
    res = {}
    try:
        for c in checks:
            rc, out = sh("bin/check %s %s 2>&1 | grep -E '^VIOLATION|what:|TOOL-ERROR|KNOWN' | head -6" % (c, tier), cwd=VERIF, timeout=7200)
            rc2, full = 0, out
            res[c] = {"caught": "VIOLATION" in out, "lines": out.strip().split("\n")[:6]}
    finally:
        sh("git -C %s checkout -- ." % REPO)
    return res


def store(prop, k, name, extra):
    d = os.path.join(os.environ.get("SEED_STORE", os.path.join(VERIF, "seeded")), name)
    os.makedirs(d, exist_ok=True)
    shutil.copy(SEEDP + "%s/mut%s.diff" % (prop, k), os.path.join(d, "patch.diff"))
    dd = os.path.join(d, "demo")
    shutil.rmtree(dd, ignore_errors=True)
    if os.path.isdir(SEEDP + "%s/demo%s" % (prop, k)):
        shutil.copytree(SEEDP + "%s/demo%s" % (prop, k), dd)
    meta = {}
    mp = SEEDP + "%s/meta%s.json" % (prop, k)
    if os.path.exists(mp):
        try:
            meta = json.load(open(mp))
        except Exception:
            meta = {"raw": open(mp).read()}
    meta.update(extra)
    json.dump(meta, open(os.path.join(d, "meta.json"), "w"), indent=1)


if __name__ == "__main__":
    a = sys.argv[1:]
    if a[0] == "confirm":
        crate = a[a.index("--crate") + 1] if "--crate" in a else "passage-protocol"
        rf = a[a.index("--rustflags") + 1] if "--rustflags" in a else None
        dd = a[a.index("--demo-dir") + 1] if "--demo-dir" in a else None
        print(json.dumps(confirm(a[1], a[2], crate, rf, dd), indent=1))
    elif a[0] == "eval":
        tier = a[a.index("--tier") + 1] if "--tier" in a else "quick"
        checks = a[a.index("--checks") + 1].split(",") if "--checks" in a else [a[1]]
        print(json.dumps(evaluate(a[1], a[2], tier, checks), indent=1))
    elif a[0] == "regress":
        # every stored change must still be caught by the check(s) recorded in its meta.json
        tier = a[a.index("--tier") + 1] if "--tier" in a else "quick"
        REPO = os.environ.get("SEED_REPO", "/repo")   # a mirror (its own checkout + its own copy of this directory) can run a share of the seeds
        only = a[1].split(",") if len(a) > 1 and not a[1].startswith("--") else None
        bad = 0
        for d in sorted(glob.glob(os.path.join(VERIF, "seeded", "*"))):
            name = os.path.basename(d)
            if only and not any(name.startswith(o) for o in only):
                continue
            meta = json.load(open(os.path.join(d, "meta.json")))
            checks = sorted(c for c, v in (meta.get("detected_by") or {}).items() if (v.get("caught") if isinstance(v, dict) else v)) or [name[:3]]
            if name[:3] in checks:
                checks = [name[:3]]   # the own check first where it catches the change
            rc, out = sh("git -C %s status --short" % REPO)
            if out.strip():
                print("ERROR %s not clean" % REPO); sys.exit(2)
            rc, out = sh("git -C %s apply %s" % (REPO, os.path.join(d, "patch.diff")))
            if rc:
                print("%s: patch no longer applies" % name); bad += 1; continue
            try:
                verdict = {}
                for c in checks[:1]:
                    rc, out = sh("bin/check %s %s 2>&1 | grep -E '^VIOLATION|TOOL-ERROR' | head -3" % (c, tier), cwd=VERIF, timeout=7200)
                    verdict[c] = "VIOLATION" in out
            finally:
                sh("git -C %s checkout -- ." % REPO)
            ok = all(verdict.values())
            bad += 0 if ok else 1
            print("%s: %s %s" % (name, "caught" if ok else "MISSED", verdict), flush=True)
        print("regress: %d not caught" % bad)
        sys.exit(1 if bad else 0)
    elif a[0] == "store":
        extra = json.loads(a[4]) if len(a) > 4 else {}
        store(a[1], a[2], a[3], extra)
