"""C01 C02 C03 C04 C06 C10: spec/Conn.tla checked by TLC, every exported behaviour replayed into the real
Connection (harness `hx conn`), observed history compared with the model's through per-property projections."""
import json
import os
import time

import vlib

GRANT_KINDS = ("LoginSuccess", "Transfer")

# which TLC configurations feed which property in which tier
CONFIGS = {
    "quick": {
        "C01": ["MC_ConnQuickLogin.cfg"],
        "C02": ["MC_ConnQuickLogin.cfg", "MC_ConnQuickPair.cfg"],   # + two-connection histories: the cookie the server ISSUED, presented again
        "C03": ["MC_ConnQuickRouting.cfg"],
        "C04": ["MC_ConnQuickLogin.cfg"],
        "C06": ["MC_ConnQuickLogin.cfg", "MC_ConnQuickRouting.cfg"],
        "C10": ["MC_ConnQuickPair.cfg"],
    },
    "thorough": {
        "C01": ["MC_ConnLogic.cfg"],
        "C02": ["MC_ConnLogic.cfg", "MC_ConnPair.cfg"],
        "C03": ["MC_ConnLogic.cfg"],
        "C04": ["MC_ConnLogic.cfg"],
        "C06": ["MC_ConnLogic.cfg"],
        "C10": ["MC_ConnPair.cfg"],
    },
}


def strip(ev):
    """Removes observation-only fields (timestamps)."""
    return {k: v for k, v in ev.items() if k != "t"}


def res_class(r):
    return r if r in ("Ok", "NoTargetFound", "MissedKeepAlive", "Err", "Panic", "running") else "Err"


def flat(beh):
    out = []
    for r in beh["hist"]:
        out.extend(r["obs"])
    return out


def nontrivial(prop, tr):
    ks = [ev["f"].get("k") for ev in tr if ev["e"] == "rx"]
    calls = [ev["c"]["a"] for ev in tr if ev["e"] == "call"]
    if prop == "C01":
        # ... or the Encryption Request was sent and the client deviates instead of answering it (whatever it sends there, nothing is granted)
        return "EncryptionResponse" in ks or any(ev["e"] == "tx" and ev["p"].get("k") == "EncryptionRequest" for ev in tr)
    if prop == "C02":
        return "LoginCookieResponse" in ks
    if prop == "C03":
        return "discover" in calls
    if prop == "C04":
        return ("Malformed" in ks or any(ev["e"] == "rx" and ev["f"].get("next") in ("next0", "next4") for ev in tr)
                or any(ev["e"] == "rx" and ev["f"].get("c") in ("garbage", "badSecretLen", "otherKey") for ev in tr))
    if prop == "C06":
        return len(ks) >= 2
    if prop == "C10":
        # routed connections (cookies are issued there); the two-connection histories are all of them in the pair configs
        return any(ev["e"] == "tx" and ev["p"].get("k") in ("Transfer", "StoreCookie") for ev in tr)
    return True


def describe(beh):
    """Short stable description of the abstract input of a behaviour (for signatures)."""
    bits = []
    for k, r in enumerate(beh["hist"]):
        if k > 0:
            bits.append("reconnect(%s)" % ",".join("%s=%s" % kv for kv in sorted(r["rc"].items())))
        bits.append("secret=" + str(r.get("secret")))
        for ev in r["obs"]:
            if ev["e"] == "rx":
                f = ev["f"]
                k_ = f.get("k")
                if f.get("unexpected"):
                    bits.append("unexpected=" + str(k_))
                elif k_ == "Handshake":
                    bits.append("intent=" + str(f.get("next")))
                elif k_ == "LoginCookieResponse" and "which" in f:
                    bits.append("%s=%s" % ("sess" if f["which"] == "session" else "cookie", f.get("v")))
                elif k_ == "EncryptionResponse" and "c" in f:
                    bits.append("enc=" + f["c"])
                elif k_ == "Malformed":
                    bits.append("malformed=" + f.get("class", ""))
                elif k_ == "ClientInfo":
                    loc = str(f.get("locale"))
                    bits.append("locale=" + (loc if len(loc) <= 24 else "%s..(%d chars)" % (loc[:12], len(loc))))
            elif ev["e"] == "call" and ev["c"]["a"] in ("auth", "status"):
                bits.append("%s->%s" % (ev["c"]["a"], ev["c"].get("ret")))
            elif ev["e"] == "call" and ev["c"]["a"] in ("discover", "filter", "select"):
                bits.append("%s->%s" % (ev["c"]["a"], json.dumps(ev["c"].get("ret"))))
    if "cookieLen" in beh:
        bits.append("issued cookie of %d bytes" % beh["cookieLen"])
    if "hostLen" in beh:
        bits.append("handshake address of %d characters" % beh["hostLen"])
    return " ".join(bits)


def stage_of(beh):
    """Where in the protocol the last frame of the scripted input arrives (for signatures)."""
    n = 0
    for r in beh["hist"]:
        n = sum(1 for ev in r["obs"] if ev["e"] == "rx")
    return n


def run(prop, tier):
    t0 = time.time()
    wd = vlib.workdir(prop)
    seed = vlib.seed()
    hx = vlib.cargo_build("hx-core")
    rep = vlib.Reporter(prop)
    states = transitions = 0
    behaviours = []
    seen = set()
    tlc_notes = []
    for cfg in CONFIGS[tier][prop]:
        r = vlib.run_tlc("MC_Conn", cfg, wd, workers=4 if tier == "quick" else 8, timeout=1800)
        if not r.ok:
            # the design itself violates an invariant: that is a defect of the specification, not of the code
            raise vlib.ToolError("TLC reports %s on %s (specification error):\n%s" % (r.violated, cfg, r.output[-3000:]))
        states += r.distinct
        transitions += r.generated
        tlc_notes.append("%s: %s, %d behaviours, %.1fs" % (cfg, r.summary(), len(r.marked["REPLAY"]), r.wall))
        for b in r.marked["REPLAY"]:
            key = json.dumps(b, sort_keys=True)
            if key not in seen:
                seen.add(key)
                behaviours.append(b)
    # keep the behaviours the property talks about (C04 also keeps a slice of the rest as a no-panic corpus)
    rel = [b for b in behaviours if nontrivial(prop, flat(b))]
    if prop == "C04":
        rest = [b for b in behaviours if not nontrivial(prop, flat(b))]
        if tier == "quick":
            rest = rest[:: max(1, len(rest) // 300)]
        sel = rel + rest
    else:
        sel = rel
    if tier == "thorough":
        # every truncation length / every single-bit flip / every variant: on the straight continuations (honest response, verdict
        # "same", first routing outcome) of each class; the other continuations of the same class get sampled variants
        seen_fan = set()
        for b in sel:
            evs = flat(b)
            cls = [(ev["f"].get("v"), ev["f"].get("c")) for ev in evs if ev["e"] == "rx" and (ev["f"].get("which") == "auth" or "c" in ev["f"])]
            straight = not any(ev["e"] == "rx" and (ev["f"].get("unexpected") or ev["f"].get("k") == "Malformed") for ev in evs)
            key = (b["hist"][0]["secret"], json.dumps(cls), len(b["hist"]))
            if straight and key not in seen_fan:
                seen_fan.add(key)
                b["fan"] = "full"
    if not sel:
        raise vlib.ToolError("no behaviour selected for %s (vacuous run)" % prop)
    if prop == "C04":
        # random bytes in every protocol state (weak oracle: no panic, ends after the client's end of stream, bounded allocation):
        # an honest prefix of a behaviour, then seeded random bytes (raw, or behind a plausible length prefix), then EOF
        import random
        rnd = random.Random(seed * 1000003 + 4)
        honest = [b for b in behaviours if len(b["hist"]) == 1 and not any(ev["e"] == "rx" and (ev["f"].get("unexpected") or ev["f"].get("k") == "Malformed"
                                                                                                 or ev["f"].get("next") in ("next0", "next4")) for ev in flat(b))]
        fuzz = []
        for _ in range(400 if tier == "quick" else 20000):
            b = rnd.choice(honest)
            rxs = [ev for ev in b["hist"][0]["obs"] if ev["e"] == "rx"]
            cut = rnd.randint(0, len(rxs))
            kind = rnd.random()
            if kind < 0.4:
                raw = bytes(rnd.randrange(256) for _ in range(rnd.randint(1, 64)))
            elif kind < 0.8:
                body = bytes(rnd.randrange(256) for _ in range(rnd.randint(1, 120)))
                raw = bytes([len(body)]) + body if len(body) < 128 else bytes([0x80 | (len(body) & 0x7f), len(body) >> 7]) + body
            else:
                # a short frame with a small packet id and a random body (likely to reach a packet parser)
                body = bytes([rnd.randrange(8)]) + bytes(rnd.randrange(256) for _ in range(rnd.randint(0, 40)))
                raw = bytes([len(body)]) + body
            r0 = dict(b["hist"][0])
            r0["obs"] = rxs[:cut] + [{"e": "rx", "f": {"k": "Fuzz", "hex": raw.hex()}}]
            r0["result"] = "Err"
            fuzz.append({"why": "fuzz", "hist": [r0], "fuzz": True})
        sel = sel + fuzz
        # the one client string that is processed AFTER decoding: the locale of Client Information goes through the localization service when the
        # player cannot be routed (or is timed out). Unusual locales on complete, honest logins that end in the localized Disconnect (same weak oracle)
        noroute = [b for b in honest if any(ev["e"] == "tx" and ev["p"].get("k") == "Disconnect" for ev in b["hist"][0]["obs"])
                   and any(ev["e"] == "rx" and ev["f"].get("k") == "ClientInfo" for ev in b["hist"][0]["obs"])]
        weird = ["\u00e9_fr", "\u6c49_CN", "\U0001F600_\U0001F600", "_", "__", "de_", "_DE", "a_b_c_d_e_f_g_h", "\u00e9" * 8 + "_x", "_" * 9900, "a_" * 4900, "x" * 9900,
                 "\u6c49_" * 2400, "de_DE\x00", " de_DE", "de-DE", "DE_de"]
        for b in noroute[:3]:
            for w in weird:
                r0 = json.loads(json.dumps(b["hist"][0]))
                for ev in r0["obs"]:
                    if ev["e"] == "rx" and ev["f"].get("k") == "ClientInfo":
                        ev["f"]["locale"] = w
                sel.append({"why": "locale", "hist": [r0], "fuzz": True})
    if prop in ("C04", "C06"):
        # every admissible length of the server address in the Handshake (1 .. 255 characters): the frame length prefix then runs through
        # one and two bytes and every value of its first byte; the conversation is the modelled one whatever the length
        def plain(b):
            return len(b["hist"]) == 1 and not any(ev["e"] == "rx" and (ev["f"].get("unexpected") or ev["f"].get("k") in ("Malformed", "Fuzz")
                                                                          or ev["f"].get("next") in ("next0", "next4")) for ev in flat(b))
        ping = [b for b in behaviours if plain(b) and any(ev["e"] == "tx" and ev["p"].get("k") == "Pong" for ev in flat(b))]
        moved = [b for b in behaviours if plain(b) and any(ev["e"] == "tx" and ev["p"].get("k") == "Transfer" for ev in flat(b))]
        for base in ping[:1] + moved[:1]:
            for n in range(1, 256):
                c = json.loads(json.dumps(base))
                c["hostLen"] = n
                c["why"] = "hostLen"
                sel.append(c)
    if prop == "C10":
        # wall-clock dependence: two histories whose first connection spends 3.2 real seconds in discovery (the issued cookie must carry the
        # time of issue, not the time the login started)
        slow = [b for b in sel if b["hist"][0]["secret"] == "S" and any(ev["e"] == "tx" and ev["p"].get("k") == "StoreCookie" and ev["p"].get("key") == "auth" for ev in b["hist"][0]["obs"])]
        for b in slow[:2]:
            b["slow"] = True
        # the size of the issued cookie: a profile with larger properties (skins with signatures) gives cookies of a kilobyte and more,
        # up to what a vanilla client stores (5120 bytes) and beyond -- whatever was issued is accepted when it comes back
        def comes_back(b):
            if len(b["hist"]) != 2 or b["hist"][1]["rc"] != {"age": "within", "ip": "same", "secret": "same"} or b["hist"][0]["secret"] != "S":
                return False
            r1 = b["hist"][1]["obs"]
            return (any(ev["e"] == "rx" and ev["f"].get("which") == "auth" and ev["f"].get("v") == "jar" for ev in r1)
                    and any(ev["e"] == "tx" and ev["p"].get("k") == "Transfer" for ev in r1) and not any(ev["e"] == "call" and ev["c"]["a"] == "auth" for ev in r1)
                    and any(ev["e"] == "call" and ev["c"]["a"] == "auth" for ev in b["hist"][0]["obs"]))
        back = [b for b in behaviours if comes_back(b)]
        for base in back[:2]:
            for n in (1024, 2048, 4096, 5093, 5094, 5107, 5119, 5120, 6000, 8192):
                c = json.loads(json.dumps(base))
                c["cookieLen"] = n
                c["why"] = "cookieLen"
                sel.append(c)
    inp = os.path.join(wd, "behaviours.ndjson")
    outp = os.path.join(wd, "observed.ndjson")
    vlib.write_ndjson(inp, sel)
    args = ["conn", "--in", inp, "--out", outp, "--seed", str(seed), "--threads", "12"]
    if tier == "thorough":
        args.append("--fanout-full")
    vlib.run_bin(hx, args, timeout=3000)
    observed = vlib.read_ndjson(outp)
    if prop == "C04":
        # rounds of the locale family are tagged: the single-request bound there allows a pointer-sized record per byte of the processed string
        for o in observed:
            if sel[o["i"]].get("why") == "locale":
                for h in o["hist"]:
                    h["procFactor"] = 64
        vlib.write_ndjson(outp, observed)
    # code -> spec: the recorded histories are judged by the property-level layer of the specification
    tr = vlib.run_tlc("Trace_ConnProps", "Trace_ConnProps.cfg", wd, workers=1, timeout=1800, markers=("FAIL", "NOTCONSUMED"),
                      env_extra={"TRACE": outp, "PROP": prop}, java_opts=["-Xss1g", "-Dtlc2.tool.queue.IStateQueue=StateDeque"])
    if not tr.ok or tr.marked["NOTCONSUMED"] or tr.distinct != len(observed) + 1:
        raise vlib.ToolError("trace validation did not consume all %d records (distinct=%d):\n%s" % (len(observed), tr.distinct, tr.output[-2000:]))
    for f in tr.marked["FAIL"]:
        o = observed[f["line"] - 1]
        beh = sel[o["i"]]
        clauses = sorted(f["clauses"])
        sig = "%s %s [%s]" % (prop, "+".join(clauses), describe(beh))
        rep.violation(sig, {"failing_clauses": clauses, "abstract_behaviour": beh, "observed": o, "seed": seed,
                            "how_to_replay": "bin/check %s %s with VERIF_SEED=%d; behaviour index %d variant %s" % (prop, tier, seed, o["i"], o.get("var"))})
    drift = exact = 0
    samples = []
    for o in observed:
        beh = sel[o["i"]]
        if beh.get("fuzz"):
            continue
        same = len(beh["hist"]) == len(o["hist"]) and all(
            [strip(e) for e in a["obs"]] == [strip(e) for e in b["obs"]] and a["result"] == res_class(b["result"])
            for a, b in zip(beh["hist"], o["hist"]))
        if same:
            exact += 1
        else:
            drift += 1
        if len(samples) < 3 and nontrivial(prop, flat(beh)) and o["i"] % 97 == 3:
            samples.append({"abstract": beh, "concretisation": o.get("conc"), "variant": o["hist"][-1].get("var"),
                            "observed_result": o["hist"][-1]["result"], "observed_why": o["hist"][-1]["why"]})
    if not samples and observed:
        o = observed[0]
        samples.append({"abstract": sel[o["i"]], "concretisation": o.get("conc"), "observed_result": o["hist"][-1]["result"]})
    extra_notes = []
    if prop in ("C01", "C02", "C03", "C06"):
        # the same clauses on TIMED executions (slow authentication, slow routing stages, keep-alives in between): ConnTimed schedules
        tcfg = "MC_ConnTimedQuick.cfg" if tier == "quick" else "MC_ConnTimedFull.cfg"
        tm = vlib.run_tlc("MC_ConnTimed", tcfg, wd, workers=4, timeout=1800)
        if not tm.ok:
            raise vlib.ToolError("TLC reports %s on %s (specification error):\n%s" % (tm.violated, tcfg, tm.output[-2000:]))
        scheds = sorted({json.dumps(b["sched"], sort_keys=True) for b in tm.marked["REPLAY"]})
        # an idle client inside the login phase (no keep-alive, no disconnect belongs there, however long it idles)
        for frame in ("LoginStart", "EncryptionResponse"):
            for secs in (17, 33, 49):
                for lat in ([0, 0, 0], [0, 20, 0]):
                    scheds.append(json.dumps({"auth": 0, "ackAt": 1, "infoAt": 1, "lat": lat, "policy": "prompt",
                                              "preDelay": {"frame": frame, "secs": secs}}, sort_keys=True))
        if prop == "C01":
            # ... also for hours: whatever the server keeps per process and refreshes over time, the service is asked with what THIS exchange used
            for secs in (3700, 7300):
                scheds.append(json.dumps({"auth": 0, "ackAt": 1, "infoAt": 1, "lat": [0, 0, 0], "policy": "prompt",
                                          "preDelay": {"frame": "EncryptionResponse", "secs": secs}}, sort_keys=True))
        tinp, toutp = os.path.join(wd, "timed_in.ndjson"), os.path.join(wd, "timed_obs.ndjson")
        trecs = [{"sched": json.loads(x)} for x in scheds]
        if prop in ("C03", "C06"):
            # the Transfer behind a half-written Keep Alive: the transport stalls in mid-frame while routing steps complete (Frames.tla situations)
            import frames_check
            trecs += [{k: v for k, v in r.items() if k != "tag"} for r in frames_check.write_stall_schedules(tier == "thorough")]
        vlib.write_ndjson(tinp, trecs)
        vlib.run_bin(hx, ["conn-timed", "--in", tinp, "--out", toutp, "--seed", str(seed), "--threads", "12"], timeout=1800)
        tobs = vlib.read_ndjson(toutp)
        tt = vlib.run_tlc("Trace_ConnProps", "Trace_ConnProps.cfg", wd, workers=1, timeout=1800, markers=("FAIL", "NOTCONSUMED"),
                          env_extra={"TRACE": toutp, "PROP": prop}, java_opts=["-Xss1g", "-Dtlc2.tool.queue.IStateQueue=StateDeque"])
        if not tt.ok or tt.marked["NOTCONSUMED"] or tt.distinct != len(tobs) + 1:
            raise vlib.ToolError("trace validation of the timed runs did not consume all %d records:\n%s" % (len(tobs), tt.output[-2000:]))
        for f in tt.marked["FAIL"]:
            o = tobs[f["line"] - 1]
            sc = o["sched"]
            rep.violation("%s %s [timed: policy=%s auth=%s ack=%s info=%s lat=%s]" % (prop, "+".join(sorted(f["clauses"])), sc.get("policy"), sc.get("auth"), sc.get("ackAt"), sc.get("infoAt"), str(sc.get("lat")) + (" idle before %s for %ss" % (sc["preDelay"]["frame"], sc["preDelay"]["secs"]) if sc.get("preDelay") else "")),
                          {"failing_clauses": sorted(f["clauses"]), "schedule": sc, "observed": {k: o[k] for k in o if k != "hist"}, "seed": seed})
        states += tm.distinct + tt.distinct
        transitions += tm.generated + tt.generated
        extra_notes.append("%s: %d timed schedules run under virtual time and judged by Trace_ConnProps" % (tcfg, len(tobs)))
    if prop == "C03":
        # the built-in localization adapter (C03: "falling back from region to language to the default locale"): Builtins.tla
        b = vlib.run_tlc("MC_Builtins", "MC_Builtins.cfg", wd, workers=1, timeout=600)
        if not b.ok:
            raise vlib.ToolError("TLC reports %s on MC_Builtins.cfg (specification error):\n%s" % (b.violated, b.output[-2000:]))
        cases = [c for c in b.marked["REPLAY"] if c["kind"] in ("loc", "status")]   # (the authentication / discovery cases: bin/check extras)
        binp, boutp = os.path.join(wd, "builtins.ndjson"), os.path.join(wd, "builtins_obs.ndjson")
        vlib.write_ndjson(binp, cases)
        vlib.run_bin(hx, ["builtins", "--in", binp, "--out", boutp], timeout=600)
        bobs = vlib.read_ndjson(boutp)
        bt = vlib.run_tlc("Trace_Builtins", "Trace_Builtins.cfg", wd, workers=1, timeout=600, markers=("FAIL", "NOTCONSUMED"),
                          env_extra={"TRACE": boutp}, java_opts=["-Xss1g", "-Dtlc2.tool.queue.IStateQueue=StateDeque"])
        if not bt.ok or bt.marked["NOTCONSUMED"] or bt.distinct != len(bobs) + 1:
            raise vlib.ToolError("Trace_Builtins did not consume all %d records:\n%s" % (len(bobs), bt.output[-2000:]))
        nstat = 0
        for f in bt.marked["FAIL"]:
            o = bobs[f["line"] - 1]
            c = o["case"]
            if o["kind"] == "loc":
                rep.violation("C03 C03_LocaleFallbackChain [requested=%s default=%s tables=%s key=%s]" % ("_".join(c["requested"]) or "none", "_".join(c["default"]),
                              ",".join(sorted("_".join(t) for t in c["tables"])), c["key"]), {"failing_clauses": ["B_LocalizedFromTable"], "case": c, "observed": o["got"]})
            else:
                nstat += 1
        if nstat:
            print("NOTE: %d FixedStatus protocol-negotiation cases differ from Builtins.tla (outside C03's statement)" % nstat)
        states += b.distinct + bt.distinct
        transitions += b.generated + bt.generated
        extra_notes.append("MC_Builtins + Trace_Builtins: %d localization/status cases of the built-in adapters judged" % len(bobs))
        # application stage: "the CONFIGURED message": the same cases through passage::start(Config) -- the localization tables come from the
        # configuration value, nobody can be routed, the client reports the locale in Client Information; judged by the same clause
        lcases = [c["case"] for c in cases if c["kind"] == "loc" and c["case"]["requested"] and c["case"]["tables"]]
        lcases = lcases[seed % 7::(29 if tier == "quick" else 3)]
        ascs = []
        for c in lcases:
            msgs = {}
            for t in c["tables"]:
                name = "_".join(t)
                if c["key"] == "k1" or t[0] == "de":
                    msgs[name] = {"disconnect_no_target": "T|%s|%s|{p}|{p}" % (name, c["key"]), "locale": name}
                else:
                    msgs[name] = {"locale": name}
            ascs.append({"family": "C03app", "timeoutS": 8, "locale": "_".join(c["requested"]),
                         "adapters": {"authentication": {"fixed": {"profile": {"id": "11111111-2222-4333-8444-555555555555", "name": "Fixed"}}},
                                      "discovery": {"fixed": {"targets": []}},
                                      "localization": {"fixed": {"default_locale": "_".join(c["default"]), "messages": msgs}}}})
        lwd = os.path.join(wd, "locapp")
        os.makedirs(lwd, exist_ok=True)
        linp, loutp = os.path.join(lwd, "in.ndjson"), os.path.join(lwd, "obs.ndjson")
        vlib.write_ndjson(linp, ascs)
        hxa = vlib.cargo_build("hx-app")
        vlib.run_bin(hxa, ["serve", "--in", linp, "--out", loutp], timeout=900)
        lobs = vlib.read_ndjson(loutp)
        if len(lobs) != len(ascs):
            raise vlib.ToolError("hx-app serve recorded %d observations for %d localization cases" % (len(lobs), len(ascs)))
        lrecs, lkeep = [], []
        for c, o in zip(lcases, lobs):
            if o.get("end") != "disconnect":
                continue      # no Disconnect observed: not an observation of the localization (C03_NoTargetDisconnect covers the rest)
            rs = o.get("reason")
            f = rs.split("|") if isinstance(rs, str) else []
            if rs == "disconnect_no_target":
                got = {"from": [], "text": "key"}
            elif len(f) == 5 and f[0] == "T" and f[2] == c["key"]:
                got = {"from": f[1].split("_"), "text": "template"}
            else:
                got = {"from": [], "text": "other:%s" % rs}
            lrecs.append({"kind": "loc", "case": c, "got": got})
            lkeep.append(o)
        if len(lrecs) < 0.8 * len(ascs):
            raise vlib.ToolError("application stage (localization): only %d of %d logins ended in a Disconnect: %s" % (len(lrecs), len(ascs), json.dumps(lobs[:2])[:600]))
        ltrace = os.path.join(lwd, "trace.ndjson")
        vlib.write_ndjson(ltrace, lrecs)
        lt = vlib.run_tlc("Trace_Builtins", "Trace_Builtins.cfg", wd, workers=1, timeout=600, markers=("FAIL", "NOTCONSUMED"),
                          env_extra={"TRACE": ltrace}, java_opts=["-Xss1g", "-Dtlc2.tool.queue.IStateQueue=StateDeque"])
        if not lt.ok or lt.marked["NOTCONSUMED"] or lt.distinct != len(lrecs) + 1:
            raise vlib.ToolError("Trace_Builtins (application stage) did not consume all %d records:\n%s" % (len(lrecs), lt.output[-2000:]))
        for f in lt.marked["FAIL"]:
            r = lrecs[f["line"] - 1]
            c = r["case"]
            rep.violation("C03 C03_LocaleFallbackChain [through the application: requested=%s default=%s tables=%s key=%s]" % ("_".join(c["requested"]), "_".join(c["default"]),
                          ",".join(sorted("_".join(t) for t in c["tables"])), c["key"]),
                          {"failing_clauses": ["B_LocalizedFromTable"], "stage": "application (passage::start on loopback; localization tables from the configuration value)",
                           "case": c, "observed": r["got"], "raw": lkeep[f["line"] - 1]})
        states += lt.distinct
        transitions += lt.generated
        extra_notes.append("application stage: %d Disconnect texts through passage::start with configured localization tables judged by Trace_Builtins" % len(lrecs))
    if prop == "C04":
        # frames that arrive in two pieces around a keep-alive tick (the receiving future is dropped and restarted with more than the length
        # prefix buffered), from a client that echoes promptly: the handler must finish the frame and the connection must run to its end --
        # not read on forever (virtual time; C04_EndsByItself / C04_NoPanic judged by Trace_ConnProps)
        srecs = []
        # ... followed, while routing is still under way, by a frame whose declared length exceeds the maximum: refused at once and in silence,
        # whatever happened to the frame before it
        for cut in (6, 9, 14):
            srecs.append({"sched": {"auth": 0, "policy": "prompt", "ackAt": 1, "infoAt": 13, "lat": [40, 4, 2], "locale": "en_US", "bad": {"at": 24, "class": "lenTooBig"}},
                          "seg": {"frame": "ClientInfo", "cut": cut, "pause": 7}, "judgeHang": True})
        for cut in (6, 60, 150):
            srecs.append({"sched": {"auth": 0, "policy": "prompt", "ackAt": 1, "infoAt": 25, "lat": [40, 4, 2], "locale": "en_US", "plugin": {"at": 13, "size": 200}, "bad": {"at": 30, "class": "lenTooBig"}},
                          "seg": {"frame": "Plugin", "cut": cut, "pause": 7}, "judgeHang": True})
        for cut in (6, 9):
            srecs.append({"sched": {"auth": 0, "policy": "prompt", "ackAt": 1, "infoAt": 13, "lat": [4, 4, 2], "locale": "en_US"}, "seg": {"frame": "ClientInfo", "cut": cut, "pause": 7}, "judgeHang": True})
        sinp, soutp = os.path.join(wd, "seg_in.ndjson"), os.path.join(wd, "seg_obs.ndjson")
        vlib.write_ndjson(sinp, srecs)
        vlib.run_bin(hx, ["conn-timed", "--in", sinp, "--out", soutp, "--seed", str(seed), "--threads", "6"], timeout=900)
        sobs = vlib.read_ndjson(soutp)
        stt = vlib.run_tlc("Trace_ConnProps", "Trace_ConnProps.cfg", wd, workers=1, timeout=600, markers=("FAIL", "NOTCONSUMED"),
                           env_extra={"TRACE": soutp, "PROP": "C04"}, java_opts=["-Xss1g", "-Dtlc2.tool.queue.IStateQueue=StateDeque"])
        if not stt.ok or stt.marked["NOTCONSUMED"] or stt.distinct != len(sobs) + 1:
            raise vlib.ToolError("trace validation of the segmented timed runs did not consume all %d records:\n%s" % (len(sobs), stt.output[-2000:]))
        for f in stt.marked["FAIL"]:
            o = sobs[f["line"] - 1]
            rep.violation("C04 %s [timed: %s cut after %s bytes, rest %ss later, across a keep-alive tick]" % ("+".join(sorted(f["clauses"])), srecs[f["line"] - 1]["seg"]["frame"], srecs[f["line"] - 1]["seg"]["cut"], srecs[f["line"] - 1]["seg"]["pause"]),
                          {"failing_clauses": sorted(f["clauses"]), "schedule": srecs[f["line"] - 1], "observed": {k: o[k] for k in o if k != "hist"}, "seed": seed})
        states += stt.distinct
        transitions += stt.generated
        extra_notes.append("%d frames split around a keep-alive tick under virtual time, judged by Trace_ConnProps" % len(sobs))
    if prop == "C03":
        # the final packet whatever its size: a small configured maximum frame length (300) with a signed cookie of a large profile, and with a
        # long configured no-target message (Trace_Listener!C03_FinalPacketWhateverItsSize)
        import listener_check
        big = "A" * 700
        zscs = [{"family": "C03len", "maxLen": 300, "timeoutS": 8, "secret": "a secret of the operator", "expectEnd": "transfer",
                 "adapters": {"authentication": {"fixed": {"profile": {"id": "11111111-2222-4333-8444-555555555555", "name": "Fixed",
                                                                        "properties": [{"name": "textures", "value": big, "signature": big}]}}},
                              "discovery": {"fixed": {"targets": [{"identifier": "t", "address": "10.9.8.7:25565"}]}}}},
                {"family": "C03len", "maxLen": 300, "timeoutS": 8, "expectEnd": "disconnect",
                 "adapters": {"authentication": {"fixed": {"profile": {"id": "11111111-2222-4333-8444-555555555555", "name": "Fixed"}}},
                              "discovery": {"fixed": {"targets": []}},
                              "localization": {"fixed": {"default_locale": "en_US", "messages": {"en": {"disconnect_no_target": "no server for you " + "x" * 2000}}}}}}]
        zfails, zobs, zt = listener_check.app_stage("C03", zscs, wd, "finalsize")
        for sc, o, clauses in zfails:
            rep.violation("C03 %s [application: configured maximum frame length %s, expecting %s: got %s]" % ("+".join(clauses), sc["maxLen"], sc["expectEnd"], o.get("end")),
                          {"failing_clauses": clauses, "scenario": sc, "observed": o, "seed": seed})
        states += zt.distinct
        transitions += zt.generated
        extra_notes.append("application level: %d logins with a small configured maximum and a large final packet, judged by Trace_Listener" % len(zobs))
    if prop == "C04":
        # "the CONFIGURED maximum frame size": frames around the operator's value against the whole application (passage::start from a
        # configuration value), judged by Trace_Listener
        import listener_check
        awd = os.path.join(wd, "app")
        os.makedirs(awd, exist_ok=True)
        ascs = [x for x in listener_check.scenarios("C14", "quick", seed, awd)[0] if x["family"] == "C14len"]
        ainp, aoutp = os.path.join(awd, "in.ndjson"), os.path.join(awd, "obs.ndjson")
        vlib.write_ndjson(ainp, ascs)
        hxa = vlib.cargo_build("hx-app")
        vlib.run_bin(hxa, ["serve", "--in", ainp, "--out", aoutp], timeout=600)
        aobs = vlib.read_ndjson(aoutp)
        if len(aobs) != len(ascs) or any("harnessError" in o for o in aobs):
            raise vlib.ToolError("hx-app serve did not produce a record for every scenario: %s" % json.dumps(aobs)[:600])
        at = vlib.run_tlc("Trace_Listener", "Trace_Listener.cfg", awd, workers=1, timeout=600, markers=("FAIL", "NOTCONSUMED"),
                          env_extra={"TRACE": aoutp, "PROP": "C04"}, java_opts=["-Xss1g", "-Dtlc2.tool.queue.IStateQueue=StateDeque"])
        if not at.ok or at.marked["NOTCONSUMED"] or at.distinct != len(aobs) + 1:
            raise vlib.ToolError("Trace_Listener did not consume all %d application records:\n%s" % (len(aobs), at.output[-2000:]))
        for f in at.marked["FAIL"]:
            o = aobs[f["line"] - 1]
            rep.violation("C04 %s [application: configured maximum %s, frame of %s bytes: %s]" % ("+".join(sorted(f["clauses"])), o["maxLen"], o["sentLen"], o["outcome"]),
                          {"failing_clauses": sorted(f["clauses"]), "scenario": ascs[f["line"] - 1], "observed": o, "seed": seed})
        states += at.distinct
        transitions += at.generated
        extra_notes.append("application level: %d frames around the configured maximum through passage::start, judged by Trace_Listener" % len(aobs))
    if prop == "C06":
        # a client that stops at any point of the script, against the whole application: nothing more is sent until the server closes the
        # connection at its deadline (no packet of another phase, no farewell) -- Trace_Listener!C06_SilentUntilDeadlineClose
        import listener_check
        dscs = [{"family": "C06deadline", "timeoutS": 2, "behaviour": b} for b in
                ("silent", "status-after-handshake", "status-no-ping", "login-after-handshake", "login-after-loginstart", "login-after-session", "transfer-after-session", "login-after-encreq")]
        for x in dscs:
            if x["behaviour"] == "transfer-after-session":
                x["secret"] = "a secret of the operator"
        dfails, dobs, dt = listener_check.app_stage("C06", dscs, wd, "deadline")
        for sc, o, clauses in dfails:
            rep.violation("C06 %s [application: client stops at '%s', connection deadline %ss]" % ("+".join(clauses), sc["behaviour"], sc["timeoutS"]),
                          {"failing_clauses": clauses, "scenario": sc, "observed": o, "seed": seed})
        states += dt.distinct
        transitions += dt.generated
        extra_notes.append("application level: %d clients stopping at successive points of the script until the deadline, judged by Trace_Listener" % len(dobs))
    if prop == "C02":
        # "not older than the configured expiry": the age that counts is the age when the cookie is presented -- a client may idle inside the
        # connection (within the connection deadline) before it answers the request. Real time, through passage::start.
        import listener_check
        cscs = [x for x in listener_check.scenarios("C14", "quick", seed, os.path.join(wd))[0] if x["family"] == "C14cookie"]
        cfails, cobs, ct = listener_check.app_stage("C02", cscs, wd, "expiry")
        for sc, o, clauses in cfails:
            rep.violation("C02 %s [application: expiry=%ss age at connect=%ss idle before presenting=%ss]" % ("+".join(clauses), o.get("expiry"), o.get("age"), o.get("stallS")),
                          {"failing_clauses": clauses, "scenario": sc, "observed": o, "seed": seed})
        states += ct.distinct
        transitions += ct.generated
        extra_notes.append("application level: %d cookie presentations (age at connect x idle time x expiry), judged by Trace_Listener!C02_ExpiryJudgedAtPresentation" % len(cobs))
    if prop in ("C02", "C10"):
        # behind a balancer: which address the issued cookie records / is bound to, observed through the real Listener with the
        # PROXY protocol on (arrival histories from Admission.tla, clause in Trace_Listener)
        import listener_check
        lwd = os.path.join(wd, "lst")
        os.makedirs(lwd, exist_ok=True)
        lscs, _ = listener_check.scenarios("C15", "quick", seed, lwd)
        lscs = [x for x in lscs if x["cfg"].get("secret") and x["cfg"].get("proxy") != "off" and any(c.get("kind") == "login" for c in x["conns"])]
        if len(lscs) < 2:
            raise vlib.ToolError("no listener history with a secret, the PROXY protocol and a login connection was generated")
        linp, loutp = os.path.join(lwd, "in.ndjson"), os.path.join(lwd, "obs.ndjson")
        vlib.write_ndjson(linp, lscs)
        vlib.run_bin(hx, ["listener", "--in", linp, "--out", loutp, "--parallel", "8"], timeout=900)
        lobs = vlib.read_ndjson(loutp)
        if len(lobs) != len(lscs) or any("harnessError" in o for o in lobs):
            raise vlib.ToolError("listener harness did not produce a record for every history: %s" % json.dumps(lobs)[:600])
        lt = vlib.run_tlc("Trace_Listener", "Trace_Listener.cfg", lwd, workers=1, timeout=600, markers=("FAIL", "NOTCONSUMED"),
                          env_extra={"TRACE": loutp, "PROP": prop}, java_opts=["-Xss1g", "-Dtlc2.tool.queue.IStateQueue=StateDeque"])
        if not lt.ok or lt.marked["NOTCONSUMED"] or lt.distinct != len(lobs) + 1:
            raise vlib.ToolError("Trace_Listener did not consume all %d records:\n%s" % (len(lobs), lt.output[-2000:]))
        for f in lt.marked["FAIL"]:
            o = lobs[f["line"] - 1]
            rep.violation("%s %s [behind a balancer: proxy=%s]" % (prop, "+".join(sorted(f["clauses"])), o["cfg"].get("proxy")),
                          {"failing_clauses": sorted(f["clauses"]), "history": lscs[f["line"] - 1], "observed": o, "seed": seed})
        states += lt.distinct
        transitions += lt.generated
        extra_notes.append("real Listener with the PROXY protocol: %d arrival histories, cookie address judged by Trace_Listener" % len(lobs))
    if prop == "C04":
        # "never panics", one level up: the listener's connection tasks under every kind of PROXY header (valid, address-less, invalid,
        # garbage, in two segments) and every kind of client -- the harness counts panics of those tasks (Trace_Listener!L_NoPanicInConnectionTasks)
        import listener_check
        lwd = os.path.join(wd, "lst")
        os.makedirs(lwd, exist_ok=True)
        lscs, _ = listener_check.scenarios("C15", "quick", seed, lwd)
        linp, loutp = os.path.join(lwd, "in.ndjson"), os.path.join(lwd, "obs.ndjson")
        vlib.write_ndjson(linp, lscs)
        vlib.run_bin(hx, ["listener", "--report-panics", "--in", linp, "--out", loutp, "--parallel", "8"], timeout=900)
        lobs = vlib.read_ndjson(loutp)
        if len(lobs) not in (len(lscs), len(lscs) + 1) or any("harnessError" in o for o in lobs):
            raise vlib.ToolError("listener harness did not produce a record for every history: %s" % json.dumps(lobs)[:600])
        lt = vlib.run_tlc("Trace_Listener", "Trace_Listener.cfg", lwd, workers=1, timeout=600, markers=("FAIL", "NOTCONSUMED"),
                          env_extra={"TRACE": loutp, "PROP": "C04"}, java_opts=["-Xss1g", "-Dtlc2.tool.queue.IStateQueue=StateDeque"])
        if not lt.ok or lt.marked["NOTCONSUMED"] or lt.distinct != len(lobs) + 1:
            raise vlib.ToolError("Trace_Listener did not consume all %d records:\n%s" % (len(lobs), lt.output[-2000:]))
        for f in lt.marked["FAIL"]:
            o = lobs[f["line"] - 1]
            rep.violation("C04 C04_NoPanic [listener: %s connection task(s) panicked while %d arrival histories with every kind of PROXY header were served]" % (o.get("count"), len(lscs)),
                          {"failing_clauses": sorted(f["clauses"]), "observed": o, "seed": seed})
        states += lt.distinct
        transitions += lt.generated
        extra_notes.append("real Listener with the PROXY protocol: %d arrival histories, panics of connection tasks counted" % len(lscs))
    if prop == "C01":
        # the shipped authentication adapter itself: MojangAdapter against a loopback session server (hook PASSAGE_VERIF_SESSION_SERVER);
        # an identity is reported as vouched for only if the answer carried it (Trace_SessionUrl, clause C01_IdentityOnlyFromReply)
        import url_check
        uwd = os.path.join(wd, "url")
        os.makedirs(uwd, exist_ok=True)
        umc, utr, ucases, uobs = url_check.collect("quick", uwd, seed)
        for f in utr.marked["FAIL"]:
            # "asked with the same shared secret ... and the server's public key": every request carries exactly one serverId, this connection's hash
            asked = sorted(c for c in f["clauses"] if c in ("C12_EveryLoginIsAsked", "C12_OverlappingLoginsEachAsked", "C12_OneServerId", "C12_ServerIdIsHash"))
            if asked:
                o = uobs[f["line"] - 1]
                rep.violation("C01 %s [%s logins claiming %s]" % ("+".join("C01_" + c[4:] for c in asked), o["vec"]["kind"], url_check.show_name(o["vec"]["name"])),
                              {"failing_clauses": asked, "what": "a login was vouched for although the service was not asked on THAT connection (with its shared secret)",
                               "request_targets": [bytes(t).decode("latin1") for t in o["requests"]], "seed": seed})
            if "C01_IdentityOnlyFromReply" in f["clauses"]:
                o = uobs[f["line"] - 1]
                rep.violation("C01 C01_IdentityOnlyFromReply [session server answers '%s']" % o["vec"]["script"],
                              {"failing_clauses": ["C01_IdentityOnlyFromReply"], "mock_reply_script": o["vec"]["script"], "profile_in_the_reply_if_any": {"id": o["vec"]["reply_id"], "name": o["vec"]["reply_name"]},
                               "adapter_result": o["result"], "returned_profile": o["profile"], "seed": seed})
        states += umc.distinct + utr.distinct
        transitions += umc.generated + utr.generated
        extra_notes.append("MojangAdapter against a loopback session server: %d calls (%d reply scripts) judged by Trace_SessionUrl!C01_IdentityOnlyFromReply" % (len(uobs), len({c["script"] for c in ucases})))
    rc = rep.finish()
    if drift:
        print("NOTE model-drift: %d of %d replays differ from the precise model Conn.tla (the property-level verdict above is what counts)" % (drift, len(observed)))
    cov = {
        "states": states + tr.distinct,
        "transitions": transitions + tr.generated,
        "traces_validated_against_impl": len(observed),
        "samples": samples or [{"note": "no behaviour selected"}],
        "evaluations": len(observed),
        "distinct_nontrivial": len({json.dumps(b, sort_keys=True) for b in rel}),
        "rule": "every complete behaviour of spec/Conn.tla under the listed configs is exported by TLC, replayed into the real Connection, and the "
                "recorded history is judged by TLC against spec/ConnProps.tla (Trace_ConnProps); non-trivial = the behaviour contains the events "
                "the property talks about; distinct = distinct abstract histories",
        "exhaustive": True,
        "tlc": tlc_notes + ["Trace_ConnProps: %d records judged in %.1fs" % (len(observed), tr.wall)] + extra_notes,
        "replays_identical_to_precise_model": exact,
        "replays_with_model_drift": drift,
        "known_findings_hit": {k: n for k, (_, n) in rep.known_hit.items()},
    }
    vlib.write_evidence(prop, tier, "model_checking", cov, time.time() - t0, len(rep.violations),
                        assumptions=["abstract classes are concretised with seeded values (VERIF_SEED); cookie ages keep a 3 s margin from the expiry boundary",
                                     "the scripted client, reference codec, CFB8 and HMAC in harness/hx-core are correct"])
    vlib.cleanup(wd)
    return rc
