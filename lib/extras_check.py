"""Modules that grow the specification beyond the twenty listed properties (not registered in MANIFEST.json, run with
`bin/check extras quick|thorough`): Refresher.tla (periodic refresh into a shared cache: HttpStatusAdapter bound, DnsDiscoveryAdapter
same structure but not bindable offline) and the FixedStatus part of Builtins.tla. Same contract: TLC checks the design, the harness
records, TLC judges; exit 1 with EXTRA-VIOLATION lines."""
import json
import os
import time

import vlib


def run(prop, tier):
    wd = vlib.workdir("extras")
    bad = 0
    # ---- Refresher
    r = vlib.run_tlc("Refresher", "MC_Refresher.cfg", wd, workers=4, timeout=900)
    if not r.ok:
        raise vlib.ToolError("TLC reports %s on MC_Refresher.cfg:\n%s" % (r.violated, r.output[-2000:]))
    print("Refresher.tla: %s (safety + action properties)" % r.summary())
    hx = vlib.cargo_build("hx-http")
    scs = [{"periodS": 1, "script": ["ok:v1", "err500", "garbage", "ok:v2", "slow:1500:v3", "ok:v4"], "observeMs": 6800},
           {"periodS": 1, "script": ["err500", "ok:v1", "null", "ok:v2"], "observeMs": 4500},
           {"periodS": 1, "script": ["slow:2600:v1", "ok:v2", "err500", "ok:v3"], "observeMs": 6500},
           {"periodS": 2, "script": ["ok:a", "ok:b", "garbage", "ok:c"], "observeMs": 7000}]
    if tier == "thorough":
        scs += [{"periodS": 1, "script": ["garbage", "garbage", "ok:v1", "slow:900:v2", "slow:1100:v3", "err500", "ok:v4"], "observeMs": 8500},
                {"periodS": 3, "script": ["ok:x", "slow:3500:y", "ok:z"], "observeMs": 11000}]
    inp, outp = os.path.join(wd, "refresh_in.ndjson"), os.path.join(wd, "refresh_obs.ndjson")
    vlib.write_ndjson(inp, scs)
    vlib.run_bin(hx, ["refresh", "--in", inp, "--out", outp], timeout=600)
    obs = vlib.read_ndjson(outp)
    tr = vlib.run_tlc("Trace_Refresher", "Trace_Refresher.cfg", wd, workers=1, timeout=300, markers=("FAIL", "NOTCONSUMED"), env_extra={"TRACE": outp}, java_opts=["-Xss1g"])
    if not tr.ok or tr.marked["NOTCONSUMED"] or tr.distinct != len(obs) + 1:
        raise vlib.ToolError("Trace_Refresher did not consume all records:\n%s" % tr.output[-2000:])
    for f in tr.marked["FAIL"]:
        bad += 1
        print("EXTRA-VIOLATION module=Refresher clauses=%s scenario=%s observed=%s" % (",".join(sorted(f["clauses"])), json.dumps(scs[f["line"] - 1]), json.dumps(obs[f["line"] - 1])[:600]))
    print("Refresher: %d scenarios of the real HttpStatusAdapter judged, %d failing" % (len(obs), len(tr.marked["FAIL"])))
    # ---- Builtins (FixedStatus part; the localization part is judged under C03)
    b = vlib.run_tlc("MC_Builtins", "MC_Builtins.cfg", wd, workers=1, timeout=600)
    if not b.ok:
        raise vlib.ToolError("TLC reports %s on MC_Builtins.cfg" % b.violated)
    hc = vlib.cargo_build("hx-core")
    cases = [c for c in b.marked["REPLAY"] if c["kind"] == "status"]
    binp, boutp = os.path.join(wd, "b_in.ndjson"), os.path.join(wd, "b_obs.ndjson")
    vlib.write_ndjson(binp, cases)
    vlib.run_bin(hc, ["builtins", "--in", binp, "--out", boutp], timeout=300)
    bobs = vlib.read_ndjson(boutp)
    bt = vlib.run_tlc("Trace_Builtins", "Trace_Builtins.cfg", wd, workers=1, timeout=300, markers=("FAIL", "NOTCONSUMED"), env_extra={"TRACE": boutp}, java_opts=["-Xss1g"])
    if not bt.ok or bt.distinct != len(bobs) + 1:
        raise vlib.ToolError("Trace_Builtins did not consume all records")
    for f in bt.marked["FAIL"]:
        bad += 1
        print("EXTRA-VIOLATION module=Builtins clause=B_StatusProtocol case=%s" % json.dumps(bobs[f["line"] - 1]))
    print("Builtins/FixedStatus: %d cases judged, %d failing" % (len(bobs), len(bt.marked["FAIL"])))
    vlib.cleanup(wd)
    return 1 if bad else 0
