"""Modules that grow the specification beyond the twenty listed properties (not registered in MANIFEST.json, run with
`bin/check extras quick|thorough`): Refresher.tla (periodic refresh into a shared cache: HttpStatusAdapter bound), DnsDiscovery.tla (the DNS discovery adapter: every
history of a bounded zone space replayed against the real adapter and a loopback name server through the PASSAGE_VERIF_DNS_SERVER hook) and the FixedStatus part of Builtins.tla. Same contract: TLC checks the design, the harness
records, TLC judges; exit 1 with EXTRA-VIOLATION lines."""
import json
import os
import time

import vlib


def run(prop, tier):
    wd = vlib.workdir("extras")
    bad = 0
    # ---- Refresher
    r = vlib.run_tlc("Refresher", "MC_Refresher.cfg", wd, workers=4, timeout=900)
    if not r.ok:
        raise vlib.ToolError("TLC reports %s on MC_Refresher.cfg:\n%s" % (r.violated, r.output[-2000:]))
    print("Refresher.tla: %s (safety + action properties)" % r.summary())
    hx = vlib.cargo_build("hx-http")
    scs = [{"periodS": 1, "script": ["ok:v1", "err500", "garbage", "ok:v2", "slow:1500:v3", "ok:v4"], "observeMs": 6800},
           {"periodS": 1, "script": ["err500", "ok:v1", "null", "ok:v2"], "observeMs": 4500},
           {"periodS": 1, "script": ["slow:2600:v1", "ok:v2", "err500", "ok:v3"], "observeMs": 6500},
           {"periodS": 2, "script": ["ok:a", "ok:b", "garbage", "ok:c"], "observeMs": 7000}]
    if tier == "thorough":
        scs += [{"periodS": 1, "script": ["garbage", "garbage", "ok:v1", "slow:900:v2", "slow:1100:v3", "err500", "ok:v4"], "observeMs": 8500},
                {"periodS": 3, "script": ["ok:x", "slow:3500:y", "ok:z"], "observeMs": 11000}]
    inp, outp = os.path.join(wd, "refresh_in.ndjson"), os.path.join(wd, "refresh_obs.ndjson")
    vlib.write_ndjson(inp, scs)
    vlib.run_bin(hx, ["refresh", "--in", inp, "--out", outp], timeout=600)
    obs = vlib.read_ndjson(outp)
    tr = vlib.run_tlc("Trace_Refresher", "Trace_Refresher.cfg", wd, workers=1, timeout=300, markers=("FAIL", "NOTCONSUMED"), env_extra={"TRACE": outp}, java_opts=["-Xss1g"])
    if not tr.ok or tr.marked["NOTCONSUMED"] or tr.distinct != len(obs) + 1:
        raise vlib.ToolError("Trace_Refresher did not consume all records:\n%s" % tr.output[-2000:])
    for f in tr.marked["FAIL"]:
        bad += 1
        print("EXTRA-VIOLATION module=Refresher clauses=%s scenario=%s observed=%s" % (",".join(sorted(f["clauses"])), json.dumps(scs[f["line"] - 1]), json.dumps(obs[f["line"] - 1])[:600]))
    print("Refresher: %d scenarios of the real HttpStatusAdapter judged, %d failing" % (len(obs), len(tr.marked["FAIL"])))
    # ---- DnsDiscovery: every history of the bounded zone space against the real adapter
    dtier = "MC_DnsDiscoveryThorough.cfg" if tier == "thorough" else "MC_DnsDiscovery.cfg"
    d = vlib.run_tlc("MC_DnsDiscovery", dtier, wd, workers=1, timeout=900)
    if not d.ok:
        raise vlib.ToolError("TLC reports %s on %s:\n%s" % (d.violated, dtier, d.output[-2000:]))
    hd = vlib.cargo_build("hx-dns")
    dcases = d.marked["REPLAY"]
    dinp, doutp = os.path.join(wd, "dns_in.ndjson"), os.path.join(wd, "dns_obs.ndjson")
    vlib.write_ndjson(dinp, dcases)
    vlib.run_bin(hd, ["--in", dinp, "--out", doutp], timeout=900)
    dobs = vlib.read_ndjson(doutp)
    dt = vlib.run_tlc("Trace_DnsDiscovery", "Trace_DnsDiscovery.cfg", wd, workers=1, timeout=900, markers=("FAIL", "NOTCONSUMED", "UNUSABLE"), env_extra={"TRACE": doutp}, java_opts=["-Xss1g"])
    if not dt.ok or dt.marked["NOTCONSUMED"] or dt.distinct != len(dobs) + 1:
        raise vlib.ToolError("Trace_DnsDiscovery did not consume all records:\n%s" % dt.output[-2000:])
    if len(dt.marked["UNUSABLE"]) > len(dobs) // 20:
        raise vlib.ToolError("DnsDiscovery: %d of %d histories could not be observed (no refresh seen in time)" % (len(dt.marked["UNUSABLE"]), len(dobs)))
    for f in dt.marked["FAIL"]:
        bad += 1
        if bad <= 12:
            o = dobs[f["line"] - 1]
            print("EXTRA-VIOLATION module=DnsDiscovery clauses=%s mode=%s zones=%s got=%s" % (",".join(sorted(f["clauses"])), o["mode"], json.dumps(o["zones"])[:700], json.dumps(o["got"])[:500]))
    print("DnsDiscovery: %d histories exported by TLC, run on the real DnsDiscoveryAdapter, %d judged (%d unusable), %d failing" % (len(dcases), len(dobs) - len(dt.marked["UNUSABLE"]), len(dt.marked["UNUSABLE"]), len(dt.marked["FAIL"])))
    # ---- GrpcStatus: the StatusData conversion of the gRPC status adapter, every case of the model against the real adapter
    g = vlib.run_tlc("MC_GrpcStatus", "MC_GrpcStatus.cfg", wd, workers=1, timeout=600)
    if not g.ok:
        raise vlib.ToolError("TLC reports %s on MC_GrpcStatus.cfg:\n%s" % (g.violated, g.output[-2000:]))
    hg = vlib.cargo_build("hx-grpc")
    gcases = g.marked["REPLAY"]
    ginp, goutp = os.path.join(wd, "gs_in.ndjson"), os.path.join(wd, "gs_obs.ndjson")
    vlib.write_ndjson(ginp, gcases)
    vlib.run_bin(hg, ["statusdata", "--in", ginp, "--out", goutp], timeout=900)
    gobs = vlib.read_ndjson(goutp)
    gt = vlib.run_tlc("Trace_GrpcStatus", "Trace_GrpcStatus.cfg", wd, workers=1, timeout=600, markers=("FAIL", "NOTCONSUMED"), env_extra={"TRACE": goutp}, java_opts=["-Xss1g"])
    if not gt.ok or gt.marked["NOTCONSUMED"] or gt.distinct != len(gobs) + 1 or len(gobs) != len(gcases):
        raise vlib.ToolError("Trace_GrpcStatus did not consume all records:\n%s" % gt.output[-2000:])
    for f in gt.marked["FAIL"]:
        bad += 1
        if bad <= 12:
            o = gobs[f["line"] - 1]
            print("EXTRA-VIOLATION module=GrpcStatus clauses=%s service_answer=%s adapter_returned=%s" % (",".join(sorted(f["clauses"])), json.dumps({"has": o["has"], "d": o["d"]})[:500], json.dumps(o["got"])[:500]))
    print("GrpcStatus: %d StatusData cases exported by TLC, run on the real GrpcStatusAdapter, %d failing" % (len(gobs), len(gt.marked["FAIL"])))
    # ---- Builtins (FixedStatus, Disabled/FixedAuthentication, FixedDiscovery; the localization part is judged under C03)
    b = vlib.run_tlc("MC_Builtins", "MC_Builtins.cfg", wd, workers=1, timeout=600)
    if not b.ok:
        raise vlib.ToolError("TLC reports %s on MC_Builtins.cfg" % b.violated)
    hc = vlib.cargo_build("hx-core")
    cases = [c for c in b.marked["REPLAY"] if c["kind"] in ("status", "auth", "discover")]
    binp, boutp = os.path.join(wd, "b_in.ndjson"), os.path.join(wd, "b_obs.ndjson")
    vlib.write_ndjson(binp, cases)
    vlib.run_bin(hc, ["builtins", "--in", binp, "--out", boutp], timeout=300)
    bobs = vlib.read_ndjson(boutp)
    bt = vlib.run_tlc("Trace_Builtins", "Trace_Builtins.cfg", wd, workers=1, timeout=300, markers=("FAIL", "NOTCONSUMED"), env_extra={"TRACE": boutp}, java_opts=["-Xss1g"])
    if not bt.ok or bt.distinct != len(bobs) + 1:
        raise vlib.ToolError("Trace_Builtins did not consume all records")
    for f in bt.marked["FAIL"]:
        bad += 1
        print("EXTRA-VIOLATION module=Builtins clause=%s case=%s" % ("+".join(sorted(f["clauses"])), json.dumps(bobs[f["line"] - 1])))
    print("Builtins (FixedStatus, Disabled/FixedAuthentication, FixedDiscovery): %d cases judged, %d failing" % (len(bobs), len(bt.marked["FAIL"])))
    # ---- ConfigLayers: the application's own Config::read() in child processes with every combination of layers
    import subprocess
    c = vlib.run_tlc("MC_ConfigLayers", "MC_ConfigLayers.cfg", wd, workers=1, timeout=300)
    if not c.ok:
        raise vlib.ToolError("TLC reports %s on MC_ConfigLayers.cfg" % c.violated)
    ha = vlib.cargo_build("hx-app")
    ENV = {"timeout": ("PASSAGE_TIMEOUT", "31"), "address": ("PASSAGE_ADDRESS", "127.0.0.1:1111"), "auth_secret": ("PASSAGE_AUTHSECRET", "envsecret")}
    FILE = {"timeout": 'timeout = 47\n', "address": 'address = "127.0.0.2:2222"\n', "auth_secret": 'auth_secret = "filesecret"\n'}
    LABEL = {"31": "env:timeout", "47": "file:timeout", "127.0.0.1:1111": "env:address", "127.0.0.2:2222": "file:address", "envsecret": "env:auth_secret",
             "filesecret": "file:auth_secret", "secretfile-content": "secretfile", "5": "env:limit", "7": "file:limit"}
    recs = []
    cdir = os.path.join(wd, "cfg")
    os.makedirs(cdir, exist_ok=True)
    for k, sc in enumerate(x["sc"] for x in c.marked["REPLAY"]):
        env = {kk: v for kk, v in os.environ.items() if not kk.startswith("PASSAGE_")}
        cfgp, secp = os.path.join(cdir, "c%d.toml" % k), os.path.join(cdir, "s%d" % k)
        body = "".join(FILE[f] for f in sc["file"] if f in FILE)
        if "limit" in sc["file"]:
            body += "[rate_limiter]\nduration = 9\nlimit = 7\n"
        open(cfgp, "w").write(body)
        env["CONFIG_FILE"] = cfgp
        env["AUTH_SECRET_FILE"] = secp if sc["secretfile"] else os.path.join(cdir, "absent")
        if sc["secretfile"]:
            open(secp, "w").write("secretfile-content")
        for f in sc["env"]:
            if f == "limit":
                env["PASSAGE_RATELIMITER_LIMIT"] = "5"
                env["PASSAGE_RATELIMITER_DURATION"] = "3"
            else:
                env[ENV[f][0]] = ENV[f][1]
        p = subprocess.run([ha, "config"], env=env, cwd=cdir, stdout=subprocess.PIPE, stderr=subprocess.PIPE, timeout=60)
        try:
            g = json.loads(p.stdout.decode().strip().split("\n")[-1])
        except Exception:
            g = {"ok": False, "error": p.stderr.decode()[-200:]}
        if not g.get("ok"):
            got = {f: "error" for f in ("timeout", "address", "auth_secret", "limit")}
        else:
            lim = g["rate_limiter"]["limit"] if isinstance(g["rate_limiter"], dict) else "<none>"
            raw = {"timeout": str(g["timeout"]), "address": g["address"], "auth_secret": g["auth_secret"], "limit": str(lim)}
            got = {f: LABEL.get(v, v) for f, v in raw.items()}
        recs.append({"sc": sc, "got": got})
    cin = os.path.join(wd, "cfg_obs.ndjson")
    vlib.write_ndjson(cin, recs)
    ct = vlib.run_tlc("Trace_ConfigLayers", "Trace_ConfigLayers.cfg", wd, workers=1, timeout=300, markers=("FAIL", "NOTCONSUMED"), env_extra={"TRACE": cin}, java_opts=["-Xss1g"])
    if not ct.ok or ct.distinct != len(recs) + 1:
        raise vlib.ToolError("Trace_ConfigLayers did not consume all records:\n%s" % ct.output[-1500:])
    known_dup = 0
    for f in ct.marked["FAIL"]:
        sc = recs[f["line"] - 1]["sc"]
        dup = ("auth_secret" in sc["env"] and ("auth_secret" in sc["file"] or sc["secretfile"])) or ("limit" in sc["env"] and "limit" in sc["file"])
        if dup and all(v == "error" for v in recs[f["line"] - 1]["got"].values()):
            # observation outside the listed properties (DESIGN.md 0.4): a field given under its underscore name in a file AND under its
            # alias spelling in the environment makes Config::read() fail with "duplicate field" instead of letting the environment win
            known_dup += 1
            continue
        bad += 1
        print("EXTRA-VIOLATION module=ConfigLayers clauses=%s scenario=%s got=%s" % (",".join(sorted(f["clauses"])), json.dumps(recs[f["line"] - 1]["sc"]), json.dumps(recs[f["line"] - 1]["got"])))
    print("ConfigLayers: %d layer combinations through the real Config::read(), %d failing, of which %d are the known 'duplicate field' observation "
          "(auth_secret / rate_limiter given in a file and, under the alias spelling, in the environment)" % (len(recs), len(ct.marked["FAIL"]), known_dup))
    # ---- the environment layer field by field (every field with an environment spelling is reachable; text stays text)
    import cfgenv
    erecs = cfgenv.observe(sorted(cfgenv.ENV), wd)
    efails, et = cfgenv.judge(erecs, wd)
    for r, clauses in efails:
        bad += 1
        print("EXTRA-VIOLATION module=ConfigLayers clauses=%s variable=%s given=%s got=%s" % (",".join(clauses), r["var"], r["given"], r["got"]))
    print("ConfigLayers (environment layer): %d single-variable runs of Config::read(), %d failing" % (len(erecs), len(efails)))
    vlib.cleanup(wd)
    return 1 if bad else 0
