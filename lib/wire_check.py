"""C09: spec/Wire.tla (reference codec of the Minecraft wire format) checked by TLC over boundary-dense domains
(MC_Wire: round trip, full consumption, VarInt <= 5 / VarLong <= 10 bytes, ordinal rejection); every vector TLC
exports is replayed into passage-packets (harness `hx wire`: write_to_buffer, T::ID, read_from_buffer on the
specification's bytes, write_/read_varint, write_/read_varlong); the recorded observations are judged by TLC
against Wire's own Encode / Decode (Trace_Wire).  Python only orchestrates."""
import json
import os
import time

import vlib

CONFIGS = {"quick": "MC_WireQuick.cfg", "thorough": "MC_WireFull.cfg"}


def signed64(limbs):
    x = sum(int(l) << (16 * j) for j, l in enumerate(limbs))
    return x - (1 << 64) if x >= 1 << 63 else x


def show_bytes(b):
    """Short stable rendering of a byte sequence: printable ASCII as text, anything else as hex (long ones abbreviated)."""
    if len(b) > 40:
        return "%dbytes:%s.." % (len(b), bytes(b[:6]).hex())
    if b and all(32 < x < 127 and x not in (34, 91, 93) for x in b):
        return bytes(b).decode()
    return "0x" + bytes(b).hex()


def show(v):
    if isinstance(v, bool):
        return "true" if v else "false"
    if isinstance(v, (int, str)):
        return str(v)
    if isinstance(v, list):
        if not all(isinstance(x, int) and not isinstance(x, bool) and 0 <= x < 256 for x in v):
            return "[%s]" % ",".join(show(x) for x in v[:8]) + (".." if len(v) > 8 else "")
        return show_bytes(v) if v else "empty"
    if isinstance(v, dict):
        if "some" in v:
            return "some(%s)" % show(v["v"]) if v["some"] else "none"
        if "form" in v:
            return "%s(%s)" % (v["form"], ",".join(show(v[k]) for k in ("s", "k", "v") if k in v))
        return ",".join("%s=%s" % (k, show(v[k])) for k in sorted(v))
    return str(v)


def type_of(vec):
    return "%s.%s.%s" % (vec["phase"], vec["dir"], vec["type"]) if vec["phase"] else vec["type"]


def describe(vec):
    """The abstract input of a vector (for signatures)."""
    k, val = vec["kind"], vec["value"]
    if k == "varint":
        return str(val["v"])
    if k == "varlong":
        return str(signed64(val["l"]))
    if k == "reject":
        return "%s:ordinal=%d" % (val["field"], val["ordinal"])
    if k == "overlong":
        return "raw=" + bytes(val["raw"]).hex()
    if not val:
        return "unit"
    if not vec.get("vary"):
        return "base"
    return show({f: val[f] for f in vec["vary"]})


def rank(vec):
    """Representative of a group of failing vectors: the simplest input."""
    k, val = vec["kind"], vec["value"]
    if k == "varint":
        return (abs(val["v"]), val["v"] > 0, "")
    if k == "varlong":
        x = signed64(val["l"])
        return (abs(x), x > 0, "")
    return (len(vec.get("vary") or []), len(vec["bytes"]), vec["bytes"])


def run(prop, tier):
    t0 = time.time()
    wd = vlib.workdir(prop)
    seed = vlib.seed()
    hx = vlib.cargo_build("hx-core")
    rep = vlib.Reporter(prop)
    cfg = CONFIGS[tier]
    # spec: the codec's own invariants on every vector, and the export of the vectors
    mc = vlib.run_tlc("MC_Wire", cfg, wd, workers=1, timeout=300 if tier == "quick" else 1500)
    if not mc.ok:
        raise vlib.ToolError("TLC reports %s on MC_Wire/%s (specification error):\n%s" % (mc.violated, cfg, mc.output[-3000:]))
    vectors = sorted(mc.marked["REPLAY"], key=lambda v: v["i"])
    if len(vectors) != mc.distinct - 1 or [v["i"] for v in vectors] != list(range(1, len(vectors) + 1)):
        raise vlib.ToolError("MC_Wire exported %d vectors for %d states" % (len(vectors), mc.distinct))
    inp = os.path.join(wd, "vectors.ndjson")
    outp = os.path.join(wd, "observed.ndjson")
    vlib.write_ndjson(inp, vectors)
    # spec -> code: replay
    vlib.run_bin(hx, ["wire", "--in", inp, "--out", outp], timeout=600)
    observed = vlib.read_ndjson(outp)
    if len(observed) != len(vectors) or any(o["line"] != k + 1 for k, o in enumerate(observed)):
        raise vlib.ToolError("the harness recorded %d observations for %d vectors" % (len(observed), len(vectors)))
    # code -> spec: the observations are judged by the specification
    tr = vlib.run_tlc("Trace_Wire", "Trace_Wire.cfg", wd, workers=1, timeout=300 if tier == "quick" else 1500, markers=("FAIL", "NOTCONSUMED"),
                      env_extra={"TRACE": outp}, java_opts=["-Xss1g", "-Dtlc2.tool.queue.IStateQueue=StateDeque"])
    if not tr.ok or tr.marked["NOTCONSUMED"] or tr.distinct != len(observed) + 1:
        raise vlib.ToolError("trace validation did not consume all %d records (distinct=%d):\n%s" % (len(observed), tr.distinct, tr.output[-2000:]))
    groups = {}   # (clauses, type) -> failing observations
    drift = {}
    for f in tr.marked["FAIL"]:
        o = observed[f["line"] - 1]
        vec = o["vec"]
        clauses = sorted(f["clauses"])
        bind = [c for c in clauses if c.startswith("Bind_")]
        if bind:
            raise vlib.ToolError("vector %d given to the harness is not the specification's (%s): %s" % (f["line"], "+".join(bind), json.dumps(o)[:1500]))
        for c in clauses:
            if c.startswith("Drift_"):
                drift.setdefault(c, []).append(o)
        c09 = tuple(c for c in clauses if c.startswith("C09_"))
        if c09:
            groups.setdefault((c09, type_of(vec)), []).append(o)
    for (clauses, ty), obs in sorted(groups.items()):
        obs.sort(key=lambda o: rank(o["vec"]))
        first = obs[0]
        sig = "%s %s [type=%s value=%s]" % (prop, "+".join(clauses), ty, describe(first["vec"]))
        rep.violation(sig, {
            "failing_clauses": list(clauses), "type": ty, "failing_vectors": len(obs),
            "simplest_failing_vector": first["vec"],
            "observed": {k: first[k] for k in ("encoded", "decoded_ok", "decoded_value_roundtrip", "consumed_all", "id", "error", "panic", "decoded")},
            "expected_bytes": first["vec"]["bytes"],
            "further_failing_inputs": [describe(o["vec"]) for o in obs[1:40]],
            "seed": seed,
            "how_to_replay": "bin/check %s %s; vector i=%d of MC_Wire/%s, harness `hx-core wire`" % (prop, tier, first["vec"]["i"], cfg)})
    rc = rep.finish()
    for c, obs in sorted(drift.items()):
        print("NOTE model-drift: %s: %d input(s) that no encoder produces are accepted by the crate where the precise codec of Wire.tla rejects "
              "(e.g. %s -> %s); C09 does not cover them" % (c, len(obs), describe(obs[0]["vec"]), json.dumps(obs[0]["decoded"])))
    kinds = {}
    types = {}
    for v in vectors:
        kinds[v["kind"]] = kinds.get(v["kind"], 0) + 1
        if v["kind"] == "packet":
            types[type_of(v)] = types.get(type_of(v), 0) + 1
    samples = []
    want = ["packet", "reject", "varint", "varlong"]
    for o in observed:
        v = o["vec"]
        if v["kind"] in want and (v["kind"] != "packet" or (v["value"] and o["line"] % 7 == 3)):
            want.remove(v["kind"])
            samples.append({"vector": {k: v[k] for k in ("kind", "type", "phase", "dir", "id", "value", "bytes")},
                            "crate_encoded": o["encoded"], "crate_id": o["id"], "decoded_ok": o["decoded_ok"],
                            "decoded_value_roundtrip": o["decoded_value_roundtrip"], "consumed_all": o["consumed_all"], "error": o["error"]})
    nontrivial = {json.dumps([v["kind"], type_of(v), v["value"]], sort_keys=True) for v in vectors if v["kind"] != "packet" or v["value"]}
    cov = {
        "states": mc.distinct + tr.distinct,
        "transitions": mc.generated + tr.generated,
        "traces_validated_against_impl": len(observed),
        "samples": samples or [{"note": "no vector"}],
        "evaluations": len(observed),
        "distinct_nontrivial": len(nontrivial),
        "rule": "every vector of spec/MC_Wire.tla under %s (per packet type: base value, every field through its boundary domain, diagonals; "
                "VarInt / VarLong within +-Delta of every 7-bit / byte / word boundary and of the extremes; ordinals outside every enum) is checked "
                "by TLC against the codec's invariants, exported, replayed into passage-packets, and the recorded observation is judged by TLC "
                "against Wire's Encode / Decode (Trace_Wire); non-trivial = not a unit (placeholder) packet; distinct = distinct (kind, type, value)" % cfg,
        "exhaustive": True,
        "vectors_by_kind": kinds,
        "packet_types": len(types),
        "vectors_by_packet_type": types,
        "tlc": ["%s: %s, %d vectors, %.1fs" % (cfg, mc.summary(), len(vectors), mc.wall),
                "Trace_Wire: %d records judged in %.1fs" % (len(observed), tr.wall)],
        "failing_groups": {"%s %s" % ("+".join(c), t): len(o) for (c, t), o in groups.items()},
        "model_drift": {c: len(o) for c, o in drift.items()},
        "known_findings_hit": {k: n for k, (_, n) in rep.known_hit.items()},
    }
    vlib.write_evidence(prop, tier, "model_checking", cov, time.time() - t0, len(rep.violations),
                        assumptions=["the abstraction table of harness/hx-core/src/wire.rs (limbs <-> u64/i64, byte arrays <-> String / Uuid, labels <-> enum variants, "
                                     "text forms <-> the crate's text String) and lib/gen_wiredata.py (text -> UTF-8 bytes) are correct",
                                     "placeholder (unit) packets are id + empty body; text components: TAG_String and one-entry string compounds only; "
                                     "not all 2^32 VarInts / 2^64 VarLongs: boundary-dense domains (see Wire.tla decisions D-a .. D-f)"])
    vlib.cleanup(wd)
    return rc
