"""C19: spec/GrpcBoundary.tla checked by TLC (conversions, error cases, the exchange machine, the C19 clauses on the design);
every exported exchange script is played against the REAL gRPC adapters (harness `hx-grpc grpc`: in-process tonic services
generated from the repository's .proto files); the recorded exchanges are judged by TLC (Trace_GrpcBoundary.tla) against
the named clauses of GrpcBoundary.tla.  Python only orchestrates and applies the label <-> text tables of
spec/gen_grpc_data.py (fixed before the run)."""
import json
import os
import sys
import time

import vlib

sys.path.insert(0, vlib.SPEC)
import gen_grpc_data as gd  # noqa: E402

CONFIGS = {"quick": "MC_GrpcQuick.cfg", "thorough": "MC_GrpcFull.cfg"}
INT_MAX = 2 ** 31 - 1
HOST_BY_TEXT = {h[1]: h for h in gd.HOSTS}
PORT_NUM = dict(gd.PORTS)


def text_of(label):
    if label not in gd.STRINGS:
        raise vlib.ToolError("exported script carries an unknown string label %r" % label)
    return gd.STRINGS[label]


def inverse(prefix):
    return {v: k for k, v in gd.STRINGS.items() if k.startswith(prefix)}


INV = {p: inverse(p) for p in ("id:", "k:", "v:", "n:", "s:")}


def label_of(prefix, text):
    """Abstraction of an observed string; a text without a label can never equal an expected label."""
    if not isinstance(text, str):
        return "other:nonstring"
    return INV[prefix].get(text, "other:" + text.encode("utf-8", "replace").hex()[:48])


def clamp(n):
    """TLC integers are 32-bit; no expected value is negative."""
    return n if isinstance(n, int) and 0 <= n <= INT_MAX else -1


def ascii_only(s):
    return "".join(ch if 32 <= ord(ch) < 127 and ch not in '"\\' else "?" for ch in str(s))[:200]


def concretise(s):
    """Abstract script exported by TLC -> concrete script for the harness."""
    def meta(m):
        return [[text_of(k), text_of(v)] for k, v in m]
    return {
        "kind": s["kind"],
        "reply": {"mode": s["reply"]["mode"], "idx": s["reply"]["idx"],
                  "targets": [{"identifier": text_of(w["identifier"]), "hasaddr": w["hasaddr"], "host": w["host"],
                               "port": PORT_NUM[w["port"]], "meta": meta(w["meta"])} for w in s["reply"]["targets"]]},
        "candidates": [{"identifier": text_of(c["identifier"]), "ip": c["ip"], "port": c["port"], "meta": meta(c["meta"])}
                       for c in s["candidates"]],
        "player": {"name": text_of(s["player"]["name"]), "uuid": gd.UUIDS[s["player"]["uuid"]]},
        "client": s["client"],
        "server": {"host": text_of(s["server"]["host"]), "port": s["server"]["port"]},
        "protocol": s["protocol"],
        "fault": s.get("fault", "none"),
    }


def abstract(o):
    """Observation of the harness -> vocabulary of the specification (labels for opaque strings, 32-bit integers)."""
    def meta(m):
        return [[label_of("k:", k), label_of("v:", v)] for k, v in m]

    def addr(a, host_is_label):
        return {"hasaddr": bool(a["hasaddr"]), "host": label_of("s:", a["host"]) if host_is_label else ascii_only(a["host"]),
                "hostip": ascii_only(a["hostip"]), "port": clamp(a["port"])}
    r, q = o["result"], o["request_seen"]
    return {
        "result": {"ok": bool(r["ok"]),
                   "targets": [{"identifier": label_of("id:", t["identifier"]), "family": t["family"], "ip": ascii_only(t["ip"]),
                                "port": clamp(t["port"]), "meta": meta(t["meta"])} for t in r["targets"]]},
        "seen": {"count": clamp(q["count"]),
                 "candidates": [{"identifier": label_of("id:", c["identifier"]), "hasaddr": bool(c["hasaddr"]), "host": ascii_only(c["host"]),
                                 "hostip": ascii_only(c["hostip"]), "port": clamp(c["port"]), "meta": meta(c["meta"])} for c in q["candidates"]],
                 "username": label_of("n:", q["username"]) if q["count"] and o_kind(o) == "select" else "",
                 "user_id": ascii_only(q["user_id"]),
                 "client": addr(q["client"], False), "server": addr(q["server"], True) if q["server"]["hasaddr"] else addr(q["server"], False),
                 "protocol": clamp(q["protocol"])},
        "panic": bool(o["panic"]),
    }


def o_kind(o):
    return o.get("_kind", "")


def host_label(text):
    h = HOST_BY_TEXT.get(text)
    return h[0] if h else "other"


def wire_desc(ws):
    hosts = ",".join(host_label(w["host"]) if w["hasaddr"] else "missing-address" for w in ws) or "-"
    ports = ",".join(w["port"] for w in ws) or "-"
    extra = ""
    if any(len({k for k, _ in w["meta"]}) < len(w["meta"]) for w in ws):
        extra += " meta=duplicate-keys"
    if len(ws) != 1:
        extra += " n=%d" % len(ws)
    return "host=%s port=%s%s" % (hosts, ports, extra)


def names(w, c):
    h = HOST_BY_TEXT.get(w["host"])
    ips = set(h[4] or ([h[3]] if h and h[3] else [])) if h else set()
    return (w["hasaddr"] and w["identifier"] == c["identifier"] and PORT_NUM[w["port"]] == c["port"] and c["ip"] in ips
            and {tuple(e) for e in w["meta"]} == {tuple(e) for e in c["meta"]})


def describe(s):
    """Short stable description of the abstract input of an exchange (for signatures)."""
    if s["kind"] == "discover":
        return "kind=discover " + wire_desc(s["reply"]["targets"])
    if s["kind"] == "status":
        return "kind=status client=%s server=%s" % (host_label(s["client"]["ip"]), s["server"]["host"])
    mode = s["reply"]["mode"]
    bits = ["kind=select", "reply=" + mode]
    if mode == "echo":
        i = s["reply"]["idx"]
        if 1 <= i <= len(s["candidates"]):
            c = s["candidates"][i - 1]
            bits.append("host=%s port=%d" % (host_label(c["ip"]), c["port"]))
    elif mode == "target":
        w = s["reply"]["targets"][0]
        bits.append(wire_desc([w]))
        bits.append("pick=" + ("candidate" if any(names(w, c) for c in s["candidates"]) else "other"))
    bits.append("cands=%d" % len(s["candidates"]))
    return " ".join(bits)


def nontrivial(s):
    """The exchange carries at least one target across the boundary (in either direction) or a malformed reply."""
    return bool(s["reply"]["targets"]) or bool(s["candidates"])


def check_data_fresh():
    with open(gd.PATH) as fh:
        if fh.read() != gd.render():
            raise vlib.ToolError("spec/GrpcData.tla is stale: run python3 spec/gen_grpc_data.py")


def run(prop, tier):
    t0 = time.time()
    if prop != "C19":
        raise vlib.ToolError("grpc_check serves C19 only")
    check_data_fresh()
    wd = vlib.workdir(prop)
    seed = vlib.seed()
    hx = vlib.cargo_build("hx-grpc")
    rep = vlib.Reporter(prop)
    cfg = CONFIGS[tier]
    mc = vlib.run_tlc("MC_GrpcBoundary", cfg, wd, workers=4 if tier == "quick" else 8, timeout=1800)
    if not mc.ok:
        raise vlib.ToolError("TLC reports %s on %s (specification error):\n%s" % (mc.violated, cfg, mc.output[-3000:]))
    # TLC's workers print in no fixed order: sort for stable line numbers
    scripts = sorted(mc.marked["REPLAY"], key=lambda b: json.dumps(b, sort_keys=True))
    # one adapter instance serves all exchanges (as in the application): the sorted order puts the refused replies first, so every exchange
    # is run a second time in the opposite order -- a refused reply then also comes AFTER well-formed ones (each exchange is judged alone)
    scripts = scripts + scripts[::-1]
    # ... and a third time with a service that is being restarted: its first answer in each exchange is the status UNAVAILABLE
    scripts = scripts + [dict(x, fault="unavailable-once") for x in scripts[:len(scripts) // 2] if x["kind"] in ("select", "discover")]
    if not scripts:
        raise vlib.ToolError("TLC exported no exchange from %s" % cfg)
    # ... and requests of unusual size: 40 candidates that each carry 128 KiB of metadata (5 MiB on the wire; the mock accepts it).  The
    # service may refuse such a request -- what it gets, if anything, is still the unaltered candidate list
    gd.STRINGS["v:big"] = "0123456789abcdef" * 8192
    INV["v:"] = inverse("v:")
    echo = [x for x in scripts if x["kind"] == "select" and x["reply"]["mode"] == "echo" and x["reply"]["idx"] == 1 and len(x["candidates"]) >= 1 and not x.get("fault")]
    for base in echo[:2]:
        big = json.loads(json.dumps(base))
        c0 = big["candidates"][0]
        big["candidates"] = [dict(c0, port=20000 + i, meta=[[c0["meta"][0][0] if c0["meta"] else "k:type", "v:big"]]) for i in range(40)]
        big["fault"] = "big-request"
        scripts.append(big)
    inp = os.path.join(wd, "scripts.ndjson")
    outp = os.path.join(wd, "obs.ndjson")
    vlib.write_ndjson(inp, [concretise(s) for s in scripts])
    t1 = time.time()
    vlib.run_bin(hx, ["grpc", "--in", inp, "--out", outp], timeout=1200)
    harness_wall = time.time() - t1
    observed = vlib.read_ndjson(outp)
    if len(observed) != len(scripts) or any(o["line"] != i + 1 for i, o in enumerate(observed)):
        raise vlib.ToolError("harness recorded %d exchanges for %d scripts" % (len(observed), len(scripts)))
    if any(o.get("timeout") for o in observed):
        raise vlib.ToolError("an adapter call did not return within 20 s (line %d)" % next(o["line"] for o in observed if o.get("timeout")))
    trace = os.path.join(wd, "trace.ndjson")
    recs = []
    for s, o in zip(scripts, observed):
        o["_kind"] = s["kind"]
        recs.append({"script": s, "obs": abstract(o)})
    vlib.write_ndjson(trace, recs)
    # code -> spec: TLC judges every recorded exchange against the named clauses of GrpcBoundary.tla
    tr = vlib.run_tlc("Trace_GrpcBoundary", "Trace_GrpcBoundary.cfg", wd, workers=1, timeout=1800, markers=("FAIL", "NOTCONSUMED"),
                      env_extra={"TRACE": trace}, java_opts=["-Xss1g", "-Dtlc2.tool.queue.IStateQueue=StateDeque"])
    if not tr.ok or tr.marked["NOTCONSUMED"] or tr.distinct != len(recs) + 1:
        raise vlib.ToolError("trace validation did not consume all %d records (distinct=%d):\n%s" % (len(recs), tr.distinct, tr.output[-2000:]))
    drift = {}
    failing_lines = set()
    for f in tr.marked["FAIL"]:
        i = f["line"] - 1
        s, o = scripts[i], observed[i]
        verdicts = sorted(c for c in f["clauses"] if c.startswith("C19_"))
        for c in f["clauses"]:
            if c.startswith("N_"):
                drift[c] = drift.get(c, 0) + 1
        if not verdicts:
            continue
        failing_lines.add(i)
        sig = "%s %s [%s%s]" % (prop, "+".join(verdicts), describe(s), {"unavailable-once": "; first call answered UNAVAILABLE", "big-request": "; 40 candidates with 128 KiB of metadata each"}.get(s.get("fault"), ""))
        rep.violation(sig, {"failing_clauses": verdicts, "abstract_exchange": s, "concrete_script": concretise(s),
                            "observed": {k: v for k, v in o.items() if k != "_kind"}, "seed": seed,
                            "how_to_replay": "bin/check %s %s; exchange on line %d of scripts.ndjson (VERIF_KEEP=1 keeps out/%s-<pid>/)" % (prop, tier, i + 1, prop)})
    rc = rep.finish()
    if drift:
        print("NOTE model-drift: %s (differences from the precise design of GrpcBoundary.tla that no C19 clause covers; of %d exchanges)"
              % (", ".join("%s x%d" % kv for kv in sorted(drift.items())), len(recs)))
    samples = []
    for want in ("discover", "select", "select"):
        for i, s in enumerate(scripts):
            if s["kind"] == want and nontrivial(s) and all(x["line"] != i + 1 for x in samples) and (i % 7 == 3 or want == "discover"):
                samples.append({"line": i + 1, "abstract": {k: v for k, v in s.items() if k != "expect"}, "expected_result": s["expect"]["result"],
                                "observed_result": observed[i]["result"], "request_seen": observed[i]["request_seen"]})
                break
    kinds = {}
    for s in scripts:
        kinds[s["kind"]] = kinds.get(s["kind"], 0) + 1
    cov = {
        "states": mc.distinct + tr.distinct,
        "transitions": mc.generated + tr.generated,
        "traces_validated_against_impl": len(recs),
        "samples": samples or [{"note": "no exchange selected"}],
        "evaluations": len(recs),
        "distinct_nontrivial": len({json.dumps({k: v for k, v in s.items() if k != "expect"}, sort_keys=True) for s in scripts if nontrivial(s)}),
        "rule": "TLC checks RoundTrip (FromWire(ToWire(t)) = t on %d-form host table x ports x metadata x identifiers), ErrorCases and the C19 clauses on "
                "every exchange of the design, and exports one script per complete exchange; each script is played against the real "
                "GrpcDiscoveryAdapter / GrpcStrategyAdapter / GrpcStatusAdapter and an in-process tonic service generated from the repository's "
                ".proto files; TLC judges every recorded exchange against the clauses C19_DiscoveredUnchanged, C19_ChoiceUnchanged, "
                "C19_RequestUnaltered, C19_MalformedRejected, C19_ValidAccepted; non-trivial = at least one target or malformed reply crosses "
                "the boundary; distinct = distinct abstract scripts" % len(gd.HOSTS),
        "exhaustive": True,
        "exchanges_by_kind": kinds,
        "host_forms": len(gd.HOSTS), "canonical_ips": len(gd.canon_ips()), "ports": [p[0] for p in gd.PORTS],
        "tlc": ["%s: %s, %d exchanges, %.1fs" % (cfg, mc.summary(), len(scripts), mc.wall),
                "Trace_GrpcBoundary: %d records judged in %.1fs" % (len(recs), tr.wall),
                "harness: %d exchanges in %.1fs" % (len(recs), harness_wall)],
        "exchanges_failing_a_clause": len(failing_lines),
        "model_drift_notes": drift,
        "known_findings_hit": {k: n for k, (_, n) in rep.known_hit.items()},
    }
    vlib.write_evidence(prop, tier, "model_checking", cov, time.time() - t0, len(rep.violations),
                        assumptions=["the in-process tonic server stubs generated from the repository's .proto files and the loopback transport are faithful",
                                     "address texts are judged through the table of spec/gen_grpc_data.py (canonical forms cross-checked with Python's ipaddress); "
                                     "opaque strings (identifiers, metadata, names, handshake host names) are compared through label tables fixed before the run",
                                     "DNS host names, zone identifiers and inet_aton spellings in Address.hostname are not judged (the documentation allows host names, "
                                     "the router-side target is a socket address)"])
    vlib.cleanup(wd)
    return rc
