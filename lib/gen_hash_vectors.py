"""C11 input vectors: (server id, shared secret, encoded public key) with their SHA-1 digests from hashlib.

SHA-1 is uninterpreted in spec/McHash.tla; this module supplies inputs TOGETHER WITH their digests and nothing else: the
expected text is computed by TLC (McHash!SignedHex) from the digest.  Inputs are SEARCHED (seeded) so that every digest
class that matters for the signed notation is present (see CLASSES).  The fixed vectors (the three published ones and
the rare prefixes found by a one-time search) are also written to spec/McHashData.tla:

    python3 lib/gen_hash_vectors.py --write-data        (re-creates spec/McHashData.tla; committed)

Every digest is recomputed with hashlib whenever vectors are generated; a fixed vector whose digest does not have the
recorded prefix is a tool error."""
import hashlib
import os
import random
import sys

# (name, what the digest looks like, minimum number of vectors per 300 requested)
CLASSES = [
    ("pos",     "top bit clear, first nibble not zero", 20),
    ("neg",     "top bit set", 20),
    ("lz1",     "exactly one leading zero nibble", 12),
    ("lz2",     "a leading 0x00 byte (exactly two leading zero nibbles)", 8),
    ("lz3",     "three leading zero nibbles", 4),
    ("lz4",     "four or more leading zero nibbles", 2),
    ("z00_80",  "0x00 byte followed by a byte with its top bit set", 4),
    ("x80",     "first byte 0x80", 6),
    ("x7f",     "first byte 0x7f", 4),
    ("ff1",     "a leading 0xff byte (the magnitude has a leading zero byte)", 8),
    ("ff2",     "two or more leading 0xff bytes", 2),
    ("ff_7f",   "0xff byte followed by a byte with its top bit clear", 4),
    ("neg_f",   "negative with first nibble 0xf (the magnitude has a leading zero nibble)", 10),
    ("neg_t00", "negative ending in a 0x00 byte (the carry of the negation crosses a byte)", 6),
    ("pos_t00", "non-negative ending in a 0x00 byte", 3),
]


def tags_of(d):
    """Classes of a digest, most specific first."""
    t = []
    hx = d.hex()
    lz = len(hx) - len(hx.lstrip("0"))
    if d[0] == 0 and d[1] >= 0x80:
        t.append("z00_80")
    if lz >= 4:
        t.append("lz4")
    elif lz == 3:
        t.append("lz3")
    elif lz == 2:
        t.append("lz2")
    elif lz == 1:
        t.append("lz1")
    if d[0] == 0xFF and d[1] == 0xFF:
        t.append("ff2")
    if d[0] == 0xFF and d[1] < 0x80:
        t.append("ff_7f")
    if d[0] == 0xFF:
        t.append("ff1")
    if d[0] == 0x80:
        t.append("x80")
    if d[0] == 0x7F:
        t.append("x7f")
    if d[0] >= 0x80 and d[-1] == 0:
        t.append("neg_t00")
    if d[0] < 0x80 and d[-1] == 0:
        t.append("pos_t00")
    if d[0] >> 4 == 0xF:
        t.append("neg_f")
    t.append("neg" if d[0] >= 0x80 else "pos")
    return t


def sha1(sid, secret, pub):
    return hashlib.sha1(sid + secret + pub).digest()


# --- fixed vectors ---------------------------------------------------------------------------------------------------
# the three published examples of the notation (server id only; empty secret and key)
PUBLISHED = [
    ("Notch", "4ed1f46bbe04bc756bcb17c0c7ce3e4632f06a48"),
    ("jeb_", "-7c9d5b0044c130109a5d7b5fb5c317c02b4e28c1"),
    ("simon", "88e16a1019277b15d58faf0541e11910eb756f6"),
]

# rare digest prefixes found once by exhaustive counting (2^28 candidates): server id "", the secret below, a 162-byte
# key = DEEP_PUB_HEAD + 8-byte big-endian counter.  (tag, counter, expected first three digest bytes)
DEEP_SECRET = bytes.fromhex("00112233445566778899aabbccddeeff")
DEEP_PUB_HEAD = bytes.fromhex("30819f300d06092a864886f70d010101050003818d0030818902818100") + bytes((7 * i + 3) % 256 for i in range(125))
DEEP = [
    ("lz6", 2035643, "000000"), ("lz6", 2904564, "000000"),            # three leading 0x00 bytes (then d6.. / 20..)
    ("ff3", 231604, "ffffff"), ("ff3", 37282841, "ffffff"),             # three leading 0xff bytes (then a8.. / 80..)
    ("z0000_80", 1007497, "000080"), ("z0000_80", 5956819, "000080"),   # 00 00 80: zero bytes, then a top-bit byte
    ("ffff7f", 25088069, "ffff7f"), ("ffff7f", 182647590, "ffff7f"),    # ff ff 7f: 0xff bytes, then a top-bit-clear byte
    ("x7fffff", 9603672, "7fffff"), ("x7fffff", 79351614, "7fffff"),    # just below the sign boundary
    ("x800000", 11621042, "800000"), ("x800000", 197060562, "800000"),  # just above the most negative value
]


def _vec(src, sid, secret, pub, note=""):
    d = sha1(sid, secret, pub)
    t = tags_of(d)
    return {"src": src, "class": t[0], "tags": t, "sid": sid.hex(), "secret": secret.hex(), "pubkey": pub.hex(),
            "digest": list(d), "note": note}


def published_vectors():
    return [_vec("published", name.encode(), b"", b"", note=text) for name, text in PUBLISHED]


def deep_vectors():
    out = []
    for tag, counter, prefix in DEEP:
        v = _vec("deep", b"", DEEP_SECRET, DEEP_PUB_HEAD + counter.to_bytes(8, "big"), note=tag)
        if bytes(v["digest"][:3]).hex() != prefix:
            raise RuntimeError("fixed vector %s/%d no longer has the digest prefix %s" % (tag, counter, prefix))
        v["class"] = tag
        v["tags"] = [tag] + v["tags"]
        out.append(v)
    return out


# --- searched vectors ------------------------------------------------------------------------------------------------
SIDS = [b"", b"", b"", b"passage", b"justchunks", "sérvér-ïd ✓".encode(), "\U0001F600lobby".encode(), b"a&b=c#d?e%f+g h/i",
        b"-", b"0", b"\x00", b"x" * 20, b"S" * 64]


def _shape(rng):
    """One input triple in a realistic or a boundary shape (before the search varies the secret)."""
    sid = rng.choice(SIDS)
    r = rng.random()
    if r < 0.70:
        secret = rng.randbytes(16)          # what the protocol uses
    elif r < 0.78:
        secret = b""
    elif r < 0.86:
        secret = rng.randbytes(1)
    elif r < 0.93:
        secret = rng.randbytes(rng.choice([15, 17, 32, 63, 64, 65]))
    else:
        secret = rng.randbytes(200)
    r = rng.random()
    if r < 0.60:
        pub = bytes.fromhex("30819f300d06092a864886f70d010101050003818d0030818902818100") + rng.randbytes(128) + bytes.fromhex("0203010001")
    elif r < 0.70:
        pub = b""
    elif r < 0.80:
        pub = rng.randbytes(1)
    elif r < 0.90:
        pub = rng.randbytes(294)
    else:
        pub = rng.randbytes(rng.choice([55, 56, 63, 64, 119, 120]))   # SHA-1 block / padding boundaries
    return sid, secret, pub


def generate(n, seed):
    """n searched vectors (plus the fixed ones in front); every class of CLASSES is present with its quota."""
    rng = random.Random(seed * 1000003 + 11)
    out = published_vectors() + deep_vectors()
    quota = {name: max(1, (q * n) // 300) for name, _, q in CLASSES}
    have = {name: 0 for name, _, _ in CLASSES}
    # same concatenation, different split: equal digests by definition (the three parts are simply hashed in order)
    for a, b, c in [(b"ab", b"c", b""), (b"a", b"bc", b""), (b"", b"a", b"bc"), (b"abc", b"", b"")]:
        out.append(_vec("split", a, b, c))
    # ... and the same parts in another order: different digests
    for a, b, c in [(b"k", b"\x01\x02", b"\x03"), (b"k", b"\x03", b"\x01\x02")]:
        out.append(_vec("order", a, b, c))
    for v in out:
        for t in v["tags"]:
            if t in have:
                have[t] += 1
    tried = 0
    picked = 0
    # phase 1: search until every quota is met (cheap candidates: a shape with a counter appended to the secret)
    while any(have[k] < quota[k] for k in quota):
        sid, secret, pub = _shape(rng)
        base = hashlib.sha1(sid + secret)
        for c in range(4096):
            tried += 1
            cb = c.to_bytes(2, "big")
            h = base.copy()
            h.update(cb + pub)
            d = h.digest()
            if d[0] in (0, 0x7F, 0x80, 0xFF) or d[0] >> 4 in (0, 0xF) or d[-1] == 0 or have["pos"] < quota["pos"] or have["neg"] < quota["neg"]:
                tg = tags_of(d)
                need = [t for t in tg if have[t] < quota[t]]
                if need:
                    v = _vec("searched", sid, secret + cb, pub)
                    v["class"] = need[0]
                    out.append(v)
                    picked += 1
                    for t in tg:
                        have[t] += 1
        if tried > 60_000_000:
            raise RuntimeError("digest class search did not converge: %r of %r" % (have, quota))
    # phase 2: fill up with plain random inputs
    while picked < n:
        sid, secret, pub = _shape(rng)
        out.append(_vec("random", sid, secret, pub))
        picked += 1
    for i, v in enumerate(out):
        v["i"] = i + 1
    return out, {"candidates_hashed": tried, "per_class": have, "quota": quota}


# --- spec/McHashData.tla ---------------------------------------------------------------------------------------------
def tla_seq(xs):
    return "<<" + ", ".join(str(x) for x in xs) + ">>"


def write_data(path):
    lines = ["------------------------------ MODULE McHashData ------------------------------",
             "(* GENERATED by lib/gen_hash_vectors.py --write-data; do not edit.                                      *)",
             "(* Fixed C11 vectors: digest = SHA-1 (hashlib) of server id \\o secret \\o key as bytes; text = the        *)",
             "(* PUBLISHED notation as ASCII codes (only for the three published examples).  MC_McHash requires       *)",
             "(* McHash!SignedHex(digest) = text for them; DeepDigests are digests with rare prefixes (their inputs   *)",
             "(* are in lib/gen_hash_vectors.py) on which the structural invariants are checked as well.              *)",
             "", "Published == <<"]
    pub = published_vectors()
    for k, (v, (name, text)) in enumerate(zip(pub, PUBLISHED)):
        lines.append("  \\* server id \"%s\" -> %s" % (name, text))
        lines.append("  [digest |-> %s,\n   text |-> %s]%s" % (tla_seq(v["digest"]), tla_seq(text.encode()), "," if k + 1 < len(pub) else ""))
    lines.append(">>")
    lines.append("")
    lines.append("DeepDigests == {")
    deep = deep_vectors()
    for k, v in enumerate(deep):
        lines.append("  %s%s   \\* %s" % (tla_seq(v["digest"]), "," if k + 1 < len(deep) else "", v["note"]))
    lines.append("}")
    lines.append("=============================================================================")
    with open(path, "w") as fh:
        fh.write("\n".join(lines) + "\n")


if __name__ == "__main__":
    here = os.path.dirname(os.path.dirname(os.path.abspath(__file__)))
    if "--write-data" in sys.argv:
        write_data(os.path.join(here, "spec", "McHashData.tla"))
    else:
        vs, st = generate(int(sys.argv[1]) if len(sys.argv) > 1 else 300, 1)
        print(len(vs), st)
