#!/usr/bin/env python3
"""Re-evaluates stored seeds that were missed at first, after the checks were strengthened, and records the outcome in their meta.json:
   seed_reeval.py <notes.json>      notes.json = {"<seed name>": {"history": "...", "checks": ["C13"] (default: own property)}}
The patch is applied to the checkout named by SEED_REPO (default /repo) and the checks of THIS copy of the directory are run; the
meta.json that is updated is the one under SEED_STORE (default: this copy's seeded/)."""
import json
import os
import subprocess
import sys

VERIF = os.path.dirname(os.path.dirname(os.path.abspath(__file__)))
REPO = os.environ.get("SEED_REPO", "/repo")
STORE = os.environ.get("SEED_STORE", os.path.join(VERIF, "seeded"))


def sh(cmd, cwd=None, timeout=3600):
    p = subprocess.run(cmd, shell=True, cwd=cwd, stdout=subprocess.PIPE, stderr=subprocess.STDOUT, timeout=timeout)
    return p.returncode, p.stdout.decode(errors="replace")


notes = json.load(open(sys.argv[1]))
for name, note in notes.items():
    d = os.path.join(STORE, name)
    mp = os.path.join(d, "meta.json")
    meta = json.load(open(mp))
    rc, out = sh("git -C %s status --short" % REPO)
    if out.strip():
        print("ERROR %s not clean" % REPO)
        sys.exit(2)
    rc, out = sh("git -C %s apply %s" % (REPO, os.path.join(d, "patch.diff")))
    if rc:
        print("%s: patch does not apply" % name)
        continue
    det = meta.get("detected_by") or {}
    try:
        for c in note.get("checks") or [name[:3]]:
            rc, out = sh("bin/check %s quick 2>&1 | grep -E '^VIOLATION|what:|TOOL-ERROR' | head -2" % c, cwd=VERIF)
            lines = [x.replace(VERIF, "/verif") for x in out.strip().split("\n") if x.strip()]
            det[c] = {"caught": any(x.startswith("VIOLATION") for x in lines), "first_lines": lines, "after_strengthening": True}
            print("%s: %s %s" % (name, c, "CAUGHT" if det[c]["caught"] else "MISSED"), flush=True)
    finally:
        sh("git -C %s checkout -- ." % REPO)
    meta["detected_by"] = det
    if note.get("history"):
        meta["history"] = note["history"]
    json.dump(meta, open(mp, "w"), indent=1)
