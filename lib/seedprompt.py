#!/usr/bin/env python3
"""seedprompt.py <prop> <round>  -- print the brief for a fresh sub-agent of a seeding round (nothing from /verif except the
property text and one-line descriptions of changes already tried, so that it proposes something different)."""
import glob
import json
import os
import sys

VERIF = os.path.dirname(os.path.dirname(os.path.abspath(__file__)))


def main():
    prop, rnd = sys.argv[1], sys.argv[2]
    p = None
    for line in open(os.path.join(VERIF, "properties.jsonl")):
        d = json.loads(line)
        if d["id"] == prop:
            p = d
    tried = []
    for d in sorted(glob.glob(os.path.join(VERIF, "seeded", prop + "-*"))):
        try:
            m = json.load(open(os.path.join(d, "meta.json")))
            tried.append("- " + (m.get("what") or "")[:330].replace("\n", " "))
        except Exception:
            pass
    wt = "/tmp/wt%s-%s" % (rnd, prop)
    out = "/tmp/seed%s-%s" % (rnd, prop)
    print(f"""You are helping to evaluate a verification framework for the Rust project scrayosnet/passage (a Minecraft Java
transfer router). Your job: invent THREE independent, realistic code changes ("seeded changes") that each BREAK the semantic
property quoted below while the project still compiles and all of its existing tests still pass.

Your private scratch git worktree of the repository is {wt} (already created; work ONLY there; never touch /repo or /verif;
do not read anything under /verif). Build with `CARGO_TARGET_DIR={wt}/target CARGO_NET_OFFLINE=true cargo ... --offline`
(there is no network; nothing can be downloaded). The existing suite is `cargo test --workspace --offline --no-fail-fast`
(77 tests) run in the worktree.

PROPERTY {prop}: {p.get('title')}
{p.get('statement')}
Relevant files (hints): {', '.join(p.get('anchors', {}).get('files', []))}

What each change must be like:
* a plausible edit a maintainer could make by mistake or as a "refactoring"/"optimisation"/"cleanup" (not sabotage with a magic
  constant, not a change ordinary use would expose at once);
* it needs SOMETHING SPECIFIC to manifest: a particular interleaving or timing, a fault at a particular point, a multi-step
  sequence of operations, an unusual input or configuration value, or two cooperating sites that each look fine alone;
* the project compiles, and all 77 existing tests pass with it;
* it really violates the property as stated (argue this in meta), and you demonstrate it with a test or small program that FAILS
  with the change and PASSES without it;
* the three changes should differ from each other in mechanism AND be different from these changes that were already tried
  in earlier rounds (do not repeat them or close variants of them):
{chr(10).join(tried) if tried else '- (none yet)'}

Deliverables, written to {out}/ (create it): for k = 1, 2, 3:
* {out}/mut<k>.diff      -- `git diff` of the change alone, relative to the worktree's HEAD (must apply with `git apply` to a clean checkout;
                            must NOT contain the demonstration);
* {out}/demo<k>/<name>.rs -- the demonstration as ONE integration-test file that can be copied into `<crate>/tests/` of the crate it
                            tests (say which crate in meta) and run with `cargo test -p <package> --offline --test <name>`; it may only use crates
                            that are already dependencies/dev-dependencies of that crate;
* {out}/meta<k>.json     -- JSON object with keys: "property" ("{prop}"), "what" (the change, 2-4 sentences), "violates" (why the property
                            is broken), "needs" (what it takes to manifest), "files" (list), "crate" (directory of the crate whose tests/ the demo
                            goes into, e.g. "passage-protocol", "passage-adapters", "passage-adapters/http", "." for the root crate),
                            "demo" (how to run it), "commands_run" (what you actually ran), "existing_tests_pass_with_change" (bool),
                            "existing_tests_passed_count" (int), "demo_fails_with_change" (bool), "demo_passes_without_change" (bool).

Procedure for each k: start from a clean worktree (`git checkout -- . && git clean -fdq -e target`), make the change, save the diff,
run the whole existing suite (must be 77 passed, 0 failed), copy the demo in, show it fails, revert the change (`git checkout -- .`
keeps the untracked demo file), show the demo passes, remove the demo file. Leave the worktree clean at the end. Report truthfully:
if you cannot produce three, deliver fewer. In your final message give a 3-line summary per change.""")


if __name__ == "__main__":
    main()
