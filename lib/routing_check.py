"""C18: spec/Routing.tla checked by TLC over a finite domain (MC_Routing), every explored scenario exported as a case,
replayed into the real filter / strategy adapters built from configuration values (harness `hx-app routing`), and every
recorded decision judged by TLC against the clauses of Routing.tla (Trace_Routing).  Python only orchestrates."""
import json
import os
import sys
import time

import vlib

sys.path.insert(0, vlib.SPEC)
import gen_routing_data  # noqa: E402  (spec/gen_routing_data.py: the generator of spec/RoutingData.tla)

CFG = {"quick": "MC_RoutingQuick.cfg", "thorough": "MC_RoutingFull.cfg"}
CASE_FIELDS = ("filters", "strategy", "targets", "player", "host")


def check_tables(hx, wd):
    """The abstraction tables of RoutingData.tla (computed with Python) must agree with the Rust libraries the code
    under test uses (regex, u32 parsing, uuid); a difference is a tool error, never a verdict."""
    with open(gen_routing_data.path()) as fh:
        if fh.read() != gen_routing_data.render():
            raise vlib.ToolError("spec/RoutingData.tla is stale: run python3 spec/gen_routing_data.py")
    qs, want = [], []
    matching = set(gen_routing_data.match_pairs())
    for p, s in gen_routing_data.match_domain():
        qs.append({"kind": "regex", "pattern": p, "subject": s})
        want.append({"match": (p, s) in matching})
    counts = dict(gen_routing_data.count_pairs())
    for t in gen_routing_data.COUNT_TEXTS:
        qs.append({"kind": "count", "text": t})
        want.append({"count": counts.get(t, -1)})
    for t, c in gen_routing_data.uuid_pairs():
        qs.append({"kind": "uuid", "text": t})
        want.append({"uuid": c})
    qp, ap = os.path.join(wd, "tables.q.ndjson"), os.path.join(wd, "tables.a.ndjson")
    vlib.write_ndjson(qp, qs)
    vlib.run_bin(hx, ["tables", "--in", qp, "--out", ap])
    got = vlib.read_ndjson(ap)
    if len(got) != len(want):
        raise vlib.ToolError("hx-app tables answered %d of %d questions" % (len(got), len(want)))
    for q, w, g in zip(qs, want, got):
        if w != g:
            raise vlib.ToolError("abstraction table differs from the Rust library: %s table=%s rust=%s" % (q, w, g))
    return len(qs)


def describe(case):
    """Short stable description of the abstract input of a case (for signatures)."""
    a = case["abs"]
    st = a["strategy"]
    bits = ["strategy=%s" % st["kind"]]
    if st["kind"] == "player_fill":
        bits.append("max=%d" % st["max"])
        cs = []
        for t in case["targets"]:
            m = dict((k, v) for k, v in t["meta"])
            cs.append(m.get(st["field"], "missing") or "''")
        bits.append("counts=" + ",".join(cs))
    fs = []
    for f in a["chain"]:
        scope = ("@" + f["scope"][0]) if f["scope"] else ""
        if f["kind"] == "meta":
            body = "&".join("%s.%s(%s)" % (r["key"], r["op"], "|".join(r["args"])) for r in f["rules"]) or "norules"
        else:
            parts = []
            if f["names"]:
                parts.append("names=" + "|".join(f["names"][0]))
            if f["pattern"]:
                parts.append("pattern=" + f["pattern"][0])
            if f["ids"]:
                parts.append("ids=%d" % len(f["ids"][0]))
            body = ",".join(parts) or "unset"
        fs.append("%s%s[%s]" % (f["kind"], scope, body))
    bits.append("chain=" + (";".join(fs) or "-"))
    bits.append("targets=" + ";".join(
        "%s{%s}" % (t["identifier"], ",".join("%s=%s" % (k, v) for k, v in t["meta"] if k != "players")) for t in case["targets"]))
    bits.append("player=" + case["player"]["name"])
    bits.append("host=" + case["host"])
    if a.get("spelling") == "alias":
        bits.append("spelling=alias")
    return " ".join(bits)


def kind_of(case):
    nt, ne = len(case["targets"]), len(case["expectFilter"])
    if nt == 0:
        return "no-targets"
    return "none-eligible" if ne == 0 else ("all-eligible" if ne == nt else "some-eligible")


def run(prop, tier):
    t0 = time.time()
    wd = vlib.workdir(prop)
    seed = vlib.seed()
    hx = vlib.cargo_build("hx-app")
    rep = vlib.Reporter(prop)
    n_tables = check_tables(hx, wd)

    # spec -> cases: TLC checks the design against the property clauses on every scenario and exports the scenarios
    mc = vlib.run_tlc("MC_Routing", CFG[tier], wd, workers=4 if tier == "quick" else 8, timeout=1500,
                      extra=["-seed", str(seed)])
    if not mc.ok:
        raise vlib.ToolError("TLC reports %s on %s (specification error):\n%s" % (mc.violated, CFG[tier], mc.output[-3000:]))
    cases = mc.marked["REPLAY"]
    if not cases:
        raise vlib.ToolError("MC_Routing exported no case")
    inp = os.path.join(wd, "cases.ndjson")
    outp = os.path.join(wd, "observed.ndjson")
    vlib.write_ndjson(inp, [{k: c[k] for k in CASE_FIELDS} for c in cases])

    # cases -> code: only recorded
    vlib.run_bin(hx, ["routing", "--in", inp, "--out", outp], timeout=1500)
    observed = vlib.read_ndjson(outp)
    if len(observed) != len(cases) or any(o["line"] != i + 1 for i, o in enumerate(observed)):
        raise vlib.ToolError("harness recorded %d observations for %d cases" % (len(observed), len(cases)))

    # code -> spec: scenario (abstract vocabulary) + observation go back to TLC, which recomputes eligibility itself
    trace = os.path.join(wd, "trace.ndjson")
    vlib.write_ndjson(trace, [{"line": i + 1, "abs": c["abs"], "targets": c["targets"], "player": c["player"], "host": c["host"],
                               "obs": {"filtered": o["filtered"], "chosen": o["chosen"], "error": o["error"], "panic": o["panic"]}}
                              for i, (c, o) in enumerate(zip(cases, observed))])
    tr = vlib.run_tlc("Trace_Routing", "Trace_Routing.cfg", wd, workers=1, timeout=1500, markers=("FAIL", "DRIFT", "NOTCONSUMED"),
                      env_extra={"TRACE": trace}, java_opts=["-Xss1g", "-Dtlc2.tool.queue.IStateQueue=StateDeque"])
    if not tr.ok or tr.marked["NOTCONSUMED"] or tr.distinct != len(observed) + 1:
        raise vlib.ToolError("trace validation did not consume all %d records (distinct=%d):\n%s" % (len(observed), tr.distinct, tr.output[-2000:]))

    failed = {f["line"]: sorted(f["clauses"]) for f in tr.marked["FAIL"]}
    # consistency of the two evaluations of the specification (export time / judging time); a difference is a tool error
    for i, (c, o) in enumerate(zip(cases, observed)):
        agrees = set(o["filtered"]) == set(c["expectFilter"]) and o["chosen"] in c["acceptable"]
        if agrees == ((i + 1) in failed):
            raise vlib.ToolError("Routing.tla judged line %d %s although the exported expectation says %s: %s / %s" % (
                i + 1, "FAIL" if (i + 1) in failed else "ok", "ok" if agrees else "differs", json.dumps(c)[:1500], json.dumps(o)))
    for line, clauses in sorted(failed.items()):
        c, o = cases[line - 1], observed[line - 1]
        sig = "%s %s [%s]" % (prop, "+".join(clauses), describe(c))
        rep.violation(sig, {"failing_clauses": clauses, "case": {k: c[k] for k in CASE_FIELDS}, "abstract_configuration": c["abs"],
                            "expected_filter_output": c["expectFilter"], "acceptable_choices": c["acceptable"], "observed": o,
                            "seed": seed, "how_to_replay": "write `case` as one line to cases.ndjson; harness/target/debug/hx-app routing "
                                                           "--in cases.ndjson --out obs.ndjson (bin/check %s %s, VERIF_SEED=%d, case line %d)" % (prop, tier, seed, line)})
    # ---- application stage: the same decisions through passage::start(Config) on loopback with a real login ------------------
    # (the wiring of discovery, filters, strategy and the authenticated identity in src/lib.rs and the listener is part of what
    #  sends a player somewhere); only the Transfer / Disconnect is observable, judged by the choice clauses of Routing.tla
    def app_ok(c):
        ids = {}
        for t in c["targets"]:
            if ids.setdefault(t["address"], t["identifier"]) != t["identifier"]:
                return False
        n = c["player"]["name"]
        return 1 <= len(n) <= 16 and all(ch.isalnum() or ch == "_" for ch in n) and len(c["host"].encode()) <= 255
    napp = 240 if tier == "quick" else 4000
    pool = [i for i, c in enumerate(cases) if app_ok(c)]
    pri = [i for i in pool if kind_of(cases[i]) == "some-eligible"] + [i for i in pool if kind_of(cases[i]) != "some-eligible"]
    # half of the application cases have a player-list filter (allow / block by name, pattern or id) in their chain: there the decision
    # depends on WHO the player is (the authenticated identity, not the one the client claimed)
    def by_player(c):
        return any(f["kind"] in ("allow", "block") and (f["names"] or f["pattern"] or f["ids"]) for f in c["abs"]["chain"])
    pri_player = [i for i in pri if by_player(cases[i])]
    pri_other = [i for i in pri if not by_player(cases[i])]
    chosen_idx = sorted(pri_player[: napp // 2] + pri_other[: napp - min(len(pri_player), napp // 2)])
    app_in, app_out = os.path.join(wd, "app_in.ndjson"), os.path.join(wd, "app_obs.ndjson")

    def unempty(v):
        if v == "<empty-object>":
            return {}
        if isinstance(v, list):
            return [unempty(x) for x in v]
        if isinstance(v, dict):
            return {k: unempty(x) for k, x in v.items()}
        return v
    scs = []
    for i in chosen_idx:
        c = cases[i]
        scs.append({"family": "C18app", "timeoutS": 8, "host": c["host"], "case": i,
                    "adapters": {"authentication": {"fixed": {"profile": {"id": c["player"]["uuid"], "name": c["player"]["name"]}}},
                                 "discovery": {"fixed": {"targets": [{"identifier": t["identifier"], "address": t["address"], "meta": {k: v for k, v in t["meta"]}}
                                                                     for t in c["targets"]]}},
                                 "filter": unempty(c["filters"]), "strategy": unempty(c["strategy"])}})
    app_judged = 0
    app_fail = {}
    if scs:
        vlib.write_ndjson(app_in, scs)
        vlib.run_bin(hx, ["serve", "--in", app_in, "--out", app_out], timeout=1500)
        aobs = vlib.read_ndjson(app_out)
        if len(aobs) != len(scs):
            raise vlib.ToolError("hx-app serve recorded %d observations for %d application cases" % (len(aobs), len(scs)))
        arecs, amap = [], []
        for sc, o in zip(scs, aobs):
            c = cases[sc["case"]]
            if o.get("harnessError") or o.get("end") in (None, "nologin", "timeout", "eof"):
                continue            # not an observation of a routing decision (the application refused the configuration, or no login)
            if o["end"] == "transfer":
                tr_ = o["transfer"]
                lab = [t["identifier"] for t in c["targets"] if t["address"] in ("%s:%s" % (tr_["host"], tr_["port"]), "[%s]:%s" % (tr_["host"], tr_["port"]))]
                chosen = lab[0] if lab else "other:%s:%s" % (tr_["host"], tr_["port"])
            else:
                chosen = "none"
            arecs.append({"line": len(arecs) + 1, "stage": "app", "abs": c["abs"], "targets": c["targets"], "player": c["player"], "host": c["host"],
                          "obs": {"filtered": [], "chosen": chosen, "error": "", "panic": False}})
            amap.append((sc, o, chosen))
        if len(arecs) < len(scs) * 0.8:
            raise vlib.ToolError("application stage: only %d of %d logins reached a routing decision: %s" % (len(arecs), len(scs), json.dumps(aobs[:3])[:800]))
        atrace = os.path.join(wd, "app_trace.ndjson")
        vlib.write_ndjson(atrace, arecs)
        atr = vlib.run_tlc("Trace_Routing", "Trace_Routing.cfg", wd, workers=1, timeout=1500, markers=("FAIL", "DRIFT", "NOTCONSUMED"),
                           env_extra={"TRACE": atrace}, java_opts=["-Xss1g", "-Dtlc2.tool.queue.IStateQueue=StateDeque"])
        if not atr.ok or atr.marked["NOTCONSUMED"] or atr.distinct != len(arecs) + 1:
            raise vlib.ToolError("trace validation (application stage) did not consume all %d records:\n%s" % (len(arecs), atr.output[-2000:]))
        app_judged = len(arecs)
        for f in atr.marked["FAIL"]:
            sc, o, chosen = amap[f["line"] - 1]
            c = cases[sc["case"]]
            clauses = sorted(f["clauses"])
            app_fail[f["line"]] = clauses
            sig = "%s %s [through the application: %s]" % (prop, "+".join(clauses), describe(c))
            rep.violation(sig, {"failing_clauses": clauses, "stage": "application (passage::start on loopback, real login as the authenticated player)",
                                "configuration": sc["adapters"], "host": c["host"], "abstract_configuration": c["abs"], "acceptable_choices": c["acceptable"],
                                "observed_end": o.get("end"), "observed_transfer": o.get("transfer"), "sent_to": chosen,
                                "how_to_replay": "write the scenario (family C18app) as one line to in.ndjson; harness/target/debug/hx-app serve --in in.ndjson --out obs.ndjson"})
        print("application stage: %d routing decisions through passage::start judged by TLC, %d failing" % (app_judged, len(app_fail)))
    rc = rep.finish()
    drift = len(tr.marked["DRIFT"])
    if drift:
        print("NOTE model-drift: %d of %d filter outputs hold the eligible targets but in another order / multiplicity than "
              "the precise design (no clause of C18 covers that)" % (drift, len(observed)))

    kinds = {}
    for c in cases:
        k = ("any" if c["abs"]["strategy"]["kind"] == "any" else "player_fill") + ":" + kind_of(c)
        kinds[k] = kinds.get(k, 0) + 1
    nontrivial = [c for c in cases if c["targets"] and (len(c["expectFilter"]) not in (0,) or len(c["abs"]["chain"]) > 0)]
    samples = []
    for i in range(3, len(cases), max(1, len(cases) // 3)):
        c, o = cases[i], observed[i]
        samples.append({"case": {k: c[k] for k in CASE_FIELDS}, "expected_filter_output": c["expectFilter"],
                        "acceptable_choices": c["acceptable"], "observed": o})
    cov = {
        "states": mc.distinct + tr.distinct,
        "transitions": mc.generated + tr.generated,
        "traces_validated_against_impl": len(observed),
        "samples": samples[:3],
        "evaluations": len(observed),
        "distinct_nontrivial": len({json.dumps({k: c[k] for k in CASE_FIELDS}, sort_keys=True) for c in nontrivial}),
        "rule": "every scenario explored by TLC under %s (StrategyFocus exhaustive, FilterFocus exhaustive in the thorough tier and sampled "
                "in the quick tier, plus a uniform random sample of the full product, all drawn by TLC with -seed VERIF_SEED; see "
                "spec/MC_Routing.tla) is checked against the clauses of "
                "spec/Routing.tla in the model, exported, replayed into adapters built by DynFilterAdapters/DynStrategyAdapter::from_config "
                "from serde-deserialised configuration values, and the recorded (filtered, chosen) is judged by TLC (Trace_Routing), which "
                "recomputes eligibility from the scenario; non-trivial = at least one target and (a filter configured or a target eligible); "
                "distinct = distinct concrete cases" % CFG[tier],
        "exhaustive": False,
        "case_mix": kinds,
        "ties_or_two_readings": sum(1 for c in cases if len(c["acceptable"]) > 1),
        "alias_spelling": sum(1 for c in cases if c["abs"].get("spelling") == "alias"),
        "observed_errors": sum(1 for o in observed if o["error"]),
        "table_entries_checked_against_rust": n_tables,
        "filter_order_drift": drift,
        "application_stage_decisions_judged": app_judged,
        "tlc": ["%s: %s, %d cases, %.1fs" % (CFG[tier], mc.summary(), len(cases), mc.wall),
                "Trace_Routing: %d records judged in %.1fs" % (len(observed), tr.wall)],
        "known_findings_hit": {k: n for k, (_, n) in rep.known_hit.items()},
    }
    vlib.write_evidence(prop, tier, "model_checking", cov, time.time() - t0, len(rep.violations),
                        assumptions=["regular-expression search, decimal parsing and UUID text forms are tables computed with Python and "
                                     "re-checked against the Rust regex / u32 / uuid libraries on every run (tool error on a difference)",
                                     "a player count that is missing or not a decimal natural number may be read as 0 or as max_players "
                                     "(one reading per decision); the statement of C18 does not fix it",
                                     "the scenarios beyond the two exhaustive focus sets are a seeded random sample of a product of about 10^14"])
    vlib.cleanup(wd)
    return rc
