"""C12: spec/SessionUrl.tla (the grammar a session server applies to a request target + the prescribed builder) is checked
by TLC for all names over the reserved alphabet (MC_SessionUrl); the names TLC exports plus seeded random Unicode names
are given to the REAL MojangAdapter::authenticate (harness/hx-http) which talks to a loopback mock that records the raw
request target; TLC parses every recorded target with the specification's parser and judges the C12 clauses
(Trace_SessionUrl).  Python only orchestrates: it composes cases, matches line numbers and writes evidence."""
import hashlib
import json
import os
import random
import time

import gen_hash_vectors
import vlib

MC = {"quick": ("MC_SessionUrlQuick.cfg", 3), "thorough": ("MC_SessionUrlFull.cfg", 4)}
N_RANDOM = {"quick": 300, "thorough": 4000}
N_BAD = {"quick": 3, "thorough": 20}        # names per bad-reply script
BAD_SCRIPTS = ["204", "403", "500", "500profile", "300profile", "garbage", "empty", "truncated", "wrongshape", "emptyobj", "errorjson", "idonly", "nameonly", "nothttp", "close"]
SIGMA = 11                                   # symbols of SessionUrl!Sigma


def show_name(b):
    """Short stable rendering of a name (bytes): printable ASCII as quoted text, anything else as hex."""
    b = bytes(b)
    if len(b) > 48:
        return "%dbytes:0x%s.." % (len(b), b[:8].hex())
    if all(32 <= x < 127 and x not in (34, 92) for x in b):
        return '"%s"' % b.decode()
    return "0x" + b.hex()


def show_target(b):
    return "".join(chr(x) if 32 < x < 127 else "\\x%02x" % x for x in bytes(b))


def random_names(rng, n):
    """Seeded random Unicode names (valid UTF-8): the expectation for them is computed by TLC from the recorded bytes."""
    reserved = "&=#?%+ /"
    alnum = "abcdefghijklmnopqrstuvwxyzABCDEFGHIJKLMNOPQRSTUVWXYZ0123456789_"

    def uni(lo, hi):
        while True:
            c = rng.randint(lo, hi)
            if not 0xD800 <= c <= 0xDFFF:
                return chr(c)
    fixed = ["Victim&serverId=-4ed1f46bbe04bc756bcb17c0c7ce3e4632f06a48", "x&username=Victim", "Victim#", "a?b#c", "%26", "%2526", "a%0d%0ab", "%",
             "%%", "%4", "%zz", "+", "a+b", "a b", " ", "\r\nHost: evil", "x HTTP/1.1\r\nX-Injected: y", "../../profiles/minecraft", "/", "?", "??", "=", "==", "&",
             "&&", "username", "serverId", "&serverId", "=&=", "\x00", "a\x00b", "\x7f", "\t", "a\tb", "\x1b[31m", "\u0080", "ÿ", " ", "﻿x", "\U0001F600",
             "\U0010FFFF", "x" * 255, "\U0001F600" * 63, "&" * 255, "%41" * 85, "é" * 127, "Steve", "Notch", "jeb_", "a", ""]
    # a harmless-looking prefix of every length up to 40 characters (and a few longer ones), then URL syntax: whatever part of a name a
    # shortcut looks at, the rest is still the client's text
    for k in list(range(1, 41)) + [63, 64, 65, 127, 128, 200]:
        fixed.append(("Player_123456789_abcdefghijklmnopqrstuvwxyz" * 6)[:k] + "&serverId=evil#")
    out = [(s, "crafted") for s in fixed]
    while len(out) < n:
        kind = rng.randrange(8)
        if kind == 0:       # a legal Minecraft name
            s = "".join(rng.choice(alnum) for _ in range(rng.randint(1, 16)))
        elif kind == 1:     # a legal name with reserved characters spliced in
            s = "".join(rng.choice(alnum + reserved * 3) for _ in range(rng.randint(1, 16)))
        elif kind == 2:     # control characters
            s = "".join(rng.choice(alnum) if rng.random() < 0.5 else chr(rng.choice(list(range(0, 32)) + [127])) for _ in range(rng.randint(1, 12)))
        elif kind == 3:     # two- and three-byte UTF-8
            s = "".join(uni(0x80, 0xFFFF) for _ in range(rng.randint(1, 16)))
        elif kind == 4:     # four-byte UTF-8
            s = "".join(uni(0x10000, 0x10FFFF) for _ in range(rng.randint(1, 16)))
        elif kind == 5:     # percent sequences
            s = "".join(rng.choice(["%", "%2", "%26", "%3D", "%23", "%2B", "%25", "%c3%a9", "%zz", "a", "+", "&"]) for _ in range(rng.randint(1, 8)))
        elif kind == 6:     # anything at all
            s = "".join(uni(0, 0x10FFFF) if rng.random() < 0.5 else rng.choice(alnum + reserved) for _ in range(rng.randint(1, 24)))
        else:               # as long as fits 255 bytes
            s = ""
            while True:
                c = rng.choice(alnum + reserved) if rng.random() < 0.6 else uni(0, 0x10FFFF)
                if len((s + c).encode()) > 255:
                    break
                s += c
        out.append((s, ["legal", "legal+reserved", "control", "utf8-2/3", "utf8-4", "percent", "any", "255bytes"][kind]))
    return out[:n]


def collect(tier, wd, seed):
    """Runs the model check, the real adapter against the mock, and the trace judge. Returns (mc, tr, cases, observed)."""
    hx = vlib.cargo_build("hx-http")
    cfg, maxlen = MC[tier]
    # 1. the grammar and the prescribed builder, for all names over the reserved alphabet; export of the names
    mc = vlib.run_tlc("MC_SessionUrl", cfg, wd, workers=4 if tier == "quick" else 8, timeout=300 if tier == "quick" else 1500)
    if not mc.ok:
        raise vlib.ToolError("TLC reports %s on MC_SessionUrl/%s (specification error):\n%s" % (mc.violated, cfg, mc.output[-3000:]))
    exported = sorted((e["name"] for e in mc.marked["REPLAY"]), key=lambda b: (len(b), b))
    n_expected = sum(SIGMA ** k for k in range(maxlen + 1))
    if len(exported) != n_expected or len({tuple(b) for b in exported}) != n_expected:
        raise vlib.ToolError("MC_SessionUrl exported %d names, expected all %d over the alphabet up to length %d" % (len(exported), n_expected, maxlen))
    # 2. cases = names x (server id, secret, key) configurations x reply scripts
    rng = random.Random(seed * 7919 + 12)
    try:
        configs, _ = gen_hash_vectors.generate(60, seed)
    except RuntimeError as e:
        raise vlib.ToolError(str(e))
    names = [(bytes(b), "alphabet") for b in exported] + [(s.encode(), kind) for s, kind in random_names(rng, N_RANDOM[tier])]
    cases = []

    def add(name, kind, script):
        c = configs[len(cases) % len(configs)]
        i = len(cases) + 1
        cases.append({"i": i, "name": list(name), "kind": kind, "script": script, "sid": c["sid"], "secret": c["secret"], "pubkey": c["pubkey"],
                      "digest": list(hashlib.sha1(bytes.fromhex(c["sid"]) + bytes.fromhex(c["secret"]) + bytes.fromhex(c["pubkey"])).digest()),
                      "reply_id": "%032x" % (0xC12 << 64 | i), "reply_name": "Player%d" % i})
    for name, kind in names:
        add(name, kind, "ok")
    plain = [(b"Steve", "legal"), (b"a b", "crafted"), ("é&x=y".encode(), "crafted")] + [n for n in names if n[1] != "alphabet"]
    for script in BAD_SCRIPTS:
        for name, kind in plain[:N_BAD[tier]]:
            add(name, kind, script)
    # the same claimed name again and again on ONE adapter from ONE client address, each login with its own shared secret (and hence its own hash)
    for rep_name in (b"Steve", b"SameName"):
        base = configs[0]
        for j in range(3):
            sec = hashlib.sha256(b"repeat%d" % j + rep_name).hexdigest()[:32]
            i = len(cases) + 1
            cases.append({"i": i, "name": list(rep_name), "kind": "repeated", "script": "ok", "sid": base["sid"], "secret": sec, "pubkey": base["pubkey"],
                          "digest": list(hashlib.sha1(bytes.fromhex(base["sid"]) + bytes.fromhex(sec) + bytes.fromhex(base["pubkey"])).digest()),
                          "reply_id": "%032x" % (0xC12 << 64 | i), "reply_name": "Player%d" % i})
    # ... the session service answers with the profile whose id the client CLAIMED (as it does for an honest player); the next login on that
    # adapter claims the same id under another name -- the service is asked about the name claimed now
    CLAIMED_ID = "0123456789abcdef0123456789abcdef"   # the id every login of the harness claims
    base = configs[2 % len(configs)]
    for j, nm in enumerate((b"Alice", b"Bob", b"Alice")):
        i = len(cases) + 1
        sec = hashlib.sha256(b"sameid%d" % j).hexdigest()[:32]
        cases.append({"i": i, "name": list(nm), "kind": "same-id", "script": "ok", "sid": base["sid"], "secret": sec, "pubkey": base["pubkey"],
                      "digest": list(hashlib.sha1(bytes.fromhex(base["sid"]) + bytes.fromhex(sec) + bytes.fromhex(base["pubkey"])).digest()),
                      "reply_id": CLAIMED_ID, "reply_name": nm.decode()})
    # ... a login right after one that was given up on in mid-request (the connection deadline passed): own adapter per case (own server id)
    for j, (pname, prev) in enumerate(((b"Steve", "Earlier"), (b"Alex", "Other&x=y"), ("N\u00e9xt".encode(), "Steve"))):
        i = len(cases) + 1
        base = configs[(j + 1) % len(configs)]
        sid = (b"abandoned-%d" % j).hex()
        cases.append({"i": i, "name": list(pname), "kind": "after-abandoned", "script": "ok", "sid": sid, "secret": base["secret"], "pubkey": base["pubkey"],
                      "abandonedBefore": prev,
                      "digest": list(hashlib.sha1(bytes.fromhex(sid) + bytes.fromhex(base["secret"]) + bytes.fromhex(base["pubkey"])).digest()),
                      "reply_id": "%032x" % (0xC12 << 64 | i), "reply_name": "Player%d" % i})
    # ... and two logins with the same claimed name that overlap in time (the service takes 300 ms to answer): one record per pair
    for j, pname in enumerate((b"Twin", b"twin", "Zwilling\u00e9".encode())):
        base = configs[(j + 1) % len(configs)]
        sec2 = hashlib.sha256(b"pair%d" % j).hexdigest()[:32]
        i = len(cases) + 1
        cases.append({"i": i, "name": list(pname), "kind": "overlapping", "script": "slowok", "sid": base["sid"], "secret": base["secret"], "secret2": sec2, "pubkey": base["pubkey"],
                      "digest": list(hashlib.sha1(bytes.fromhex(base["sid"]) + bytes.fromhex(base["secret"]) + bytes.fromhex(base["pubkey"])).digest()),
                      "reply_id": "%032x" % (0xC12 << 64 | i), "reply_name": "Player%d" % i})
    inp = os.path.join(wd, "cases.ndjson")
    outp = os.path.join(wd, "observed.ndjson")
    vlib.write_ndjson(inp, cases)
    # 3. the real adapter against the loopback mock
    vlib.run_bin(hx, ["--in", inp, "--out", outp], timeout=1800)
    observed = vlib.read_ndjson(outp)
    if len(observed) != len(cases) or any(o["line"] != k + 1 or o["vec"] != cases[k] for k, o in enumerate(observed)):
        raise vlib.ToolError("the harness recorded %d observations for %d cases (or did not echo them)" % (len(observed), len(cases)))
    bad_in = [o for o in observed if o["harness_error"]]
    if bad_in:
        raise vlib.ToolError("case %d could not be given to the adapter: %s" % (bad_in[0]["line"], bad_in[0]["harness_error"]))
    if not any(o["requests"] for o in observed):
        raise vlib.ToolError("the mock received no request at all in %d calls: the passage_verif hook (PASSAGE_VERIF_SESSION_SERVER) is not active in this build" % len(observed))
    # 4. code -> spec: TLC parses the recorded targets and judges
    tr = vlib.run_tlc("Trace_SessionUrl", "Trace_SessionUrl.cfg", wd, workers=1, timeout=300 if tier == "quick" else 1500, markers=("FAIL", "NOTCONSUMED"),
                      env_extra={"TRACE": outp}, java_opts=["-Xss1g", "-Dtlc2.tool.queue.IStateQueue=StateDeque"])
    if not tr.ok or tr.marked["NOTCONSUMED"] or tr.distinct != len(observed) + 1:
        raise vlib.ToolError("trace validation did not consume all %d records (distinct=%d):\n%s" % (len(observed), tr.distinct, tr.output[-2000:]))
    return mc, tr, cases, observed


def run(prop, tier):
    t0 = time.time()
    wd = vlib.workdir(prop)
    seed = vlib.seed()
    rep = vlib.Reporter(prop)
    mc, tr, cases, observed = collect(tier, wd, seed)
    cfg, maxlen = MC[tier]
    exported = [c for c in cases if c["kind"] == "alphabet" and c["script"] == "ok"]
    configs = {(c["sid"], c["secret"], c["pubkey"]) for c in cases}
    groups = {}
    notes = {}
    for f in tr.marked["FAIL"]:
        o = observed[f["line"] - 1]
        clauses = sorted(f["clauses"])
        if "Bind_Record" in clauses:
            raise vlib.ToolError("record %d is not well-formed (Bind_Record): %s" % (f["line"], json.dumps(o)[:800]))
        for c in clauses:
            if c.startswith("Note_"):
                notes.setdefault(c, []).append(o)
        c12 = tuple(c for c in clauses if c.startswith("C12_"))
        if c12:
            reply = [c for c in c12 if c == "C12_ErrorOnBadReply"]
            req = tuple(c for c in c12 if c != "C12_ErrorOnBadReply")
            if reply:
                # how the adapter treats an unusable ANSWER is not part of C12's statement (which is about the request): note only
                notes.setdefault("Note_ErrorOnBadReply(script=%s)" % o["vec"]["script"], []).append(o)
            if req:
                groups.setdefault((req, "request"), []).append((o, f["params"]))
    for (clauses, what), obs in sorted(groups.items()):
        obs.sort(key=lambda op: (len(op[0]["vec"]["name"]), op[0]["vec"]["name"]))
        o, params = obs[0]
        v = o["vec"]
        if what == "request":
            sig = "%s %s [name=%s]" % (prop, "+".join(clauses), show_name(v["name"]))
        else:
            sig = "%s %s [%s result=%s]" % (prop, "+".join(clauses), what, o["result"])
        rep.violation(sig, {
            "failing_clauses": list(clauses), "failing_cases": len(obs),
            "simplest_failing_case": {"claimed_name": show_name(v["name"]), "claimed_name_bytes_hex": bytes(v["name"]).hex(), "mock_reply_script": v["script"],
                                      "server_id_hex": v["sid"], "shared_secret_hex": v["secret"], "encoded_public_hex": v["pubkey"][:80] + (".." if len(v["pubkey"]) > 80 else "")},
            "request_targets_received_by_the_mock": [show_target(t) for t in o["requests"]],
            "parameters_as_the_specification_reads_them": [[[show_name(k), show_name(val)] for k, val in p] for p in params],
            "expected": {"path": "/session/minecraft/hasJoined", "username": show_name(v["name"]), "serverId": bytes(o["hash"]).decode("latin1")},
            "adapter_result": o["result"], "adapter_error": o["error"], "returned_profile": o["profile"],
            "further_failing_names": [show_name(x["vec"]["name"]) for x, _ in obs[1:40]],
            "seed": seed,
            "how_to_replay": "bin/check %s %s  (VERIF_SEED=%d; case i=%d; harness `hx-http --in cases.ndjson --out observed.ndjson`, then Trace_SessionUrl)" % (prop, tier, seed, v["i"])})
    # connection level: which name the session service is asked about after a cookie was presented and discarded (Conn.tla behaviours)
    hxc = vlib.cargo_build("hx-core")
    cm = vlib.run_tlc("MC_Conn", "MC_ConnQuickLogin.cfg", wd, workers=4, timeout=900)
    if not cm.ok:
        raise vlib.ToolError("TLC reports %s on MC_ConnQuickLogin.cfg:\n%s" % (cm.violated, cm.output[-2000:]))
    # every behaviour in which the client answers the Encryption Request (whatever it answers: the service may only ever be asked with
    # this connection's secret and key)
    behs = [b for b in cm.marked["REPLAY"] if any((ev["e"] == "call" and ev["c"]["a"] == "auth") or (ev["e"] == "rx" and ev["f"].get("k") == "EncryptionResponse")
                                                  for r in b["hist"] for ev in r["obs"])]
    cinp, coutp = os.path.join(wd, "conn_in.ndjson"), os.path.join(wd, "conn_obs.ndjson")
    vlib.write_ndjson(cinp, behs)
    vlib.run_bin(hxc, ["conn", "--in", cinp, "--out", coutp, "--seed", str(seed), "--threads", "12"], timeout=1800)
    cobs = vlib.read_ndjson(coutp)
    ct = vlib.run_tlc("Trace_ConnProps", "Trace_ConnProps.cfg", wd, workers=1, timeout=900, markers=("FAIL", "NOTCONSUMED"),
                      env_extra={"TRACE": coutp, "PROP": "C12"}, java_opts=["-Xss1g", "-Dtlc2.tool.queue.IStateQueue=StateDeque"])
    if not ct.ok or ct.marked["NOTCONSUMED"] or ct.distinct != len(cobs) + 1:
        raise vlib.ToolError("Trace_ConnProps did not consume all %d records:\n%s" % (len(cobs), ct.output[-2000:]))
    import conn_check
    for f in ct.marked["FAIL"]:
        o = cobs[f["line"] - 1]
        rep.violation("C12 C12_AsksAboutClaimedName [%s]" % conn_check.describe(behs[o["i"]]), {"failing_clauses": sorted(f["clauses"]), "abstract_behaviour": behs[o["i"]], "observed": o, "seed": seed})
    rc = rep.finish()
    for c, obs in sorted(notes.items()):
        o = obs[0]
        if c == "Note_HashIsSignedHex":
            print("NOTE model-drift: %s: for %d case(s) minecraft_hash's text differs from McHash!SignedHex of the hashlib digest (e.g. digest %s -> %s); "
                  "that is C11's subject, C12 compares the request with the code's own hash" % (c, len(obs), bytes(o["vec"]["digest"]).hex(), bytes(o["hash"]).decode("latin1")))
        elif c.startswith("Note_ErrorOnBadReply"):
            print("NOTE: %s: %d unusable session-server answer(s) did not make the adapter return an error (result=%s); outside C12's statement" % (c, len(obs), o["result"]))
        else:
            print("NOTE model-drift: %s: %d request(s) answered with a valid profile did not yield that profile (e.g. name %s: result=%s %s); C12 does not cover it"
                  % (c, len(obs), show_name(o["vec"]["name"]), o["result"], o["error"]))
    no_request = [o for o in observed if not o["requests"]]
    if no_request:
        print("NOTE: %d call(s) made no request at all (e.g. name %s: result=%s %s); not a C12 violation as long as an error is returned"
              % (len(no_request), show_name(no_request[0]["vec"]["name"]), no_request[0]["result"], no_request[0]["error"]))
    by_kind = {}
    for c in cases:
        by_kind[c["kind"]] = by_kind.get(c["kind"], 0) + 1
    want = ["alphabet", "crafted", "utf8-4", "255bytes"]
    samples = []
    for o in observed:
        k = o["vec"]["kind"]
        if k in want and (k != "alphabet" or len(o["vec"]["name"]) >= 3):
            want.remove(k)
            samples.append({"kind": k, "claimed_name": show_name(o["vec"]["name"]), "script": o["vec"]["script"],
                            "targets_received": [show_target(t)[:300] for t in o["requests"]], "result": o["result"]})
    samples.append({"kind": "bad reply", "script": observed[-1]["vec"]["script"], "claimed_name": show_name(observed[-1]["vec"]["name"]),
                    "targets_received": [show_target(t)[:300] for t in observed[-1]["requests"]], "result": observed[-1]["result"], "error": observed[-1]["error"]})
    cov = {
        "states": mc.distinct + tr.distinct,
        "transitions": mc.generated + tr.generated,
        "traces_validated_against_impl": len(observed),
        "samples": samples,
        "evaluations": sum(len(o["requests"]) for o in observed),
        "distinct_nontrivial": len({bytes(c["name"]) for c in cases if any(x in b"&=#?%+ /" or x < 32 or x > 126 for x in c["name"])}),
        "rule": "model: every name of up to %d symbols over Sigma (a & = # ? %% + space / U+00E9 LF) x 3 hashes checked by TLC (Build and BuildPlus are read back exactly; "
                "literal interpolation is read back exactly for Harmless names); binding: all %d exported names + %d seeded crafted/random Unicode names (script ok) and "
                "%d bad-reply cases go through the real MojangAdapter::authenticate to a loopback mock; TLC parses every recorded target (Trace_SessionUrl); "
                "evaluations = request targets parsed; non-trivial = distinct names containing a reserved, control or non-ASCII byte"
                % (maxlen, len(exported), N_RANDOM[tier], len(BAD_SCRIPTS) * N_BAD[tier]),
        "exhaustive": False,
        "model_exhaustive_over_alphabet_up_to_length": maxlen,
        "cases_by_name_kind": by_kind,
        "bad_reply_scripts": BAD_SCRIPTS,
        "configurations": len(configs),
        "cases_without_request": len(no_request),
        "cases_without_request_examples": [show_name(o["vec"]["name"]) for o in no_request[:10]],
        "tlc": ["%s: %s, %d names exported, %.1fs" % (cfg, mc.summary(), len(exported), mc.wall), "Trace_SessionUrl: %d records judged in %.1fs" % (len(observed), tr.wall)],
        "failing_groups": {"%s %s" % ("+".join(c), w): len(o) for (c, w), o in groups.items()},
        "model_drift": {c: len(o) for c, o in notes.items()},
        "known_findings_hit": {k: n for k, (_, n) in rep.known_hit.items()},
    }
    vlib.write_evidence(prop, tier, "model_checking", cov, time.time() - t0, len(rep.violations),
                        assumptions=["the session server reads the target as SessionUrl.tla says (G1-G5: first '?', WHATWG form decoding with '+' = space, duplicates kept); "
                                     "a server that decodes differently (e.g. keeps '+') would accept/refuse other encodings of a space",
                                     "the request is observed through the passage_verif hook, which replaces scheme and authority only (plain HTTP to loopback instead of TLS to Mojang)",
                                     "a call that makes no request at all is not a C12 violation (C12 speaks about the request when it is made) but must return an error",
                                     "the expected serverId is what the public minecraft_hash returns for the connection's inputs; its agreement with McHash!SignedHex is C11 "
                                     "(reported here as a note only)"])
    vlib.cleanup(wd)
    return rc
