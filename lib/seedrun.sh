#!/bin/sh
# seedrun.sh <round> <prop> [confirm|eval|both] [checks]  -- confirm and/or evaluate all delivered changes of one sub-agent
R=$1; P=$2; M=${3:-both}; CH=${4:-$P}
cd /verif
for k in 1 2 3; do
  [ -f /tmp/seed$R-$P/mut$k.diff ] || continue
  if [ "$M" != "eval" ]; then
    crate=$(jq -r '.crate // "passage-protocol"' /tmp/seed$R-$P/meta$k.json)
    echo "== confirm $P $k crate=$crate"
    SEED_ROUND=$R python3 lib/seedtool.py confirm $P $k --crate "$crate" | jq -c '{suite_with_change, demo_with_change, demo_without_change, error}'
  fi
  if [ "$M" != "confirm" ]; then
    echo "== eval $P $k"
    SEED_ROUND=$R python3 lib/seedtool.py eval $P $k --checks $CH | jq -c 'to_entries[] | {c: .key, caught: .value.caught, l: (.value.lines[1] // .value.lines[0])}' | cut -c1-400
  fi
done
