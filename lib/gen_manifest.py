#!/usr/bin/env python3
"""Regenerates MANIFEST.json from the table below (single source of truth for claimed checks)."""
import json
import os

VERIF = os.path.dirname(os.path.dirname(os.path.abspath(__file__)))

CONN_NOTE = ("Trusted: TLC; the scripted client, reference codec / CFB8 / HMAC and recording adapters of harness/hx-core; the abstraction "
             "tables (label <-> concrete value) fixed before each run. Classes, not all byte strings: each abstract class is concretised with "
             "seeded values; wall-clock cookie ages keep a 3 s margin from the expiry boundary.")

CHECKS = {
    "C01": dict(engine="conn", design="5 C01", technique="TLC model checking of Conn.tla + exhaustive behaviour replay into the real Connection + TLC trace validation against ConnProps.tla",
                text="TLC enumerates every behaviour of the per-connection model (all handshake intents, cookie classes, encryption-response classes, "
                     "authentication verdicts, deviations) and checks the C01 clauses on the design; every behaviour is replayed into the real Connection "
                     "with recording adapters and an independent client; TLC then judges each recorded history against the same C01 clauses "
                     "(grant only under the identity vouched on this connection, player argument of filter/select, auth-service arguments, no grant after failure).",
                note=CONN_NOTE),
    "C02": dict(engine="conn", design="5 C02", technique="TLC model checking of Conn.tla + exhaustive behaviour replay + TLC trace validation against ConnProps.tla",
                text="All intents x secret configured or not x 15 cookie classes (absent, empty, truncations, bit flips of tag and body, other secret, other IP, other port, "
                     "expired, just inside, non-JSON / truncated / incomplete JSON under a valid tag, fresh) are enumerated by TLC, built with an independent HMAC, "
                     "replayed, and the recorded histories judged by TLC: should_authenticate flag, fallback to authentication, verdict required, identity from the cookie. Also: two-connection histories in which the cookie the server ISSUED is presented again (within / beyond the expiry, from another address, after the secret was rotated or removed); an altered body under the tag of a genuine cookie that this process accepted a moment earlier; a cookie signed with the empty key when no secret is configured; look-alike addresses (::a.b.c.d); application stage: the age that counts is the age when the cookie is PRESENTED (a client idling inside the connection).",
                note=CONN_NOTE),
    "C03": dict(engine="conn", design="5 C03", technique="TLC model checking of Conn.tla + exhaustive behaviour replay + TLC trace validation against ConnProps.tla",
                text="Every discovery list (empty, duplicates, IPv4/IPv6, error) x filter outcome x strategy outcome (first, last, outside the candidates, none, error) x client locale "
                     "is enumerated by TLC and replayed; TLC judges candidate hand-over, the single final Transfer to the chosen address, the localized Disconnect, no Transfer on failure. Also: C03_EveryStageConsulted (the Transfer / no-target Disconnect only after discovery, filters AND strategy were consulted, an empty list included); application stages: configured localization tables through passage::start, and the final packet whatever its size under a small configured maximum frame length.",
                note=CONN_NOTE),
    "C04": dict(engine="conn", design="5 C04", technique="TLC enumeration of malformed-frame classes at every protocol step + replay with counting allocator + TLC trace validation",
                text="At every await of the handler TLC places every malformed class (negative/zero/oversize/2^31-1/over-long outer length, truncated frame, EOF, negative/huge/"
                     "beyond-frame inner length, invalid UTF-8, short body, bad ordinal) and every unexpected packet kind; the real handler is run on the concrete bytes "
                     "(before and after encryption) under a counting allocator; TLC judges: no panic, ends by itself, nothing runs after EOF, largest allocation <= 4*max+64KiB, no reply, error. Also: unusual reported locales on complete logins (multi-byte before '_', thousands of '_') with C04_ProportionateMemory (peak live bytes of the handler thread); frames split around a keep-alive tick followed by an oversize frame under virtual time.",
                note=CONN_NOTE + " Memory is measured (largest single request), not proved."),
    "C05": dict(engine="cipher", design="5 C05", technique="TLC model checking of Cipher.tla (poll-level: Pending / partial accept / read sizes / switch point) + replay of every schedule against the real CipherStream with an independent CFB8 + TLC trace validation",
                text="TLC enumerates every poll schedule for small writes (inner transport returns Pending, accepts any prefix; reads of every size down to one byte into "
                     "pre-filled buffers; arrival portions; switch from plaintext at every point) and checks that the accepted bytes are the one continuous stream over the plaintext "
                     "reported as written and that reads surface the matching decryption. Each schedule is replayed against the real CipherStream over a scripted transport (each abstract "
                     "byte = 1, 7, 16 or 17 concrete bytes, crossing the AES block size) plus seeded random 1-4 KiB schedules; after every poll the accepted / surfaced bytes are compared "
                     "with an independent AES-128-CFB8 built on the raw block function; TLC judges every recorded poll. A second config shows the model rejects the as-found structure.",
                note="Trusted: TLC; the independent CFB8 of harness/hx-core/src/refcodec.rs (validated: agrees with the crate on whole writes); the scripted transport. CFB8 feedback state is "
                     "abstracted to a keystream position in the model; the concrete comparison is done on real bytes."),
    "C06": dict(engine="conn", design="5 C06", technique="TLC model checking of Conn.tla (all serverbound kind sequences to termination) + replay + TLC trace validation",
                text="TLC enumerates all sequences of serverbound packet kinds of all phases (17 kinds, by wire id per phase) up to the depth at which the connection has ended; "
                     "each is replayed; TLC judges the clientbound order language, Login Success only after an honest response, routing only after Login Acknowledged and Client "
                     "Information, the status exchange, silent termination on deviations. Also: after a deviation the handler must have ENDED (a client that carries on is answered by nobody); application stage: a client that stops at any point of the script receives nothing more until the server closes at its deadline.",
                note=CONN_NOTE),
    "C07": dict(engine="timed", design="5 C07", technique="TLC model checking of ConnTimed.tla (tokio Skip interval, echo policies, stage latencies) + every schedule run on the real Connection under tokio virtual time + TLC trace validation against ConnTimedProps.tla",
                text="TLC enumerates every combination of authentication latency (late first tick), arrival of Login Acknowledged and Client Information, three routing-stage latencies (0 to 3 "
                     "periods) and client echo policy (prompt, slow, late, never, wrong id, duplicate, unsolicited) and checks the C07 clauses on the design; each schedule is run on the real "
                     "Connection with scripted adapters and a reactive client under the paused tokio clock; TLC judges every timestamped history: a Keep Alive at least every 16 s while waiting, "
                     "never two unechoed, an echoing client survives and gets its Transfer when routing completes, an unechoed Keep Alive leads to the timeout Disconnect within 16 s.",
                note="Trusted: TLC; tokio's paused clock; the scripted client acts a quarter second after whole seconds so nothing coincides with a deadline. The phase of the timer is not "
                     "demanded (a 15 s interval passes; exact agreement with the precise timeline is reported as model drift only)."),
    "C08": dict(engine="frames", design="5 C08", technique="TLC model checking of Frames.tla (byte transport under select! cancellation) + the cancel situations it reaches instantiated as timed schedules on the real Connection next to an unsegmented reference run + TLC trace validation",
                text="Frames.tla models delivery in arbitrary segments, byte-wise reads, the tick and routing completions that drop raced futures, and partial clientbound writes; TLC checks "
                     "exactly-once in-order consumption, whole uninterleaved clientbound frames and tick serviceability for the cancel-safe design (and that the as-found structure violates "
                     "them). Every cancel situation TLC reaches (winner x reader position x prefix length x half-written frame) is instantiated with concrete frames, cut offsets (thorough: "
                     "every offset) and pauses in which the event falls, run next to the same scenario with whole frames; TLC judges: same packets, same service calls, same outcome, stream "
                     "decodes without remainder, C07 timer clauses hold on the segmented run.",
                note="Trusted: TLC; the scripted transport; the reference execution is the implementation's own unsegmented run at the same completion times (hyperproperty checked as a pair). "
                     "Timer clauses are not judged when the transport itself withholds clientbound bytes."),
    "C11": dict(engine="mchash", design="5 C11", technique="TLC model checking of McHash.tla (byte-level SignedHex against the arithmetic definition on all 65,792 one- and two-byte digests, edge digests, published examples) + hashlib-generated inputs run through the real minecraft_hash + TLC trace validation recomputing SignedHex(digest)",
                text="Inputs are searched so every digest class is present (top bit set or clear, 1/2/3/4+ leading zero nibbles, leading 00 and ff bytes, 00 8x, ff 7x, 80, 7f, trailing 00), "
                     "with fixed rare-prefix vectors and the three published vectors; TLC computes SignedHex of the hashlib digest and judges C11_EqualsSignedHex, C11_NoLeadingZeros, "
                     "C11_SignIffTopBit, C11_Lowercase on what the code returned.",
                note="Trusted: TLC and hashlib SHA-1 (SHA-1 is uninterpreted in the model). The exact digest 0x80 00..00 has no known preimage and is covered on the model side only."),
    "C12": dict(engine="sessionurl", design="5 C12", technique="TLC model checking of SessionUrl.tla (server-side parser + prescribed builder, all names up to 4 symbols over an 11-symbol reserved alphabet x 3 hashes) + the real MojangAdapter::authenticate against a loopback mock via the passage_verif hook + TLC trace validation parsing the recorded raw request target",
                text="Every TLC-exported name plus seeded crafted/random Unicode names (control characters, 4-byte UTF-8, 255-byte names, injection strings) is claimed through the real adapter; "
                     "the mock records the raw request target; TLC parses it with the specification's grammar and judges C12_PathFixed, C12_OneUsername, C12_UsernameDecodesToName, "
                     "C12_OneServerId, C12_ServerIdIsHash, C12_NoOtherParams.",
                note="Trusted: TLC; the hook replaces only scheme and authority of the URL; the grammar decisions G1-G5 documented in SessionUrl.tla (WHATWG form decoding; space as %20 or +). "
                     "The expected serverId is the code's own minecraft_hash output (its correctness is C11). How unusable answers are treated is reported as a note, it is not part of C12."),
    "C09": dict(engine="wire", design="5 C09", technique="TLC evaluation of the reference codec Wire.tla over boundary-dense domains + replay of every exported vector into passage-packets + TLC trace validation against Wire's Encode/Decode",
                text="TLC checks Decode(Encode(v))=v with full consumption, VarInt<=5 / VarLong<=10 bytes, shortest form and rejection of ordinals outside each enum for all 41 packet "
                     "structs (base value, every field through its boundary domain, diagonals, products of neighbouring fields), VarInt/VarLong within +-300 of every 7-bit/byte/word "
                     "boundary and the extremes; each vector is replayed (write_to_buffer, T::ID, read_from_buffer on the specification's bytes, write_/read_varint/varlong); TLC judges "
                     "every recorded observation against Encode/Decode recomputed from the recorded input.",
                note="Trusted: TLC; the abstraction table in harness/hx-core/src/wire.rs; text->UTF-8 transcription in lib/gen_wiredata.py. Placeholder unit packets = id + empty body; "
                     "text components: TAG_String and one-entry string compounds; boundary-dense, not all 2^32/2^64 values (TLC cannot enumerate them); over-long VarInts are model drift only."),
    "C13": dict(engine="ratelimiter", design="5 C13", technique="TLC exhaustive model checking of RateLimiter.tla (relative time, no time bound) + TLC simulation walks and seeded random histories run on the real RateLimiter under virtual time + TLC trace validation against RateLimiterProps.tla",
                text="The sliding-window-counter design is checked exhaustively with no bound on time (ages capped where the algorithm cannot tell the difference): per-window bound, 2*limit per "
                     "interval, idle re-admission, isolation from other keys and cleanup (shadow single-key limiter), tracked keys fresh. Walks through the model and random histories "
                     "(1-16 keys, zero / sub-window / exactly-D / multiples / >4D steps) are run on the real limiter; TLC judges every recorded history with the property-level clauses "
                     "(window starts defined from the attempts, decisions compared with an isolated instance, published gauge bounded by keys that attempted within 4D).",
                note="Trusted: TLC; tokio's paused clock; the OpenTelemetry manual reader used to read the rate_limiter_size gauge. Window lengths are dyadic multiples of the tick so the "
                     "f32 arithmetic of the code is exact; f32 rounding for other lengths is a numeric question this technique does not decide."),
    "C14": dict(engine="listener", design="5 C14", technique="TLC model checking of Listener.tla (deadline, configuration reaches the connection) + the whole application started from a configuration value on loopback TCP + TLC trace validation",
                text="Listener.tla is checked by TLC (every connection closed by accept + timeout whatever the client does; liveness without fairness for hostile clients). The real application "
                     "(passage::start(Config)) is started per scenario with a configured maximum frame length, cookie expiry, secret and timeout; scripted TCP clients send frames of exactly "
                     "max and max+1 bytes, present cookies on both sides of the CONFIGURED expiry / under another secret / for another IP, and go silent, trickle one byte at a time, stop "
                     "at each protocol step or echo forever; TLC judges served-iff-within-limit, cookie acceptance against the configured values, and closure within the timeout.",
                note='Trusted: TLC; the scripted TCP client of harness/hx-core (lib) and real loopback TCP; real time with 700-1000 ms of slack against failure modes that are unbounded waits or whole-timeout differences. The full Listener model is explored exhaustively only for 2-3 clients; scenario families are enumerated lists / TLC simulation, not exhaustive.'),
    "C15": dict(engine="listener", design="5 C15", technique="TLC simulation of Admission.tla (arrival histories) + TLC model checking of Listener.tla + the real Listener on loopback with PROXY v1/v2 headers built by the harness + TLC trace validation recomputing admission",
                text="Arrival histories (peers p1/p2, PROXY v1 / v2 / invalid / garbage / absent headers, announced IPv4 and IPv6 sources, the same IP from another port, status and full login "
                     "connections) are generated by TLC per PROXY mode (off, v1 only, v2 only, both) and limit, and played in order against the real Listener with recording adapters; TLC "
                     "recomputes the admission decision from the recorded history with Admission.tla and judges: served iff admitted on the effective address, refused / header-less "
                     "connections get zero bytes and reach no backend, invalid or disabled-version headers consume no budget, adapters and the issued authentication cookie see the "
                     "announced source address.",
                note='Trusted: TLC; the scripted TCP client of harness/hx-core (lib) and real loopback TCP; real time with 700-1000 ms of slack against failure modes that are unbounded waits or whole-timeout differences. The full Listener model is explored exhaustively only for 2-3 clients; scenario families are enumerated lists / TLC simulation, not exhaustive.'),
    "C16": dict(engine="listener", design="5 C16", technique="TLC model checking of Listener.tla incl. liveness (weak fairness for the server and well-behaved clients only) + hostile sockets parked at every stage against the real Listener + TLC trace validation",
                text="TLC checks that the accept loop is never in a state only a client can end and that a well-behaved client is resolved whatever the others withhold (and that the as-found "
                     "structure with the header awaited inline fails). Against the real Listener hostile sockets are parked before the PROXY header, inside it, mid-frame, mid-login and "
                     "never echoing -- alone, together, repeated -- with and without PROXY protocol and limiter; then a well-behaved status exchange is timed; TLC judges served within 2 s.",
                note='Trusted: TLC; the scripted TCP client of harness/hx-core (lib) and real loopback TCP; real time with 700-1000 ms of slack against failure modes that are unbounded waits or whole-timeout differences. The full Listener model is explored exhaustively only for 2-3 clients; scenario families are enumerated lists / TLC simulation, not exhaustive.'),
    "C17": dict(engine="listener", design="5 C17", technique="TLC model checking of Listener.tla incl. liveness stop ~> returned and the action property that the stop cancels nothing + in-flight / late-arrival scenarios against the real Listener + TLC trace validation",
                text="In-flight connections are parked at chosen stages (silent, mid-login, cooperating and waiting on a slow discovery, about to be transferred), the stop is requested at a "
                     "chosen moment, late clients connect 200+ ms afterwards; also shutdown with hostile peers parked. TLC judges: listen() returns, not before the last in-flight "
                     "connection finished and within the timeout, cooperating clients still get their Transfer, late arrivals receive no byte.",
                note='Trusted: TLC; the scripted TCP client of harness/hx-core (lib) and real loopback TCP; real time with 700-1000 ms of slack against failure modes that are unbounded waits or whole-timeout differences. The full Listener model is explored exhaustively only for 2-3 clients; scenario families are enumerated lists / TLC simulation, not exhaustive.'),
    "C18": dict(engine="routing", design="5 C18", technique="TLC model checking of Routing.tla over a finite domain + replay of exported scenarios through DynFilterAdapters/DynStrategyAdapter::from_config + TLC trace validation recomputing eligibility",
                text="spec/Routing.tla (eligibility from rules, allow/block lists, host scope; acceptable choices per strategy) is checked by TLC; every explored scenario is exported as the "
                     "serde configuration plus targets, player and host, replayed into adapters built from that configuration, and the recorded (filtered, chosen) is judged by TLC through "
                     "Trace_Routing, which recomputes eligibility (ties under player-fill are all acceptable; unreadable counts admit both documented readings). Application stage: 240 (quick) / "
                     "4,000 (thorough) of the scenarios are also run through passage::start(Config) on loopback with a real login as the authenticated player (the client claims another "
                     "identity); where the player is sent is judged by the choice clauses of Routing.tla.",
                note="Trusted: TLC; pattern / decimal-count / UUID tables generated by Python and re-checked against the Rust regex, u32 parser and uuid crate on every run. Sampled product of a "
                     "~10^14 scenario space seeded by VERIF_SEED; the strategy-focus set is exhaustive. Filter order/multiplicity differences are model drift only (C03 covers list hand-over)."),
    "C19": dict(engine="grpc", design="5 C19", technique="TLC model checking of GrpcBoundary.tla (conversions, error cases, exchange machine) + exhaustive script replay against the real gRPC adapters and an in-process tonic service generated from the repository's .proto files + TLC trace validation against the C19 clauses",
                text="TLC checks FromWire(ToWire(t)) = t over 15 IPs x ports x metadata x identifiers, and the error cases over 49 textual host forms (IPv4 dotted; IPv6 compressed, full-length, "
                     "upper-case, mapped, bracketed; host names; garbage) x ports {0, 1, 25565, 65535, 65536, 91101, 2^31-1, 2^32-1} x metadata with duplicate keys / Unicode. One script per "
                     "exchange (discover lists up to 3; select with candidate lists up to 3; pick = echo, re-spelled candidate, foreign target, none, malformed) is played through the real "
                     "GrpcDiscoveryAdapter / GrpcStrategyAdapter / GrpcStatusAdapter against recording mock services; TLC judges every recorded exchange.",
                note="Trusted: TLC; the tonic server stubs generated from the repository's .proto files and the loopback transport; the host-form table (canonical IPs cross-checked with Python "
                     "ipaddress). Not judged: DNS host names, zone ids and inet_aton spellings in Address.hostname; the protocol number and the status service are drift notes only."),
    "C10": dict(engine="conn", design="5 C10", technique="TLC model checking of two-connection histories (Conn.tla, MaxRounds=2) + replay presenting the stored bytes + TLC trace validation",
                text="TLC enumerates two-connection histories (authenticate and get transferred; reconnect with exactly the stored bytes after a change of IP / age / secret); the "
                     "harness checks the issued cookie with an independent HMAC and generic JSON parsing; TLC judges issue conditions, contents, and acceptance on the next transfer. Also: identity variants (nil UUID, empty name, a profile without properties).",
                note=CONN_NOTE + " 'beyond expiry' is realised with expiry 1 s and a real 2.2 s pause."),
    "C20": dict(engine="agones", design="5 C20",
                technique="TLC model checking of Agones.tla (API server, LIST/WATCH protocol, kube watcher, event handler, cache) + TLC-exported histories replayed through a loopback mock Kubernetes API into the real AgonesDiscoveryAdapter + TLC trace validation against AgonesProps.tla",
                text="TLC checks exhaustively that the event-driven design satisfies Quiescent => cache = ReadySet and cache = ReadySet(observed) at all times (2 GameServers, 4-6 shape classes, "
                     "3-4 writes, drops / 410 re-lists / bookmarks). TLC random walks over the same design export API-level histories (create/modify/delete over 12 object shapes incl. Creating, "
                     "Reserved, Shutdown, Unhealthy, bad address, no ports as null/absent/[]; LIST answered; connection reset/EOF; 410 Gone; BOOKMARK). A seeded feature-covering selection "
                     "(36 quick / 400 thorough) is replayed: after every step discover() is polled until it settles and recorded; TLC judges each step with the clauses OffersExactlyReady, "
                     "CurrentAddressPort (first port), CurrentMetadata, DeletedNotOffered, UnconvertibleNotOffered, KeptWhileRelisting.",
                note="Trusted: TLC; the hand-rolled mock API server of harness/hx-agones (chunked watch, 410 as ERROR Status event, bookmarks, resourceVersions) and the label<->value tables fixed "
                     "before the run. Histories are sampled (simulation + selection), not exhaustive; convergence is awaited up to 12 s per step (kube back-off 0.8 s doubling), 30 s hard cap; "
                     "transient states between steps are only judged while a re-LIST is outstanding; metadata is judged as the exact string map lib.rs documents."),
}

# further stages added while strengthening against seeded changes (all judged by TLC on recorded observations)
EXTRA = {
    "C01": " Further stages: timed runs (ConnTimed schedules; a client idling inside the login phase); the real MojangAdapter against a loopback session server with 16 answer scripts "
           "(an identity is reported only if the answer carried it: Trace_SessionUrl!C01_IdentityOnlyFromReply).",
    "C02": " The scripted client also answers an authentication-cookie request the model does not expect (Login intent). Further stage: the address a cookie is bound to behind a balancer, "
           "through the real Listener with PROXY headers (Trace_Listener!C02_BoundToEffectiveAddress).",
    "C03": " Further stages: timed runs incl. a transport that stalls in the middle of a Keep Alive while discovery / filtering / selection completes, released before or after the Transfer is "
           "queued; the built-in localization adapter's fallback chain (Builtins.tla, 10 k cases); configured messages end in characters whose modified-UTF-8 form differs from UTF-8.",
    "C04": " Further stages: 400 (quick) / 20,000 (thorough) byte-level fuzz inputs around valid prefixes; a watchdog pool that reports a handler spinning after EOF; frames around the "
           "CONFIGURED maximum through passage::start (Trace_Listener!C04_ConfiguredMaximumGoverns).",
    "C05": " Further stage: the encrypted stream at connection level -- all Frames.tla schedules (pipelined plaintext/ciphertext switch inside one segment, split writes, write stalls, segmented "
           "reads) run in pairs against their whole-frame reference and judged by Trace_Frames.",
    "C06": " Further stage: timed runs incl. a client that idles 17-49 s before Login Start or before the Encryption Response (no Keep Alive or Disconnect belongs into the login phase).",
    "C07": " Further schedules: write stalls (the Keep Alive half written while discovery completes) under 5 echo policies; echoes that arrive in two pieces around a routing completion.",
    "C08": " Write-stall family: stall x completing step (discovery / filtering / selection) x release (early, or only after everything is queued) x echoing / silent client, also with routing "
           "outlasting the next deadline.",
    "C09": " String domains include 32,800 bytes in 16,400 UTF-16 units (quick) and the longest string, 98,301 bytes (thorough).",
    "C10": " Client addresses include IPv4-mapped IPv6; secrets of 1 / 32 / 200 bytes incl. leading / trailing whitespace. Further stage: the address the issued cookie records behind a balancer, "
           "through the real Listener (Trace_Listener!C10_RecordsEffectiveAddress).",
    "C11": " Further stages: the has-joined request of the real MojangAdapter (one adapter instance per server id, as the application uses it) carries SignedHex of the hashlib digest; a server id "
           "given through the environment layer reaches the adapter verbatim (Trace_ConfigLayers; skipped with a note if that variable is not effective in the tree).",
    "C12": " Connection level: every behaviour with an Encryption Response (incl. wrong-length secrets, a 17-byte secret with a leading zero) -- the service is only ever asked about the claimed "
           "name with this connection's secret and key.",
    "C13": " Further stages: Admission histories against the real Listener (keyed by effective address); the configured seconds and limit through passage::start (C13app: first `limit` admitted, "
           "never more than 2*limit per configured duration, re-admitted after two idle durations).",
    "C14": " Also: a cookie that expires while the client idles inside the connection (age at presentation), a five-byte prefix with the sign bit set, and 'closed for good' (writes after the "
           "server's end of stream must fail: not a half-close with the handler still reading).",
    "C15": " Also: n connections decided at the same moment (a tracing layer stalls inside RateLimiter::enqueue); the PROXY version switches and the limiter as passage::start wires them, incl. "
           "PROXY protocol on with neither version allowed.",
    "C16": " Also: bursts of connections reset before the accept loop takes them, 40 clients that request a 2 MB status and never read it, half-closing clients, a flood from one announced "
           "address, and a second well-behaved client after a quiet period longer than the deadline.",
    "C17": " Also: staggered in-flight starts, a PROXY header that arrives after the stop, a configured deadline (14 s) longer than the built-in default with a connection that needs 11.5 s after "
           "the stop, and SIGINT to passage::start with an exchange in flight.",
}

# added in round 6 of the seeded changes
EXTRA6 = {
    "C01": " Scripted services that failed stay down (every adapter error kind); every third behaviour runs right after a neighbour connection abandoned with output queued.",
    "C02": " The harness records when each service ANSWERED; C02_VerdictRequired demands the answer before any grant (timed schedules with slow authentication and a verdict that differs from the claim).",
    "C03": " One localization adapter for all cases of a configuration (both orders); configured messages that start like JSON values.",
    "C04": " Out-of-range ordinals (negative, minimum, just above, far above) in each enumerated setting; every handshake address length 1..255.",
    "C06": " Every handshake address length 1..255 (every first byte of the length prefix).",
    "C07": " C07_WindowNotCutShort (timeout no earlier than P-1 s after its Keep Alive), C07_DueKeepAliveSentWhenWritable, write stalls that accept no byte at all.",
    "C08": " A Login Acknowledged completed just before the next deadline, with routing that outlasts several more.",
    "C09": " write_packet into a sink that takes a few bytes per call (the frame arrives whole, the reported length is its length).",
    "C10": " Issued cookies of 1 KB .. 8 KB (padded profiles; 5093..5120 bytes among them) come back and are answered.",
    "C11": " Shared secrets of 15 / 17 / 32 / 0 bytes at connection level; the server id from the environment on top of a file, empty and with surrounding whitespace.",
    "C12": " Harmless prefixes of every length followed by URL syntax; a login right after one that was abandoned in mid-request on the same adapter.",
    "C13": " Limiters that have been up for 24.9 / 49.7 / 149 days; clients that hang up after the status; an IPv6 address sharing its low 32 bits with an IPv4 one.",
    "C14": " Secrets of 63 / 64 / 65 / 91 bytes and cookies signed under a secret that shares only the first 64 bytes.",
    "C15": " A header that arrives a limiter window after the accept; a version 2 header naming DGRAM; early hang-ups; look-alike addresses.",
    "C16": " The listener always runs on a runtime of its own; odd locales through the crate's built-in localization on a server without backends; 120,000 (thorough 400,000) distinct announced addresses.",
    "C18": " in / not_in value lists in any order.",
    "C19": " Every exchange in both orders on one adapter instance; a service that answers its first call UNAVAILABLE; requests of 5 MiB.",
    "C20": " ERROR watch events other than 410 behind a change event in the same chunk (WNoise); all 7-step histories with a re-list that pruned an offered server (MC_AgonesDirected3.cfg); empty lists spelled null.",
}
for _k, _v in EXTRA6.items():
    EXTRA[_k] = EXTRA.get(_k, "") + _v

# added in round 7
EXTRA7 = {
    "C01": " Behaviours in which the client deviates instead of answering the Encryption Request are replayed too; the probe also answers the Encryption Request.",
    "C07": " Client frames half received when a Keep Alive falls due.",
    "C13": " 70,000 (thorough 300,000) other keys next to an exhausted one; address-less headers beyond the limit; one address through two balancers; IPv4-mapped addresses.",
    "C15": " IPv4-mapped addresses ip4m / ip4n; one address through two balancers; address-less headers beyond the limit; listen() that returns before a stop is an observation.",
    "C16": " A second well-behaved client right behind the first; flood and well-behaved client in IPv4-mapped form.",
    "C17": " listen() that returns before a stop was requested is reported (L_ListensUntilStopRequested).",
    "C19": " The mock service is built from the published .proto files kept with the harness.",
}
EXTRA7.update({k: EXTRA7.get(k, "") + v for k, v in {
    "C02": " Secrets that differ only by surrounding whitespace are different secrets.",
    "C03": " Locales whose language code merely starts like one that has a table (fra_DE, dex).",
    "C04": " Listener stage: panics of connection tasks under every kind of PROXY header are counted (L_NoPanicInConnectionTasks).",
    "C06": " A 20 KB Status Response (three-byte length prefix); the write-stall schedules.",
    "C08": " A client frame of exactly 128 bytes cut after its first prefix byte.",
    "C10": " Handshake hosts with a trailing dot / a NUL-separated marker; profiles with two properties of the same name.",
    "C12": " A session adapter configured twice; logins that claim the id the service answers with, under changing names.",
    "C17": " Shutdown with clients that never read a 2 MB status.",
}.items()})
for _k, _v in EXTRA7.items():
    EXTRA[_k] = EXTRA.get(_k, "") + _v

NOT_YET = {
    "C05": "check not built yet (Cipher.tla planned)", "C07": "check not built yet (ConnTimed.tla planned)",
    "C08": "check not built yet (Frames.tla planned)", "C09": "check not built yet (Wire.tla planned)",
    "C11": "check not built yet (McHash.tla planned)", "C12": "check not built yet (SessionUrl.tla planned)",
    "C13": "check not built yet (RateLimiter.tla planned)", "C14": "check not built yet (Listener.tla planned)",
    "C15": "check not built yet (Listener.tla planned)", "C16": "check not built yet (Listener.tla planned)",
    "C17": "check not built yet (Listener.tla planned)", "C18": "check not built yet (Routing.tla planned)",
    "C19": "check not built yet (GrpcBoundary.tla planned)", "C20": "check not built yet (Agones.tla planned)",
}

ENGINES = [
    {"name": "listener", "path": "lib/listener_check.py", "serves_properties": ["C14", "C15", "C16", "C17"],
     "kind_free_text": "spec/Listener.tla + Admission.tla checked by TLC (safety + liveness); scenarios run by hx-core listener (real Listener) and hx-app serve (passage::start) on loopback TCP; records judged by TLC (Trace_Listener.tla)"},
    {"name": "timed", "path": "lib/timed_check.py", "serves_properties": ["C07"],
     "kind_free_text": "spec/ConnTimed.tla checked by TLC; schedules run by hx-core conn-timed under virtual time; histories judged by TLC (Trace_ConnTimed.tla / ConnTimedProps.tla)"},
    {"name": "frames", "path": "lib/frames_check.py", "serves_properties": ["C08"],
     "kind_free_text": "spec/Frames.tla checked by TLC; cancel situations instantiated as paired timed schedules (hx-core conn-timed --pair); pairs judged by TLC (Trace_Frames.tla)"},
    {"name": "mchash", "path": "lib/hash_check.py", "serves_properties": ["C11"],
     "kind_free_text": "spec/McHash.tla checked by TLC (MC_McHash, exhaustive on 1/2-byte digests); hashlib vectors run by hx-core hash; judged by TLC (Trace_McHash.tla)"},
    {"name": "sessionurl", "path": "lib/url_check.py", "serves_properties": ["C12"],
     "kind_free_text": "spec/SessionUrl.tla checked by TLC (MC_SessionUrl); exported + random names through the real MojangAdapter to a loopback mock (harness/hx-http); recorded targets parsed and judged by TLC (Trace_SessionUrl.tla)"},
    {"name": "cipher", "path": "lib/cipher_check.py", "serves_properties": ["C05"],
     "kind_free_text": "spec/Cipher.tla checked by TLC; poll schedules replayed by hx-core cipher against the real CipherStream; observations judged by TLC (Trace_Cipher.tla)"},
    {"name": "agones", "path": "lib/agones_check.py", "serves_properties": ["C20"],
     "kind_free_text": "spec/Agones.tla + AgonesProps.tla checked by TLC; histories exported (-simulate) and replayed by harness/hx-agones through a loopback mock Kubernetes API into the real AgonesDiscoveryAdapter; recorded offered sets judged by TLC (Trace_Agones.tla)"},
    {"name": "wire", "path": "lib/wire_check.py", "serves_properties": ["C09"],
     "kind_free_text": "spec/Wire.tla checked by TLC (MC_Wire); vectors replayed by hx-core wire; observations judged by TLC (Trace_Wire.tla)"},
    {"name": "ratelimiter", "path": "lib/rl_check.py", "serves_properties": ["C13"],
     "kind_free_text": "spec/RateLimiter.tla exhaustive in TLC; walks + random histories run by hx-core rl; histories judged by TLC (Trace_RateLimiter.tla / RateLimiterProps.tla)"},
    {"name": "routing", "path": "lib/routing_check.py", "serves_properties": ["C18"],
     "kind_free_text": "spec/Routing.tla checked by TLC; scenarios replayed by harness/hx-app; observations judged by TLC (Trace_Routing.tla)"},
    {"name": "grpc", "path": "lib/grpc_check.py", "serves_properties": ["C19"],
     "kind_free_text": "spec/GrpcBoundary.tla checked by TLC; scripts replayed by harness/hx-grpc against in-process tonic mocks; exchanges judged by TLC (Trace_GrpcBoundary.tla)"},
    {"name": "conn", "path": "lib/conn_check.py", "serves_properties": ["C01", "C02", "C03", "C04", "C06", "C10"],
     "kind_free_text": "spec/Conn.tla + ConnProps.tla checked by TLC; behaviours exported and replayed by harness/hx-core (hx conn); recorded histories judged by TLC (Trace_ConnProps.tla)"},
]


def main():
    hooks_commits = []
    hc = os.path.join(VERIF, "hooks_commits.txt")
    if os.path.exists(hc):
        hooks_commits = [l.split()[0] for l in open(hc) if l.strip() and not l.startswith("#")]
    m = {
        "version": 1,
        "setup_cmd": "bin/setup",
        "hooks": {
            "guard": "--cfg passage_verif",
            "enable": "harness/.cargo/config.toml sets rustflags = [\"--cfg\", \"passage_verif\", \"--check-cfg\", \"cfg(passage_verif)\"] for every harness build (path dependencies on /repo)",
            "baseline_off_cmd": "cd /repo && cargo test --workspace --no-fail-fast --offline",
            "source_commits": hooks_commits,
            "add_only": True,
        },
        "engines": ENGINES,
        "checks": [],
        "not_applicable": [{"property_id": k, "reason": v} for k, v in sorted(NOT_YET.items()) if k not in CHECKS],
        "notes": "All checks: exit 0 = held, exit 1 + VIOLATION line = violated, exit 2 = tool error. VERIF_SEED selects the concretisation. Replay files under out/replays/<id>/.",
    }
    for pid in sorted(CHECKS):
        c = CHECKS[pid]
        m["checks"].append({
            "property_id": pid,
            "quick_cmd": "bin/check %s quick" % pid,
            "thorough_cmd": "bin/check %s thorough" % pid,
            "evidence_file": "evidence/%s.json" % pid,
            "replay_cmd_template": "bin/check replay {path}",
            "engine": c["engine"],
            "level_claimed": {"category": "model_checking", "text": c["text"] + EXTRA.get(pid, ""), "design_ref": c["design"]},
            "level_note": c["note"],
            "technique": c["technique"],
        })
    with open(os.path.join(VERIF, "MANIFEST.json"), "w") as fh:
        json.dump(m, fh, indent=1)
        fh.write("\n")


if __name__ == "__main__":
    main()
