"""The environment layer of Config::read(), one field at a time: `hx-app config` in a child process with one PASSAGE_* variable set
(nothing else defines the field); what was resolved is judged by TLC (Trace_ConfigLayers, records of kind "env")."""
import json
import os
import subprocess

import vlib

# field -> (environment variable, values to try, how to read the field from hx-app config's output)
ENV = {
    "timeout": ("PASSAGE_TIMEOUT", ["31", "7"], lambda g: str(g["timeout"])),
    "address": ("PASSAGE_ADDRESS", ["127.0.0.1:1111", "[::1]:25565"], lambda g: g["address"]),
    "auth_secret": ("PASSAGE_AUTHSECRET", ["envsecret", "0042", "1e3", "true", "12.50"], lambda g: g["auth_secret"]),
    "limit": ("PASSAGE_RATELIMITER_LIMIT", ["5", "12"], lambda g: str(g["rate_limiter"]["limit"]) if isinstance(g["rate_limiter"], dict) else "<none>"),
    "duration": ("PASSAGE_RATELIMITER_DURATION", ["3", "45"], lambda g: str(g["rate_limiter"]["duration"]) if isinstance(g["rate_limiter"], dict) else "<none>"),
    "allow_v1": ("PASSAGE_PROXYPROTOCOL_ALLOWV1", ["false", "true"], lambda g: str(g["proxy_protocol"]["allow_v1"]).lower() if isinstance(g["proxy_protocol"], dict) else "<none>"),
    "allow_v2": ("PASSAGE_PROXYPROTOCOL_ALLOWV2", ["false", "true"], lambda g: str(g["proxy_protocol"]["allow_v2"]).lower() if isinstance(g["proxy_protocol"], dict) else "<none>"),
    "server_id": ("PASSAGE_ADAPTERS_AUTHENTICATION_MOJANG_SERVERID", ["lobby-1", "007", "1.50", "true", "0x1F", "1e3", "-0", "9007199254740993",
                                                                       "", " ", " lobby", "lobby ", "lobby\t", "my lobby"], lambda g: g["server_id"]),
}

# what a configuration FILE underneath says about the field (the environment layer is on top of it); fields not listed: nothing
FILE_UNDERNEATH = {
    "server_id": '[adapters.authentication.mojang]\nserverid = "from-file"\n',
}


def observe(fields, wd):
    """Returns records [{kind: env, field, given, got}] for every value of every field in `fields`."""
    ha = vlib.cargo_build("hx-app")
    cdir = os.path.join(wd, "cfgenv")
    os.makedirs(cdir, exist_ok=True)
    open(os.path.join(cdir, "empty.toml"), "w").write("")
    recs = []
    for f in fields:
        var, values, read = ENV[f]
        layers = [("empty.toml", values)]
        if f in FILE_UNDERNEATH:
            open(os.path.join(cdir, f + ".toml"), "w").write(FILE_UNDERNEATH[f])
            layers.append((f + ".toml", values))
        for fname, v in [(fn, v) for fn, vs in layers for v in vs]:
            env = {k: x for k, x in os.environ.items() if not k.startswith("PASSAGE_")}
            env["CONFIG_FILE"] = os.path.join(cdir, fname)
            env["AUTH_SECRET_FILE"] = os.path.join(cdir, "absent")
            env[var] = v
            p = subprocess.run([ha, "config"], env=env, cwd=cdir, stdout=subprocess.PIPE, stderr=subprocess.PIPE, timeout=60)
            try:
                g = json.loads(p.stdout.decode().strip().split("\n")[-1])
                got = read(g) if g.get("ok") else "error: " + g.get("error", "")[:120]
            except Exception as e:  # noqa
                got = "error: no output (%s)" % p.stderr.decode()[-120:]
            recs.append({"kind": "env", "field": f, "var": var, "given": v, "got": got, "file": "none" if fname == "empty.toml" else "defines it too"})
    return recs


def judge(recs, wd, name="cfgenv_obs"):
    """TLC judges the records; returns the list of (record, clauses) that fail."""
    path = os.path.join(wd, name + ".ndjson")
    vlib.write_ndjson(path, recs)
    t = vlib.run_tlc("Trace_ConfigLayers", "Trace_ConfigLayers.cfg", wd, workers=1, timeout=300, markers=("FAIL", "NOTCONSUMED"),
                     env_extra={"TRACE": path}, java_opts=["-Xss1g"])
    if not t.ok or t.distinct != len(recs) + 1:
        raise vlib.ToolError("Trace_ConfigLayers did not consume all %d records:\n%s" % (len(recs), t.output[-1500:]))
    return [(recs[f["line"] - 1], sorted(f["clauses"])) for f in t.marked["FAIL"]], t
