#!/usr/bin/env python3
"""seedround.py <round> <prop> [--checks C01,C02] [--only k] [--no-confirm]
Confirm (in the sub-agent's scratch worktree), evaluate (apply to /repo, run check(s), revert) and store every delivered change
of one sub-agent of a seeding round as seeded/<prop>-r<round>m<k>/ with meta.json (confirmed_by_me, detected_by)."""
import json
import os
import sys

os.environ["SEED_ROUND"] = sys.argv[1]
import seedtool  # noqa: E402


def main():
    rnd, prop = sys.argv[1], sys.argv[2]
    a = sys.argv[3:]
    checks = a[a.index("--checks") + 1].split(",") if "--checks" in a else [prop]
    only = a[a.index("--only") + 1] if "--only" in a else None
    for k in ("1", "2", "3"):
        if only and k != only:
            continue
        d = "/tmp/seed%s-%s" % (rnd, prop)
        if not os.path.exists("%s/mut%s.diff" % (d, k)):
            continue
        try:
            meta = json.load(open("%s/meta%s.json" % (d, k)))
        except Exception:
            meta = {}
        crate = meta.get("crate") or "passage-protocol"
        name = "%s-r%sm%s" % (prop, rnd, k)
        if "--no-confirm" in a:
            conf = json.load(open(os.path.join(os.environ.get("SEED_STORE", os.path.join(seedtool.VERIF, "seeded")), name, "meta.json"))).get("confirmed_by_me", {})
            ok = True
        else:
            rf = meta.get("rustflags")
            if not (isinstance(rf, str) and "--cfg" in rf) and "--cfg passage_verif" in json.dumps([meta.get("demo"), meta.get("commands_run")]):
                rf = "--cfg passage_verif"
            if isinstance(rf, str) and "--cfg" in rf:
                import re
                m = re.search(r"--cfg[ =]\w+", rf)
                rf = m.group(0) if m else None
            else:
                rf = None
            c = seedtool.confirm(prop, k, crate, rf)
            ok = (not c.get("error") and c["suite_with_change"]["failed"] == 0 and c["suite_with_change"]["passed"] >= 77
                  and c["suite_with_change"]["compiles"] and c.get("demo_with_change") == "FAILS" and c.get("demo_without_change") == "passes")
            conf = {"existing_suite_with_change": c.get("suite_with_change"), "demo_with_change": c.get("demo_with_change"),
                    "demo_without_change": c.get("demo_without_change"),
                    "how": "SEED_ROUND=%s lib/seedtool.py confirm %s %s --crate %s (scratch worktree /tmp/wt%s-%s: git apply, cargo test --workspace --offline, demo with and without the change)" % (rnd, prop, k, crate, rnd, prop)}
            if not ok:
                print("%s: NOT CONFIRMED %s" % (name, json.dumps(c)[:900]), flush=True)
                continue
        ev = seedtool.evaluate(prop, k, "quick", checks)
        if "error" in ev:
            print("%s: eval error %s" % (name, ev["error"]), flush=True)
            continue
        det = {c: ({"caught": True, "first_lines": v["lines"][:2]} if v["caught"] else False) for c, v in ev.items()}
        seedtool.store(prop, k, name, {"seeded_for": prop, "round": int(rnd), "confirmed_by_me": conf, "detected_by": det})
        print("%s: confirmed; %s" % (name, "; ".join("%s %s%s" % (c, "CAUGHT" if v["caught"] else "MISSED", (" -- " + (v["lines"][1] if len(v["lines"]) > 1 else v["lines"][0]).strip()[:260]) if v["caught"] else "") for c, v in ev.items())), flush=True)


if __name__ == "__main__":
    main()
