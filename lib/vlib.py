"""Shared machinery of the checks: TLC runner, harness builder, evidence writer, known findings,
VIOLATION reporting. Exit codes: 0 property held, 1 violation (with a VIOLATION line), 2 tool error."""
import hashlib
import json
import os
import re
import shutil
import subprocess
import sys
import time

VERIF = os.path.dirname(os.path.dirname(os.path.abspath(__file__)))
SPEC = os.path.join(VERIF, "spec")
HARNESS = os.path.join(VERIF, "harness")
OUT = os.path.join(VERIF, "out")
EVIDENCE = os.path.join(VERIF, "evidence")
TLA_JAR = "/opt/veriftools/tla/tla2tools.jar"
COMMUNITY = "/opt/veriftools/tla/CommunityModules-deps.jar"


class ToolError(Exception):
    pass


def seed():
    try:
        return int(os.environ.get("VERIF_SEED", "1"))
    except ValueError:
        return 1


def workdir(tag):
    d = os.path.join(OUT, "%s-%d" % (tag, os.getpid()))
    os.makedirs(d, exist_ok=True)
    return d


def cleanup(d):
    if os.environ.get("VERIF_KEEP"):
        return
    shutil.rmtree(d, ignore_errors=True)


# ------------------------------------------------------------------------------------------------
# TLC
# ------------------------------------------------------------------------------------------------

class TlcResult:
    def __init__(self):
        self.ok = False
        self.generated = 0
        self.distinct = 0
        self.depth = 0
        self.violated = None  # name of a violated invariant / property, or "error"
        self.output = ""
        self.marked = {}  # marker -> list of decoded JSON values
        self.coverage = {}  # action name -> count (when -coverage was requested)
        self.wall = 0.0

    def summary(self):
        return "generated=%d distinct=%d depth=%d" % (self.generated, self.distinct, self.depth)


_MARK = re.compile(r'^<<"([A-Z]+)", "(.*)">>$')


_ESC = re.compile(r"\\(.)", re.S)


def _unescape_tla(s):
    # TLC prints strings with \" and \\ escapes
    return _ESC.sub(lambda m: m.group(1), s) if "\\" in s else s


def run_tlc(module, cfg, wd, workers=4, timeout=900, simulate=None, depth=None, coverage=False,
            env_extra=None, java_opts=None, extra=None, markers=("REPLAY",), deadlock=False, heap="8g", dedupe=False):
    """Runs TLC on spec/<module>.tla with spec/<cfg>. Returns TlcResult; raises ToolError on tool failure."""
    meta = os.path.join(wd, "tlc-%s" % cfg.replace("/", "_"))
    shutil.rmtree(meta, ignore_errors=True)
    cmd = ["java", "-XX:+UseParallelGC", "-Xmx" + heap]
    if java_opts:
        cmd += java_opts
    cmd += ["-cp", TLA_JAR + ":" + COMMUNITY if os.path.exists(COMMUNITY) else TLA_JAR, "tlc2.TLC"]
    cmd = ["tlc"]  # the wrapper on PATH already has the CommunityModules on its classpath
    cmd += ["-workers", str(workers), "-metadir", meta, "-cleanup", "-noGenerateSpecTE", "-config", cfg]
    if simulate:
        cmd += ["-simulate", simulate]
    if depth:
        cmd += ["-depth", str(depth)]
    if coverage:
        cmd += ["-coverage", "1"]
    if deadlock:
        cmd += ["-deadlock"]
    if extra:
        cmd += extra
    cmd += [module + ".tla"]
    env = dict(os.environ)
    jto = "-Xmx" + heap
    if java_opts:
        jto += " " + " ".join(java_opts)
    jto += " -Djava.io.tmpdir=" + wd   # TLC's scratch directories go into the work directory (removed with it), not into /tmp
    env["JAVA_TOOL_OPTIONS"] = jto
    if env_extra:
        env.update(env_extra)
    t0 = time.time()
    outp = os.path.join(wd, "tlc-%s.out" % cfg.replace("/", "_"))
    try:
        with open(outp, "w") as fh:
            p = subprocess.run(cmd, cwd=SPEC, env=env, stdout=fh, stderr=subprocess.STDOUT, timeout=timeout)
    except subprocess.TimeoutExpired:
        raise ToolError("TLC timed out after %ds on %s/%s" % (timeout, module, cfg))
    r = TlcResult()
    r.wall = time.time() - t0
    marked = {m: [] for m in markers}
    seen_lines = set()
    tail = []
    with open(outp, errors="replace") as fh:
        for line in fh:
            line = line.rstrip("\n")
            m = _MARK.match(line)
            if m and m.group(1) in marked:
                if dedupe:
                    # (an export invariant that holds in many states prints the same line many times)
                    if line in seen_lines:
                        continue
                    seen_lines.add(line)
                try:
                    marked[m.group(1)].append(json.loads(_unescape_tla(m.group(2))))
                except Exception as e:  # noqa
                    raise ToolError("cannot decode exported line: %s (%s)" % (line[:200], e))
                continue
            tail.append(line)
            if len(tail) > 400:
                tail = tail[-300:]
            m2 = re.match(r"^(\d+) states generated, (\d+) distinct states found", line)
            if m2:
                r.generated, r.distinct = int(m2.group(1)), int(m2.group(2))
            m3 = re.match(r"^The depth of the complete state graph search is (\d+)", line)
            if m3:
                r.depth = int(m3.group(1))
            m4 = re.match(r"^Error: Invariant (\S+) is violated", line)
            if m4:
                r.violated = m4.group(1)
            if line.startswith("Error: Temporal properties were violated") or line.startswith("Error: Action property"):
                r.violated = r.violated or "temporal"
            if line.startswith("Error: Deadlock reached"):
                r.violated = r.violated or "deadlock"
            m5 = re.match(r"^<(\w+) line \d+, col \d+ to line \d+, col \d+ of module \w+>: (\d+):(\d+)", line)
            if m5:
                r.coverage[m5.group(1)] = r.coverage.get(m5.group(1), 0) + int(m5.group(3))
    r.output = "\n".join(tail)
    r.marked = marked
    if p.returncode == 0 and r.violated is None:
        r.ok = True
    elif r.violated is None:
        # 12 = safety violation, 13 = liveness violation, 11 = deadlock, others = errors
        if p.returncode in (12, 13, 11):
            r.violated = {12: "safety", 13: "liveness", 11: "deadlock"}[p.returncode]
        else:
            raise ToolError("TLC failed (exit %d) on %s/%s:\n%s" % (p.returncode, module, cfg, "\n".join(tail[-40:])))
    return r


def sany(module):
    p = subprocess.run(["tla-sany", module + ".tla"], cwd=SPEC, stdout=subprocess.PIPE, stderr=subprocess.STDOUT, timeout=120)
    txt = p.stdout.decode(errors="replace")
    if p.returncode != 0 or "Semantic errors" in txt or "Parse Error" in txt or "Could not parse" in txt:
        raise ToolError("SANY rejected %s:\n%s" % (module, txt[-2000:]))


# ------------------------------------------------------------------------------------------------
# harness
# ------------------------------------------------------------------------------------------------

def cargo_build(package, binary=None, timeout=3000):
    """Builds a harness package from /repo's current working tree; returns the binary path."""
    env = dict(os.environ)
    env["CARGO_NET_OFFLINE"] = "true"
    env.setdefault("RUST_BACKTRACE", "0")
    cmd = ["cargo", "build", "--offline", "-q", "-p", package]
    try:
        p = subprocess.run(cmd, cwd=HARNESS, env=env, stdout=subprocess.PIPE, stderr=subprocess.STDOUT, timeout=timeout)
    except subprocess.TimeoutExpired:
        raise ToolError("cargo build timed out")
    if p.returncode != 0:
        raise ToolError("cargo build -p %s failed:\n%s" % (package, p.stdout.decode(errors="replace")[-4000:]))
    return os.path.join(HARNESS, "target", "debug", binary or package)


def run_bin(path, args, timeout=1800, env_extra=None, cwd=None):
    env = dict(os.environ)
    env["RUST_BACKTRACE"] = "0"
    if env_extra:
        env.update(env_extra)
    try:
        p = subprocess.run([path] + args, env=env, cwd=cwd or VERIF, stdout=subprocess.PIPE, stderr=subprocess.PIPE, timeout=timeout)
    except subprocess.TimeoutExpired:
        raise ToolError("harness timed out: %s %s" % (path, " ".join(args)))
    if p.returncode != 0:
        raise ToolError("harness failed (exit %d): %s %s\n%s" % (p.returncode, path, " ".join(args), p.stderr.decode(errors="replace")[-3000:]))
    return p.stdout.decode(errors="replace")


def read_ndjson(path):
    out = []
    with open(path) as fh:
        for line in fh:
            line = line.strip()
            if line:
                out.append(json.loads(line))
    return out


def write_ndjson(path, items):
    with open(path, "w") as fh:
        for it in items:
            fh.write(json.dumps(it, separators=(",", ":")))
            fh.write("\n")


# ------------------------------------------------------------------------------------------------
# known findings, violations, evidence
# ------------------------------------------------------------------------------------------------

def known_findings(prop):
    p = os.path.join(VERIF, "known_findings.json")
    if not os.path.exists(p):
        return []
    with open(p) as fh:
        data = json.load(fh)
    return [f for f in data.get("findings", []) if f.get("property") == prop and f.get("status") == "known"]


class Reporter:
    """Collects violations for one property; known findings are matched by signature."""

    def __init__(self, prop):
        self.prop = prop
        self.known = known_findings(prop)
        self.known_hit = {}
        self.violations = []

    def violation(self, signature, detail):
        """signature: short stable string describing WHAT fails (used to match known findings)."""
        for k in self.known:
            if re.search(k["signature"], signature):
                self.known_hit.setdefault(k["signature"], (k, 0))
                kk, n = self.known_hit[k["signature"]]
                self.known_hit[k["signature"]] = (kk, n + 1)
                return
        self.violations.append((signature, detail))

    def finish(self):
        for sig, (k, n) in sorted(self.known_hit.items()):
            print("KNOWN-FINDING: property=%s %s (%d occurrences this run)" % (self.prop, k.get("what", sig), n))
        if not self.violations:
            return 0
        d = os.path.join(OUT, "replays", self.prop)
        os.makedirs(d, exist_ok=True)
        seen = set()
        for sig, detail in self.violations[:25]:
            blob = json.dumps(detail, sort_keys=True, default=str)
            h = hashlib.sha1(blob.encode()).hexdigest()[:12]
            path = os.path.join(d, h + ".json")
            with open(path, "w") as fh:
                json.dump({"property": self.prop, "signature": sig, "detail": detail}, fh, indent=1, default=str)
            if sig in seen:
                continue
            seen.add(sig)
            print("VIOLATION property=%s replay=%s" % (self.prop, path))
            print("  what: %s" % sig)
        if len(self.violations) > 25:
            print("  (%d further violating cases not written)" % (len(self.violations) - 25))
        return 1


def write_evidence(prop, tier, level, coverage, wall_s, violations, assumptions=None):
    # a check that judged nothing must not report "held" (vacuity guard)
    if not coverage.get("traces_validated_against_impl") or not coverage.get("evaluations") or coverage.get("distinct_nontrivial", 0) < 2:
        raise ToolError("vacuous run of %s: %s observations judged, %s non-trivial cases" % (prop, coverage.get("traces_validated_against_impl"), coverage.get("distinct_nontrivial")))
    os.makedirs(EVIDENCE, exist_ok=True)
    ev = {
        "property_id": prop,
        "tier": tier,
        "seed": seed(),
        "level": level,
        "coverage": coverage,
        "assumptions": assumptions or [],
        "wall_s": round(wall_s, 2),
        "violations": violations,
    }
    tmp = os.path.join(EVIDENCE, ".%s.json.%d" % (prop, os.getpid()))
    with open(tmp, "w") as fh:
        json.dump(ev, fh, indent=1, default=str)
    os.replace(tmp, os.path.join(EVIDENCE, prop + ".json"))


def main_wrapper(fn):
    """Runs fn(); maps ToolError to exit 2 (never a VIOLATION line)."""
    try:
        rc = fn()
    except ToolError as e:
        print("TOOL-ERROR: %s" % e, file=sys.stderr)
        sys.exit(2)
    except SystemExit:
        raise
    except BaseException as e:  # a bug in the machinery is a tool error, never a verdict
        import traceback
        traceback.print_exc()
        print("TOOL-ERROR: internal error in the check: %r" % (e,), file=sys.stderr)
        sys.exit(2)
    sys.exit(rc)
