----------------------------- MODULE MC_McHash -----------------------------
(* C11, model side.  One state per digest:                                                                  *)
(*   - ALL 1-byte and ALL 2-byte digests (256 + 65 536 = 65 792): SignedHex agrees with the arithmetic      *)
(*     definition (signed value v; v < 0 => "-" \o Hex(-v));                                                *)
(*   - edge digests of every length 3..20 (0x80 00..00, 0x80 00..01, 00..00, ff..ff, 7f ff..ff, 00 80 00..,  *)
(*     ff 7f ff.., 00..01, ff..00, 0f.., f0.., 01 00..00) and the fixed 20-byte digests of McHashData;       *)
(* on every one of them: no leading zero unless the value is 0, minus sign iff top bit set, only [0-9a-f],  *)
(* the text reads back to the digest (Unsign), and 0x80 00..00 prints as "-80 00..00".                      *)
(* The three published examples (Notch, jeb_, simon) must print exactly as published (ASSUME).              *)
EXTENDS McHash, McHashData, TLC

VARIABLE d

Short == {<<a>> : a \in 0..255} \cup {<<a, b>> : a \in 0..255, b \in 0..255}

RECURSIVE Rep(_, _)
Rep(b, k) == IF k = 0 THEN <<>> ELSE <<b>> \o Rep(b, k - 1)
Edge(n) == { <<128>> \o Rep(0, n - 1),  <<128>> \o Rep(0, n - 2) \o <<1>>,  Rep(0, n),  Rep(255, n),
             <<127>> \o Rep(255, n - 1),  <<0, 128>> \o Rep(0, n - 2),  <<255, 127>> \o Rep(255, n - 2),
             Rep(0, n - 1) \o <<1>>,  Rep(255, n - 1) \o <<0>>,  <<15>> \o Rep(171, n - 1),  <<240>> \o Rep(0, n - 1),
             <<1>> \o Rep(0, n - 1),  <<255>> \o Rep(0, n - 1),  <<0>> \o Rep(255, n - 1),  <<128>> \o Rep(255, n - 1) }
Digests(maxLen) == Short \cup UNION {Edge(n) : n \in 3..maxLen} \cup DeepDigests \cup {Published[i].digest : i \in 1..Len(Published)}

Init == d \in Digests(20)
Next == UNCHANGED d

TypeOK == IsDigest(d)
AgreesWithArithmetic == Len(d) <= 2 => SignedHex(d) = ArithSignedHex(d)
SignIffTopBit == HasSign(SignedHex(d)) <=> TopBit(d)
NoLeadingZeros == NoLeadingZero(SignedHex(d))
Alphabet == OnlyLowerHex(SignedHex(d))
ReadsBack == Unsign(SignedHex(d), Len(d)) = d
\* length: at most two digits per byte, plus the sign
Bounded == Len(Digits(SignedHex(d))) <= 2 * Len(d)
MostNegativeEdge == (d[1] = 128 /\ \A i \in 2..Len(d) : d[i] = 0)
                      => SignedHex(d) = <<45, 56, 48>> \o Rep(48, 2 * (Len(d) - 1))       \* "-80" then zeros
ZeroIsZero == (\A i \in 1..Len(d) : d[i] = 0) <=> SignedHex(d) = <<48>>

ASSUME PublishedAsPublished == \A i \in 1..Len(Published) : SignedHex(Published[i].digest) = Published[i].text
=============================================================================
