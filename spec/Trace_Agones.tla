---------------------------- MODULE Trace_Agones ----------------------------
(* Trace validation, code -> spec, for C20: every history recorded from the real                  *)
(* AgonesDiscoveryAdapter by harness/hx-agones (NDJSON file named by the TRACE environment        *)
(* variable, one record per replayed history) is taken as given: from the recorded API-level      *)
(* steps the property layer (AgonesProps, the operators Agones.tla builds its API server from)     *)
(* recomputes the object map and the set that has to be offered after each step, and the named    *)
(* clauses compare it with the recorded offered set.  One state per record; the first failing     *)
(* step of a record is reported on a FAIL line.  Steps during which a LIST is outstanding are not *)
(* judged (the client cannot have observed the objects yet).                                      *)
(* Record: [line, steps, offered, held, converged_ms, converged, panic, stuck, ...]; offered[i]    *)
(* and held[i] are sequences of [id, ip, port, state, meta]; Len(offered) = Len(held) = number of  *)
(* executed steps; held[i] is only meaningful at "list" steps (AgonesProps!C20_KeptWhileRelisting). *)
EXTENDS AgonesProps, Json, IOUtils, TLC

Recs == ndJsonDeserialize(IOEnv.TRACE)
Prop == IOEnv.PROP

\* (not called n: AgonesProps has operator parameters of that name, which would disable TLC's constant caching)
VARIABLE pos
Init == pos = 0
Next == pos < Len(Recs) /\ pos' = pos + 1
Spec == Init /\ [][Next]_pos

MinOf(S) == CHOOSE x \in S : \A y \in S : x <= y

\* <<clause, step>> for every judged, executed step whose recorded offered set violates the clause
Failing(R) == {<<cl, i>> \in ClauseNames(Prop) \X (1..Len(R.offered)) :
                 (Judged(R.steps, i) \/ (cl = "C20_PageAppliedOnArrival" /\ R.steps[i].k = "listpart")) /\ ~Clause(cl, R, i)}

\* always TRUE; prints the failing clauses of record pos at its first failing step
Judge == pos >= 1 =>
           LET R == Recs[pos]  bad == Failing(R) IN
           \/ bad = {}
           \/ LET first == MinOf({x[2] : x \in bad}) IN
              PrintT(<<"FAIL", ToJson([line |-> pos, step |-> first,
                                       clauses |-> {x[1] : x \in {y \in bad : y[2] = first}},
                                       expected |-> IF R.steps[first].k = "listpart" THEN ReadySetOf(ObservedWhilePending(R.steps, first, first)) ELSE Expected(R.steps, first),
                                       expectedheld |-> ReadySetOf(ObservedWhilePending(R.steps, first, IF R.steps[first].k = "listpart" THEN first ELSE first - 1)),
                                       allsteps |-> {x[2] : x \in bad}])>>)

AllConsumed == TLCGet("stats").diameter = Len(Recs) + 1 \/ PrintT(<<"NOTCONSUMED", ToJson([d |-> TLCGet("stats").diameter])>>)
=============================================================================
