------------------------- MODULE Trace_DnsDiscovery -------------------------
(* Observations of the real DnsDiscoveryAdapter (loopback name server, refresh period 1 s) judged against DnsDiscovery.tla.     *)
(* A record: mode, port, zones (the zone the server answered from during each epoch), got (what discover() returned after a    *)
(* refresh that started in that epoch was over), questions (per epoch), afterDrop.  The expected cache is RECOMPUTED here from  *)
(* the zones with the design's own Run operator; order within one answer is not judged (bag equality).                          *)
EXTENDS DnsDiscovery, Json, IOUtils

Recs == ndJsonDeserialize(IOEnv.TRACE)
VARIABLE n
Init == n = 0
Next == n < Len(Recs) /\ n' = n + 1
Spec == Init /\ [][Next]_n

Proj(t) == [id |-> t.id, port |-> t.port, ip |-> t.ip, prio |-> t.prio, weight |-> t.weight]
Count(s, x) == Cardinality({i \in 1..Len(s) : s[i] = x})
SameBag(s, t) == Len(s) = Len(t) /\ \A i \in 1..Len(s) : Count(s, s[i]) = Count(t, s[i])
Observed(r, k) == [i \in 1..Len(r.got[k]) |-> Proj(r.got[k][i])]
Usable(r) == "got" \in DOMAIN r /\ ~r.timedOut /\ Len(r.got) = Len(r.zones)

\* after every refresh readers see exactly the targets of the latest zone that could be resolved completely (nothing before the first)
DD_CacheIsLatestResolvedZone(r) == LET e == Run(r.mode, r.zones, r.port, <<>>) IN \A k \in 1..Len(r.zones) : SameBag(Observed(r, k), e[k])
\* metadata: priority and weight of the SRV record, nothing else; none in A mode
DD_MetaOnlyFromRecord(r) == \A k \in 1..Len(r.got) : \A i \in 1..Len(r.got[k]) : r.got[k][i].nmeta = (IF r.mode = "srv" THEN 2 ELSE 0)
\* the name server is asked in every refresh period
DD_AsksEveryPeriod(r) == \A k \in 1..Len(r.questions) : r.questions[k] >= 1
\* nothing is asked after the adapter was dropped
DD_NoQuestionAfterDrop(r) == r.afterDrop = 0

Names == {"DD_CacheIsLatestResolvedZone", "DD_MetaOnlyFromRecord", "DD_AsksEveryPeriod", "DD_NoQuestionAfterDrop"}
Clause(c, r) == CASE c = "DD_CacheIsLatestResolvedZone" -> DD_CacheIsLatestResolvedZone(r) [] c = "DD_MetaOnlyFromRecord" -> DD_MetaOnlyFromRecord(r)
                  [] c = "DD_AsksEveryPeriod" -> DD_AsksEveryPeriod(r) [] c = "DD_NoQuestionAfterDrop" -> DD_NoQuestionAfterDrop(r) [] OTHER -> FALSE
Judge == n >= 1 => LET r == Recs[n] IN
                   IF ~Usable(r) THEN PrintT(<<"UNUSABLE", ToJson([line |-> n])>>)
                   ELSE LET bad == {c \in Names : ~Clause(c, r)} IN bad = {} \/ PrintT(<<"FAIL", ToJson([line |-> n, clauses |-> bad])>>)
AllConsumed == TLCGet("stats").diameter = Len(Recs) + 1 \/ PrintT(<<"NOTCONSUMED", ToJson([d |-> TLCGet("stats").diameter])>>)
=============================================================================
