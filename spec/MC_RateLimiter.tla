--------------------------- MODULE MC_RateLimiter ---------------------------
(* Exhaustive check of the rate limiter design (no time bound: relative ages), and export of walks *)
(* for replay into the real RateLimiter (simulation mode; the walk is a history variable and is    *)
(* therefore only carried in the *Walk configs).                                                   *)
EXTENDS RateLimiter, Json

CONSTANT WalkLen
VARIABLE walk

\* walks: few distinct time steps so that about every second step is an attempt
WalkDts == {1, D, 2*D + 1}
WInit == Init /\ walk = <<>>
WNext == /\ Len(walk) < WalkLen
         /\ \/ \E dt \in WalkDts : Advance(dt) /\ walk' = Append(walk, [op |-> "adv", dt |-> dt, k |-> "-", ok |-> FALSE])
            \/ \E k \in Keys : Enqueue(k) /\ walk' = Append(walk, [op |-> "enq", dt |-> 0, k |-> ToString(k), ok |-> last'.ok])
WSpec == WInit /\ [][WNext]_<<vars, walk>>
\* exhaustive configs keep the walk empty
XInit == Init /\ walk = <<>>
XNext == Next /\ UNCHANGED walk
XSpec == XInit /\ [][XNext]_<<vars, walk>>

Export == Len(walk) = WalkLen => PrintT(<<"REPLAY", ToJson([D |-> D, L |-> Limit, walk |-> walk])>>)
Props == TypeOK /\ PerWindow /\ TwoLimit /\ IdleReadmit /\ Isolated /\ TrackedFresh /\ SizeIsTracked
=============================================================================
