\* read side: arbitrary arrival portions, buffer capacities down to one byte, pre-filled buffers
CONSTANTS
  Writes <- MC_WritesR
  SwitchPoints = {0, 1}
  MaxPending = 1
  ReadCaps = {1, 3, 8}
  PreFills = {0, 1}
  PartialAccept = FALSE
  ArriveWhole = FALSE
  CommitOnAccept = TRUE
  MaxAbandon = 0
  Vectored = FALSE
  ReuseStalled = FALSE
SPECIFICATION Spec
INVARIANTS C05 Export
CHECK_DEADLOCK FALSE
