\* write side, quick: the caller offers two slices (vectored write)
CONSTANTS
  Writes <- MC_WritesRQuick
  SwitchPoints = {0, 1}
  MaxPending = 1
  ReadCaps = {8}
  PreFills = {0}
  PartialAccept = TRUE
  ArriveWhole = TRUE
  CommitOnAccept = TRUE
  MaxAbandon = 0
  Vectored = TRUE
  ReuseStalled = FALSE
SPECIFICATION Spec
INVARIANTS C05 Export
CHECK_DEADLOCK FALSE
