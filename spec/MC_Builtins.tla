----------------------------- MODULE MC_Builtins -----------------------------
EXTENDS Builtins, Json
VARIABLE done
\* (<<"fra", "DE">>, <<"dex">>: languages whose code merely STARTS like one that has a table)
Locales == {<<"de", "DE">>, <<"de", "AT">>, <<"de">>, <<"fr", "CA">>, <<"xx", "YY">>, <<"en", "US">>, <<"en", "GB">>, <<"en">>, <<"zh", "Hans", "CN">>, <<>>,
            <<"fra", "DE">>, <<"dex">>}
TableNames == {<<"de", "DE">>, <<"de">>, <<"en", "US">>, <<"en">>, <<"fr">>, <<"zh", "Hans">>, <<"zh">>}
Defaults == {<<"en", "US">>, <<"de", "DE">>, <<"xx">>, <<"zh", "Hans", "CN">>}
TableSets == SUBSET TableNames
Keys == {"k1", "k2"}
\* every table defines k1; k2 only in tables whose first part is "de" (a key missing in the chosen table)
TablesOf(S) == [t \in S |-> IF t[1] = "de" THEN {"k1", "k2"} ELSE {"k1"}]
JoinLoc(l) == l
LocCases == {[tables |-> S, requested |-> r, default |-> d, key |-> k] : S \in TableSets, r \in Locales, d \in Defaults, k \in Keys}
StatusCases == {[configured |-> c, preferred |-> p, min |-> lo, max |-> hi, client |-> cl] :
                  c \in BOOLEAN, p \in {767, 770}, lo \in {0, 766, 770}, hi \in {765, 770, 1000}, cl \in {-1, 0, 765, 766, 767, 770, 771, 1000, 1001}}
Idents == {"steve", "alex", "nil"}
AuthCases == [kind : {"disabled", "fixed"}, claimed : [who : Idents, props : {0}], fixed : [who : {"steve", "service"}, props : {0, 2}]]
DiscCases == [targets : {<<>>, <<"t1">>, <<"t2", "t1">>, <<"t1", "t1">>, <<"t1", "t2", "t3">>}, calls : {1, 3}]
Init == done = FALSE
Next == done = FALSE /\ done' = TRUE
Spec == Init /\ [][Next]_done
\* design facts
ExactLocaleWins == \A c \in LocCases : (c.requested # <<>> /\ c.requested \in c.tables) => ChosenTable(TablesOf(c.tables), c.requested, c.default) = c.requested
LanguageBeforeDefault == \A c \in LocCases : (Len(c.requested) >= 2 /\ c.requested \notin c.tables /\ SubSeq(c.requested, 1, Len(c.requested) - 1) \in c.tables)
                             => ChosenTable(TablesOf(c.tables), c.requested, c.default) = SubSeq(c.requested, 1, Len(c.requested) - 1)
DefaultLast == \A c \in LocCases : (\A i \in 1..Len(c.requested) : SubSeq(c.requested, 1, i) \notin c.tables) /\ c.default \in c.tables
                             => ChosenTable(TablesOf(c.tables), c.requested, c.default) = c.default
InRangeEchoes == \A c \in StatusCases : (c.configured /\ c.min <= c.client /\ c.client <= c.max) => StatusAnswer(c.configured, c.preferred, c.min, c.max, c.client).protocol = c.client
DisabledVouchesForClaim == \A c \in AuthCases : c.kind = "disabled" => AuthAnswer(c.kind, c.claimed, c.fixed).who = c.claimed.who
FixedIgnoresClaim == \A c \in AuthCases : c.kind = "fixed" => AuthAnswer(c.kind, c.claimed, c.fixed) = c.fixed
Facts == ExactLocaleWins /\ LanguageBeforeDefault /\ DefaultLast /\ InRangeEchoes /\ DisabledVouchesForClaim /\ FixedIgnoresClaim
Export == done => /\ \A c \in LocCases : PrintT(<<"REPLAY", ToJson([kind |-> "loc", case |-> [tables |-> c.tables, requested |-> c.requested, default |-> c.default, key |-> c.key]])>>)
                  /\ \A c \in StatusCases : PrintT(<<"REPLAY", ToJson([kind |-> "status", case |-> c])>>)
                  /\ \A c \in AuthCases : PrintT(<<"REPLAY", ToJson([kind |-> "auth", case |-> c])>>)
                  /\ \A c \in DiscCases : PrintT(<<"REPLAY", ToJson([kind |-> "discover", case |-> c])>>)
=============================================================================
