\* exhaustive, no time bound: 2 keys, window of 2 ticks, limit 2, time steps up to 9 ticks (> 4D)
CONSTANTS
  Keys = {k1, k2}
  D = 2
  Limit = 2
  MaxDt = 9
  WalkLen = 0
SPECIFICATION XSpec
INVARIANT Props
CHECK_DEADLOCK FALSE
