----------------------------- MODULE Admission -----------------------------
(***************************************************************************)
(* Admission of connections in arrival order (C15): the sequential core of *)
(* Listener.tla's Resolve step -- effective client address, header         *)
(* validity, per-address budget.  One limiter window covers the history    *)
(* (the harness uses a ten-minute window), so the limiter of               *)
(* RateLimiter.tla reduces to "fewer than `limit` admissions so far".      *)
(*                                                                         *)
(* A connection is [peer, hdr, src, kind]:                                 *)
(*   peer  the TCP peer (load balancer) it comes through: p1 | p2          *)
(*   hdr   PROXY header sent: none | v1 | v2 | invalid | garbage           *)
(*   src   the source address announced in the header: ipA | ipA2 (same IP *)
(*         as ipA, other port) | ipB | ip6                                 *)
(*   kind  status | login                                                  *)
(***************************************************************************)
EXTENDS Integers, Sequences, FiniteSets, TLC

\* the IP (without port) behind an address label
IpOf(l) == CASE l \in {"ipA", "ipA2"} -> "A" [] l = "ipB" -> "B" [] l = "ip6" -> "6" [] l = "p1" -> "P1" [] l = "p2" -> "P2" [] OTHER -> l
HeaderOk(proxy, hdr) == \/ (hdr = "v1" /\ proxy \in {"v1", "both"})
                        \/ (hdr = "v2" /\ proxy \in {"v2", "both"})
\* the address the connection is attributed to: announced source with PROXY protocol on, TCP peer otherwise; "bad" = no valid header
EffLabel(proxy, c) == IF proxy = "off" THEN c.peer ELSE IF HeaderOk(proxy, c.hdr) THEN c.src ELSE "bad"

\* admissions so far per IP, after the first n connections of history h
RECURSIVE UsedAfter(_, _, _, _)
UsedAfter(proxy, limit, h, n) ==
  IF n = 0 THEN [i \in {} |-> 0]
  ELSE LET u == UsedAfter(proxy, limit, h, n - 1)
           e == EffLabel(proxy, h[n])
           ip == IpOf(e)
           cur == IF ip \in DOMAIN u THEN u[ip] ELSE 0
       IN IF e = "bad" \/ (limit > 0 /\ cur >= limit) THEN u ELSE (ip :> cur + 1) @@ u
\* what must happen to connection n: "serve" | "refused" (over budget) | "badhdr"
Decision(proxy, limit, h, n) ==
  LET u == UsedAfter(proxy, limit, h, n - 1)
      e == EffLabel(proxy, h[n])
      cur == IF IpOf(e) \in DOMAIN u THEN u[IpOf(e)] ELSE 0
  IN IF e = "bad" THEN "badhdr" ELSE IF limit > 0 /\ cur >= limit THEN "refused" ELSE "serve"
=============================================================================
