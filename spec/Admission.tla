----------------------------- MODULE Admission -----------------------------
(***************************************************************************)
(* Admission of connections in arrival order (C15): the sequential core of *)
(* Listener.tla's Resolve step -- effective client address, header         *)
(* validity, per-address budget.  One limiter window covers the history    *)
(* (the harness uses a ten-minute window), so the limiter of               *)
(* RateLimiter.tla reduces to "fewer than `limit` admissions so far".      *)
(*                                                                         *)
(* A connection is [peer, hdr, src, kind]:                                 *)
(*   peer  the TCP peer (load balancer) it comes through: p1 | p2          *)
(*   hdr   PROXY header sent: none | v1 | v2 | v2dgram | invalid | garbage *)
(*         | v1unknown | v2local (valid, announcing no address)            *)
(*   src   the source address announced in the header: ipA | ipA2 (same IP *)
(*         as ipA, other port) | ipB | ip6 | ip6c (IPv6, low 32 bits as   *)
(*         ipA's: another address) | ip4m, ip4n (two IPv4 clients reported *)
(*         in IPv4-mapped form ::ffff:a.b.c.d: two addresses)              *)
(*   kind  status | glance (status without the Ping, then hangs up) | login*)
(***************************************************************************)
EXTENDS Integers, Sequences, FiniteSets, TLC

(* A header may be valid and announce NO address (version 1 "PROXY UNKNOWN", version 2 command LOCAL): hdr = v1unknown | v2local.      *)
(* The statement does not say whom such a connection is attributed to; two readings satisfy it: "peer" -- it is the balancer's own  *)
(* connection, attributed to the TCP peer and charged to the peer's budget (what the code does) -- and "invalid" -- closed unserved  *)
(* like a missing header.  Serving it WITHOUT asking the limiter is neither.                                                         *)
(* hdr = v2dgram is a valid version 2 header that announces an address but names the transport DGRAM (on a TCP connection): under the  *)
(* lenient reading ("peer") the announced source counts like in any other header, under the strict one ("invalid") the connection    *)
(* is closed unserved.  Serving it on the budget of the balancer is neither: the header does announce a source address.              *)
Readings == {"peer", "invalid"}
\* the IP (without port) behind an address label
IpOf(l) == CASE l \in {"ipA", "ipA2"} -> "A" [] l = "ipB" -> "B" [] l = "ip6" -> "6" [] l = "ip6c" -> "6c" [] l = "ip4m" -> "4m" [] l = "ip4n" -> "4n" [] l = "p1" -> "P1" [] l = "p2" -> "P2" [] OTHER -> l
HeaderOk(proxy, hdr) == \/ (hdr \in {"v1", "v1unknown"} /\ proxy \in {"v1", "both"})
                        \/ (hdr \in {"v2", "v2local", "v2dgram"} /\ proxy \in {"v2", "both"})
Addressless(hdr) == hdr \in {"v1unknown", "v2local"}
\* the address the connection is attributed to: announced source with PROXY protocol on, TCP peer otherwise; "bad" = no valid header
EffLabelR(proxy, c, rd) == IF proxy = "off" THEN c.peer
                           ELSE IF ~HeaderOk(proxy, c.hdr) THEN "bad"
                           ELSE IF Addressless(c.hdr) THEN (IF rd = "peer" THEN c.peer ELSE "bad")
                           ELSE IF c.hdr = "v2dgram" THEN (IF rd = "peer" THEN c.src ELSE "bad")
                           ELSE c.src
EffLabel(proxy, c) == EffLabelR(proxy, c, "peer")

\* admissions so far per IP, after the first n connections of history h
RECURSIVE UsedAfterR(_, _, _, _, _)
UsedAfterR(proxy, limit, h, n, rd) ==
  IF n = 0 THEN [i \in {} |-> 0]
  ELSE LET u == UsedAfterR(proxy, limit, h, n - 1, rd)
           e == EffLabelR(proxy, h[n], rd)
           ip == IpOf(e)
           cur == IF ip \in DOMAIN u THEN u[ip] ELSE 0
       IN IF e = "bad" \/ (limit > 0 /\ cur >= limit) THEN u ELSE (ip :> cur + 1) @@ u
UsedAfter(proxy, limit, h, n) == UsedAfterR(proxy, limit, h, n, "peer")
\* what must happen to connection n: "serve" | "refused" (over budget) | "badhdr"
DecisionR(proxy, limit, h, n, rd) ==
  LET u == UsedAfterR(proxy, limit, h, n - 1, rd)
      e == EffLabelR(proxy, h[n], rd)
      cur == IF IpOf(e) \in DOMAIN u THEN u[IpOf(e)] ELSE 0
  IN IF e = "bad" THEN "badhdr" ELSE IF limit > 0 /\ cur >= limit THEN "refused" ELSE "serve"
Decision(proxy, limit, h, n) == DecisionR(proxy, limit, h, n, "peer")
=============================================================================
