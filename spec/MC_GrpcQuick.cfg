\* C19 quick: star design around a base target / call (about 250 exchanges)
CONSTANTS
  DiscoverReplies <- MC_QuickDiscover
  SelectCases <- MC_QuickSelect
  StatusCalls <- MC_QuickStatus
  RouterMetas <- MC_RouterMetas
  WireMetas <- MC_WireMetas
SPECIFICATION Spec
INVARIANTS AllInvariants Export
CHECK_DEADLOCK FALSE
