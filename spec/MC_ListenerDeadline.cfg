\* same design, clients that stall after admission (deadline, C14) and a longer clock
CONSTANTS
  Clients = {c1, c2}
  Kinds = {"goodA", "staller", "silent"}
  HeaderInTask = TRUE
  Limit = 1
  Timeout = 2
  MaxNow = 5
SPECIFICATION Spec
INVARIANTS Safety LoopNeverWaitsOnClient
PROPERTIES C16 C17 StopCancelsNothing
CHECK_DEADLOCK FALSE
