\* exhaustive, no time bound: 2 keys, window of 4 ticks, limit 2, time steps up to 17 ticks (> 4D)
CONSTANTS
  Keys = {k1, k2}
  D = 4
  Limit = 2
  MaxDt = 17
  WalkLen = 0
SPECIFICATION XSpec
INVARIANT Props
CHECK_DEADLOCK FALSE
