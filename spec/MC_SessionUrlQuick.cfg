INIT Init
NEXT Next
CONSTANT MaxLen = 3
INVARIANT TypeOK
INVARIANT BuildIsReadBack
INVARIANT BuildIsATarget
INVARIANT NaiveExactlyWhenHarmless
INVARIANT DecodeInvertsEnc
INVARIANT Export
CHECK_DEADLOCK FALSE
