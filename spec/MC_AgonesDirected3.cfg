\* C20 history export, EXHAUSTIVE: two GameServers, every history of SEVEN API-level steps with four writes and one fault -- two servers
\* listed, a re-list (410) that no longer contains one of them, then changes to the survivor
CONSTANTS
  Names = {"a", "b"}
  Shapes <- MC_ShapesPair
  MaxWrites = 4
  MaxFaults = 1
  MaxBookmarks = 0
  MaxSteps = 7
  AppliedOnly = FALSE
SPECIFICATION Spec
INVARIANTS AllInvariants Export
CONSTRAINT ExportConstraint
CHECK_DEADLOCK FALSE
