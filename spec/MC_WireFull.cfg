SPECIFICATION Spec
CONSTANTS
  Delta = 300
  Long = TRUE
INVARIANT M_RoundTrip
INVARIANT M_VarIntRoundTrip
INVARIANT M_VarLongRoundTrip
INVARIANT M_OrdinalRejected
INVARIANT M_OverlongRejected
INVARIANT Export
CHECK_DEADLOCK FALSE
