--------------------------- MODULE MC_SessionUrl ---------------------------
(* C12, model side.  One state per <<name, hash>>: every name of up to MaxLen symbols over the reserved      *)
(* alphabet Sigma (a & = # ? % + space / e-acute line-feed; MaxLen = 4: 16 105 names) with positive,       *)
(* negative, short and full-length hashes.  Invariants:                                                      *)
(*   BuildIsReadBack        Parse(Build(n, h)) and Parse(BuildPlus(n, h)) = fixed path, exactly one         *)
(*                          username = n, exactly one serverId = h, nothing else                            *)
(*   BuildIsATarget         the built target is printable ASCII without space, '#' or control bytes         *)
(*   NaiveExactlyWhenHarmless   literal interpolation is read back correctly exactly for Harmless names     *)
(*                          (so the parser is neither too strict nor too lenient on the reserved bytes)     *)
(*   DecodeInvertsEnc       Decode(Enc(n)) = n for both space conventions                                   *)
(* Export: one REPLAY line per name (for the first hash only) -> replayed into the real MojangAdapter.      *)
EXTENDS SessionUrl, TLC, Json

CONSTANT MaxLen
VARIABLES nm, hs, syms      \* name (bytes), hash (bytes), number of symbols in the name

\* "-4ed", "0", and a full-length negative hash ("-7c9d..28c1", the published jeb_ example)
Hashes == << <<45, 52, 101, 100>>, <<48>>,
             <<45,55,99,57,100,53,98,48,48,52,52,99,49,51,48,49,48,57,97,53,100,55,98,53,102,98,53,99,51,49,55,99,48,50,98,52,101,50,56,99,49>> >>

\* the names are generated as a tree (so that TLC's workers share the work): a name is extended by one symbol
Init == nm = <<>> /\ syms = 0 /\ hs \in {Hashes[i] : i \in 1..Len(Hashes)}
Next == syms < MaxLen /\ \E c \in Sigma : nm' = nm \o c /\ syms' = syms + 1 /\ UNCHANGED hs
TypeOK == syms \in 0..MaxLen /\ Len(nm) \in syms..(2 * syms) /\ \A i \in 1..Len(nm) : nm[i] \in 0..255

BuildIsReadBack == Good(Build(nm, hs), nm, hs) /\ Good(BuildPlus(nm, hs), nm, hs)
IsTargetByte(b) == b > 32 /\ b < 127 /\ b # Frag
BuildIsATarget == \A t \in {Build(nm, hs), BuildPlus(nm, hs)} : \A i \in 1..Len(t) : IsTargetByte(t[i])
NaiveExactlyWhenHarmless == Good(Naive(nm, hs), nm, hs) <=> Harmless(nm)
DecodeInvertsEnc == Decode(Enc(nm, FALSE)) = nm /\ Decode(Enc(nm, TRUE)) = nm

Export == hs = Hashes[1] => PrintT(<<"REPLAY", ToJson([name |-> nm, len |-> Len(nm), harmless |-> Harmless(nm)])>>)
=============================================================================
