\* write side, quick
CONSTANTS
  Writes <- MC_WritesWQuick
  SwitchPoints = {0, 1}
  MaxPending = 1
  ReadCaps = {8}
  PreFills = {0}
  PartialAccept = TRUE
  ArriveWhole = TRUE
  CommitOnAccept = TRUE
  MaxAbandon = 1
  Vectored = FALSE
  ReuseStalled = FALSE
SPECIFICATION Spec
INVARIANTS C05 Export
CHECK_DEADLOCK FALSE
