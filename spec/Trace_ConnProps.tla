-------------------------- MODULE Trace_ConnProps --------------------------
(* Trace validation, code -> spec, for the per-connection properties: every history recorded   *)
(* from the real Connection (NDJSON file named by the TRACE environment variable, one record   *)
(* per replayed behaviour) is taken as given and the property-level predicates of ConnProps   *)
(* are evaluated on it.  One state per record; a failing clause is reported on a FAIL line.   *)
EXTENDS ConnProps, Json, IOUtils, TLC

Recs == ndJsonDeserialize(IOEnv.TRACE)
Prop == IOEnv.PROP

VARIABLE n
Init == n = 0
Next == n < Len(Recs) /\ n' = n + 1
Spec == Init /\ [][Next]_n

Failing(B) == {<<cl, k>> \in ClauseNames(Prop) \X (1..Len(B)) : ~Clause(cl, B, k)}

\* always TRUE; prints the failing clauses of record n
Judge == n >= 1 =>
           LET B == Recs[n].hist  bad == Failing(B) IN
           bad = {} \/ PrintT(<<"FAIL", ToJson([line |-> n, clauses |-> {x[1] : x \in bad}])>>)

AllConsumed == TLCGet("stats").diameter = Len(Recs) + 1 \/ PrintT(<<"NOTCONSUMED", ToJson([d |-> TLCGet("stats").diameter])>>)
=============================================================================
