----------------------------- MODULE SessionUrl -----------------------------
(* C12.  What a session server reads from the request target of a has-joined request, and the builder the   *)
(* design prescribes for that target.  Everything is a sequence of bytes (integers 0..255); a user name is   *)
(* the sequence of its UTF-8 bytes, a server hash the ASCII codes of McHash!SignedHex.                       *)
(*                                                                                                           *)
(* THE SERVER'S GRAMMAR (decisions):                                                                         *)
(*  G1  target = path [ "?" query ].  The FIRST '?' ends the path; later '?' are ordinary query data.         *)
(*  G2  A fragment is never sent: a URL client cuts its input at the first '#' before it sends anything,     *)
(*      so text after a '#' never reaches the server.  `Sent(u)` models that; `Parse` applies the same cut   *)
(*      (a '#' cannot legally occur in a received target; cutting is the conservative reading).              *)
(*  G3  The path is compared as raw bytes with the one fixed path (no decoding, no dot-segment removal).     *)
(*  G4  The query is application/x-www-form-urlencoded, read by the WHATWG algorithm: split at every '&',    *)
(*      skip empty pieces, split each piece at its FIRST '=' into key and value (no '=': the value is        *)
(*      empty), then in key and value replace '+' by a space and percent-decode (%XX, either case of hex     *)
(*      digits; a '%' not followed by two hex digits stays as it is).                                        *)
(*      Consequence: a space in a name may arrive as "%20" or as "+"; a literal '+' must arrive as "%2B";    *)
(*      '&', '#', '%' inside a name must arrive percent-encoded; '=', '?', '/' may arrive either way.         *)
(*  G5  Parameters are an ordered list of <<key, value>>; duplicates are kept (that is what "exactly one"    *)
(*      is judged on).                                                                                        *)
(*                                                                                                           *)
(* THE PRESCRIBED BUILDER: `Build(name, hash)` percent-encodes every byte outside ALPHA / DIGIT / - . _ ~ ;   *)
(* `BuildPlus` is the form-urlencoded variant that writes a space as '+'.  Both must be read back by Parse    *)
(* as [fixed path, username = name, serverId = hash, nothing else] (MC_SessionUrl: all names up to length 4  *)
(* over the reserved alphabet).  `Naive` is literal interpolation; it is read back correctly exactly for the  *)
(* names characterised by `Harmless`.                                                                         *)
EXTENDS Integers, Sequences, FiniteSets

Q == 63  Amp == 38  Eq == 61  Frag == 35  Pct == 37  Plus == 43  Sp == 32  Slash == 47

\* "/session/minecraft/hasJoined"
PathBytes == <<47,115,101,115,115,105,111,110,47,109,105,110,101,99,114,97,102,116,47,104,97,115,74,111,105,110,101,100>>
KUser == <<117,115,101,114,110,97,109,101>>     \* "username"
KSid  == <<115,101,114,118,101,114,73,100>>     \* "serverId"

HexVal(b) == IF b >= 48 /\ b <= 57 THEN b - 48
             ELSE IF b >= 65 /\ b <= 70 THEN b - 55
             ELSE IF b >= 97 /\ b <= 102 THEN b - 87
             ELSE -1
IsHex(b) == HexVal(b) >= 0

-----------------------------------------------------------------------------
(* The parser.  Index based (no Tail copies); accumulators are explicit sequences.                           *)

\* first position in from..to holding byte c, or to + 1
RECURSIVE IndexIn(_, _, _, _)
IndexIn(s, c, from, to) == IF from > to THEN to + 1 ELSE IF s[from] = c THEN from ELSE IndexIn(s, c, from + 1, to)

\* G2
Sent(u) == SubSeq(u, 1, IndexIn(u, Frag, 1, Len(u)) - 1)

\* G4: form decoding of s[from..to]
RECURSIVE DecodeFrom(_, _, _, _)
DecodeFrom(s, from, to, acc) ==
    IF from > to THEN acc
    ELSE IF s[from] = Plus THEN DecodeFrom(s, from + 1, to, Append(acc, Sp))
    ELSE IF s[from] = Pct /\ from + 2 <= to /\ IsHex(s[from + 1]) /\ IsHex(s[from + 2])
         THEN DecodeFrom(s, from + 3, to, Append(acc, 16 * HexVal(s[from + 1]) + HexVal(s[from + 2])))
    ELSE DecodeFrom(s, from + 1, to, Append(acc, s[from]))
Decode(s) == DecodeFrom(s, 1, Len(s), <<>>)

\* G4: one piece s[from..to] (non-empty) -> <<key, value>>
Pair(s, from, to) ==
    LET e == IndexIn(s, Eq, from, to)                                 \* position of the first '=' in the piece, or to + 1
    IN <<DecodeFrom(s, from, e - 1, <<>>), DecodeFrom(s, e + 1, to, <<>>)>>

\* G4: pieces of s[from..to] separated by '&', empty pieces skipped
RECURSIVE PairsFrom(_, _, _, _)
PairsFrom(s, from, to, acc) ==
    IF from > to THEN acc
    ELSE LET a == IndexIn(s, Amp, from, to)                           \* next '&' at or after from, or to + 1
         IN PairsFrom(s, a + 1, to, IF a = from THEN acc ELSE Append(acc, Pair(s, from, a - 1)))

Parse(target) ==
    LET t == Sent(target)
        q == IndexIn(t, Q, 1, Len(t))                                       \* G1
    IN [path |-> SubSeq(t, 1, q - 1), params |-> PairsFrom(t, q + 1, Len(t), <<>>)]

\* what the property asks of a parsed target
CountOf(p, key) == Cardinality({i \in 1..Len(p.params) : p.params[i][1] = key})
PathFixed(p) == p.path = PathBytes
OneOf(p, key) == CountOf(p, key) = 1
AllAre(p, key, v) == \A i \in 1..Len(p.params) : p.params[i][1] = key => p.params[i][2] = v
NoOtherParams(p) == \A i \in 1..Len(p.params) : p.params[i][1] \in {KUser, KSid}
Good(target, name, hash) ==
    LET p == Parse(target)
    IN PathFixed(p) /\ OneOf(p, KUser) /\ AllAre(p, KUser, name) /\ OneOf(p, KSid) /\ AllAre(p, KSid, hash) /\ NoOtherParams(p)

-----------------------------------------------------------------------------
(* Builders.                                                                                                  *)
Unreserved(b) == (b >= 48 /\ b <= 57) \/ (b >= 65 /\ b <= 90) \/ (b >= 97 /\ b <= 122) \/ b \in {45, 46, 95, 126}
UpperHex(v) == IF v < 10 THEN 48 + v ELSE 55 + v
EncByte(b, plus) == IF Unreserved(b) THEN <<b>>
                    ELSE IF plus /\ b = Sp THEN <<Plus>>
                    ELSE <<Pct, UpperHex(b \div 16), UpperHex(b % 16)>>
RECURSIVE EncFrom(_, _, _, _)
EncFrom(s, i, plus, acc) == IF i > Len(s) THEN acc ELSE EncFrom(s, i + 1, plus, acc \o EncByte(s[i], plus))
Enc(s, plus) == EncFrom(s, 1, plus, <<>>)

Assemble(n, h) == PathBytes \o <<Q>> \o KUser \o <<Eq>> \o n \o <<Amp>> \o KSid \o <<Eq>> \o h
Build(name, hash)     == Assemble(Enc(name, FALSE), Enc(hash, FALSE))      \* the prescribed builder
BuildPlus(name, hash) == Assemble(Enc(name, TRUE), Enc(hash, TRUE))        \* its form-urlencoded variant
Naive(name, hash)     == Sent(Assemble(name, hash))                         \* literal interpolation, as a client sends it

\* names that literal interpolation happens to carry intact: no '&', no '#', no '+', no %XX triple
Harmless(name) == /\ \A i \in 1..Len(name) : name[i] \notin {Amp, Frag, Plus}
                  /\ \A i \in 1..Len(name) : ~(name[i] = Pct /\ i + 2 <= Len(name) /\ IsHex(name[i + 1]) /\ IsHex(name[i + 2]))

-----------------------------------------------------------------------------
(* The reserved alphabet: symbols are byte sequences (one character each).                                   *)
Sigma == { <<97>>, <<Amp>>, <<Eq>>, <<Frag>>, <<Q>>, <<Pct>>, <<Plus>>, <<Sp>>, <<Slash>>,
           <<195, 169>>,            \* U+00E9, two bytes of UTF-8
           <<10>> }                 \* line feed, a control character
RECURSIVE NamesOfLen(_)
NamesOfLen(k) == IF k = 0 THEN {<<>>} ELSE {n \o c : n \in NamesOfLen(k - 1), c \in Sigma}
NamesUpTo(k) == UNION {NamesOfLen(j) : j \in 0..k}
=============================================================================
