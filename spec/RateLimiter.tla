---------------------------- MODULE RateLimiter ----------------------------
(***************************************************************************)
(* passage-protocol/src/rate_limiter.rs: the sliding-window-counter rate   *)
(* limiter, exactly, in integer arithmetic.                                *)
(*                                                                         *)
(* enqueue(key) at time `now`:                                             *)
(*   1 get-or-insert the bucket (window start, prev, cur) = (now, 0, 0)    *)
(*   2 age >= D  : start a new window at `now`; prev := cur (0 if the old  *)
(*                 window is older than 2D); cur := 0                      *)
(*   3 admit iff  prev * (1 - age/D) + cur < limit                         *)
(*                 (integers:  prev*(D-age) + cur*D < limit*D)             *)
(*   4 admitted  : cur += 1; if the last cleanup is >= 2D ago drop every   *)
(*                 bucket whose window started >= 2D ago; publish the      *)
(*                 number of buckets                                       *)
(*                                                                         *)
(* RELATIVE-TIME formulation: every timestamp is stored as an AGE, capped  *)
(* where the algorithm can no longer tell the difference, so the reachable *)
(* state space is finite without bounding time.                            *)
(*                                                                         *)
(* Auxiliary (history) variables carry what the property C13 talks about:  *)
(*   recent[k]  bag of admissions younger than D (for "<= 2*limit in any   *)
(*              interval of length D")                                     *)
(*   shadow[k]  an isolated single-key limiter WITHOUT cleanup fed only    *)
(*              k's attempts (independence from other keys and cleanup)    *)
(*   idle[k]    age of k's last attempt (self-cleaning: tracked => recent) *)
(***************************************************************************)
EXTENDS Integers, Sequences, FiniteSets, TLC

CONSTANTS Keys, D, Limit, MaxDt

VARIABLES b,        \* b[k] = NoBucket or [a |-> age of window start, p |-> prev, c |-> cur]
          clean,    \* age of the last cleanup
          recent, shadow, idle,
          last      \* what the last step was: [op, k, ok, idleBefore, size]
vars == <<b, clean, recent, shadow, idle, last>>

NoBucket == [a |-> -1, p |-> 0, c |-> 0]
Fresh    == [a |-> 0, p |-> 0, c |-> 0]
Cap(x, m) == IF x > m THEN m ELSE x
Tracked == {k \in Keys : b[k].a >= 0}

\* step 2 and 3 on one bucket (pure)
Roll(e)  == IF e.a >= D THEN [a |-> 0, p |-> (IF e.a >= 2*D THEN 0 ELSE e.c), c |-> 0] ELSE e
Admit(e) == e.p * (D - e.a) + e.c * D < Limit * D
Visit(e) == LET e1 == Roll(IF e.a < 0 THEN Fresh ELSE e) IN
            IF Admit(e1) THEN [ok |-> TRUE, e |-> [e1 EXCEPT !.c = @ + 1]] ELSE [ok |-> FALSE, e |-> e1]

Init == /\ b = [k \in Keys |-> NoBucket] /\ clean = 0
        /\ recent = [k \in Keys |-> [i \in 0..D |-> 0]]
        /\ shadow = [k \in Keys |-> NoBucket]
        /\ idle = [k \in Keys |-> 4*D + 1]
        /\ last = [op |-> "init", k |-> CHOOSE k \in Keys : TRUE, ok |-> FALSE, idleBefore |-> 0, size |-> 0]

Enqueue(k) ==
  LET v == Visit(b[k])
      sv == Visit(shadow[k])
      b2 == [b EXCEPT ![k] = v.e]
      doClean == v.ok /\ clean >= 2*D
      b3 == IF doClean THEN [j \in Keys |-> IF b2[j].a >= 0 /\ b2[j].a < 2*D THEN b2[j] ELSE NoBucket] ELSE b2
  IN /\ b' = b3
     /\ clean' = IF doClean THEN 0 ELSE clean
     /\ recent' = IF v.ok THEN [recent EXCEPT ![k][0] = @ + 1] ELSE recent
     /\ shadow' = [shadow EXCEPT ![k] = sv.e]
     /\ idle' = [idle EXCEPT ![k] = 0]
     /\ last' = [op |-> "enq", k |-> k, ok |-> v.ok, idleBefore |-> idle[k],
                 size |-> IF v.ok THEN Cardinality({j \in Keys : b3[j].a >= 0}) ELSE -1,
                 shadowOk |-> sv.ok]

Shift(r, dt) == [i \in 0..D |-> IF i - dt >= 0 THEN r[i - dt] ELSE 0]
Age(e, dt) == IF e.a < 0 THEN e ELSE [e EXCEPT !.a = Cap(@ + dt, 2*D)]
Advance(dt) ==
   /\ b' = [k \in Keys |-> Age(b[k], dt)]
   /\ shadow' = [k \in Keys |-> Age(shadow[k], dt)]
   /\ clean' = Cap(clean + dt, 2*D)
   /\ recent' = [k \in Keys |-> Shift(recent[k], dt)]
   /\ idle' = [k \in Keys |-> Cap(idle[k] + dt, 4*D + 1)]
   /\ last' = [op |-> "adv", k |-> last.k, ok |-> FALSE, idleBefore |-> 0, size |-> -1, dt |-> dt]

Next == (\E dt \in 1..MaxDt : Advance(dt)) \/ (\E k \in Keys : Enqueue(k))
Spec == Init /\ [][Next]_vars

---------------------------------------------------------------------------
(* C13 on the design *)
SumBag(r) == LET S[i \in 0..D] == r[i] + (IF i = 0 THEN 0 ELSE S[i-1]) IN S[D]

\* no more than `limit` admitted between two consecutive window starts (cur counts exactly the admissions of the window)
PerWindow == \A k \in Keys : b[k].a >= 0 => b[k].c <= Limit /\ b[k].p <= Limit
\* never more than 2*limit within any closed interval of length D (the bag holds admissions of age 0..D)
TwoLimit == \A k \in Keys : SumBag(recent[k]) <= 2 * Limit
\* a key that made no attempt for at least 2D is admitted again
IdleReadmit == (last.op = "enq" /\ last.idleBefore >= 2*D) => last.ok
\* decisions for one key are those of an isolated limiter without cleanup
Isolated == last.op = "enq" => last.ok = last.shadowOk
\* where the size is published, every tracked key attempted within the last 4D
TrackedFresh == (last.op = "enq" /\ last.ok) => \A k \in Tracked : idle[k] <= 4*D
SizeIsTracked == (last.op = "enq" /\ last.ok) => last.size = Cardinality(Tracked)

TypeOK == /\ \A k \in Keys : b[k].a \in -1..2*D /\ b[k].p \in 0..Limit /\ b[k].c \in 0..Limit
          /\ clean \in 0..2*D
=============================================================================
