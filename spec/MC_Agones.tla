----------------------------- MODULE MC_Agones -----------------------------
(* Model-checking / history-export wrapper for Agones: the constants TLC's cfg syntax cannot express  *)
(* (sets of records) and the export of histories for the replay into the real AgonesDiscoveryAdapter. *)
EXTENDS Agones, Json

Sh(st, ad, ps, m) == [state |-> st, addr |-> ad, ports |-> ps, meta |-> m]

R1  == Sh("Ready",     "A1",   <<7001, 7002>>, "m1")
R1m == Sh("Ready",     "A1",   <<7001, 7002>>, "m2")   \* only the metadata differs from R1
R2  == Sh("Ready",     "A2",   <<7002, 7001>>, "m1")   \* other address, ports in the other order
R6  == Sh("Ready",     "A6",   <<7003>>,       "m2")   \* IPv6
AL  == Sh("Allocated", "A1",   <<7001, 7002>>, "m1")
RS  == Sh("Reserved",  "A1",   <<7001, 7002>>, "m1")
SH  == Sh("Shutdown",  "A1",   <<7001, 7002>>, "m1")
UH  == Sh("Unhealthy", "A2",   <<7002>>,       "m1")
CR  == Sh("Creating",  "none", <<>>,           "m1")   \* not scheduled yet: no address, no ports
SC  == Sh("Scheduled", "A1",   <<>>,           "m1")   \* address known, ports not yet
BA  == Sh("Ready",     "bad",  <<7001>>,       "m1")   \* Ready, but the address is a host name
BP  == Sh("Ready",     "A1",   <<>>,           "m1")   \* Ready, but no ports

\* exhaustive configurations: one representative per class the handler can tell apart
MC_ShapesCore == {R1, R2, AL, SH, CR, BA}
MC_ShapesMin  == {R1, R2, SH, BA}
\* directed export (exhaustive, one GameServer): offerable or not
MC_ShapesTiny == {R1, R1m, SH}
MC_ShapesPair == {R1, SH}
\* export: the whole alphabet
MC_ShapesAll  == {R1, R1m, R2, R6, AL, RS, SH, UH, CR, SC, BA, BP}

AllInvariants == TypeOK /\ C20 /\ C20_AtAllTimes /\ ViewCatchesUp /\ OfferedWasTrue /\ HistoryConsistent

\* Export only: while a LIST is outstanding the client sees nothing, so at most two writes are spent there (a random walk
\* would otherwise spend most of its steps before the first LIST is answered).  Not used by the exhaustive configurations.
SinceListOrGone == LET I == {i \in 1..Len(hist) : hist[i].k \in {"list", "gone"}}
                   IN Len(hist) - (IF I = {} THEN 0 ELSE CHOOSE i \in I : \A j \in I : j <= i)
ExportConstraint == PendingSeq(hist)[Len(hist)] => SinceListOrGone <= 2

\* one line per history of full length (simulation prints it for every later state of the walk as well;
\* lib/agones_check.py keeps one copy).  expectAfter[i] is computed by the property layer from the steps alone.
Export == (Len(hist) = MaxSteps) =>
  PrintT(<<"REPLAY", ToJson([steps |-> hist,
                             expectAfter |-> [i \in 1..Len(hist) |-> [judged |-> Judged(hist, i), set |-> SetToSeq(Expected(hist, i))]]])>>)
=============================================================================
