\* exhaustive: 3 keys, window of 1 tick, limit 2
CONSTANTS
  Keys = {k1, k2, k3}
  D = 1
  Limit = 2
  MaxDt = 5
  WalkLen = 0
SPECIFICATION XSpec
INVARIANT Props
CHECK_DEADLOCK FALSE
