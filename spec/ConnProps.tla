----------------------------- MODULE ConnProps -----------------------------
(***************************************************************************)
(* Property-level layer for one client connection (C01 C02 C03 C04 C06     *)
(* C10): the listed properties written as predicates over an OBSERVABLE    *)
(* HISTORY and nothing else.  It constrains nothing the statements leave   *)
(* free.  It is used twice:                                                *)
(*  (a) Conn.tla asserts these predicates as invariants of its own history *)
(*      -- TLC shows that the design satisfies the properties;             *)
(*  (b) Trace_ConnProps.tla evaluates the very same predicates on the      *)
(*      histories recorded from the real Connection by harness/hx-core.    *)
(*      Only (b) yields VIOLATION.                                         *)
(*                                                                         *)
(* A history B is a sequence of rounds (one per connection of the same     *)
(* client); a round is a record                                            *)
(*   [secret  |-> "none" | "S" | "S2"    auth secret configured for it,    *)
(*    rc      |-> [ip, age, secret]      what changed since the previous   *)
(*                                       connection ("first" in round 1),  *)
(*    obs     |-> sequence of events     rx / call / tx in observed order, *)
(*    result  |-> "running" | "Ok" | "NoTargetFound" | "MissedKeepAlive"   *)
(*                | "Err" | "Panic",                                       *)
(*    panic, hang, ranAfterEof |-> BOOLEAN, maxAlloc, maxLen |-> Nat]      *)
(* Events:  [e |-> "rx", f |-> frame]   [e |-> "call", c |-> call]         *)
(*          [e |-> "tx", p |-> packet]                                     *)
(***************************************************************************)
EXTENDS Integers, Sequences, FiniteSets

Has(r, fld) == fld \in DOMAIN r

IsRx(x, k)   == x.e = "rx" /\ x.f.k = k
IsTx(x, k)   == x.e = "tx" /\ x.p.k = k
IsCall(x, a) == x.e = "call" /\ x.c.a = a
Idx(h, P(_)) == {i \in 1..Len(h) : P(h[i])}
MinOf(S) == CHOOSE x \in S : \A y \in S : x <= y
MaxOf(S) == CHOOSE x \in S : \A y \in S : y <= x

IsGrant(x) == x.e = "tx" /\ (x.p.k \in {"LoginSuccess","Transfer"} \/ (x.p.k = "StoreCookie" /\ x.p.key = "auth"))
IsAuthCookieRx(x) == IsRx(x, "LoginCookieResponse") /\ Has(x.f, "which") /\ x.f.which = "auth"
IsSessCookieRx(x) == IsRx(x, "LoginCookieResponse") /\ Has(x.f, "which") /\ x.f.which = "session"
IsEncRx(x) == IsRx(x, "EncryptionResponse") /\ Has(x.f, "c")
IsBadFrame(x) == x.e = "rx" /\ (x.f.k = "Malformed" \/ (x.f.k = "Handshake" /\ Has(x.f, "next") /\ x.f.next \in {"next0","next4"}))
IsGarbledTx(x) == x.e = "tx" /\ x.p.k \in {"Undecodable","Unknown"}

Intent(h) == LET I == Idx(h, LAMBDA x : IsRx(x, "Handshake") /\ Has(x.f, "next"))
             IN IF I = {} THEN "none" ELSE h[MinOf(I)].f.next

(***************************************************************************)
(* Which presented authentication cookie is acceptable: a fact about the   *)
(* INPUT.  First connection: the harness built the cookie so that the tag, *)
(* IP and age hold or fail by construction.  Second connection ("jar"):    *)
(* the client presents the bytes the previous connection stored.           *)
(***************************************************************************)
StoredAuth(R) == Idx(R.obs, LAMBDA x : IsTx(x, "StoreCookie") /\ x.p.key = "auth")

JarAcceptable(B, k) ==
  /\ k > 1 /\ StoredAuth(B[k-1]) # {}
  /\ B[k].rc.ip = "same" /\ B[k].rc.age = "within"
  /\ B[k].secret = B[k-1].secret /\ B[k].secret # "none"

ClassAcceptable(B, k, cl) ==
  CASE cl \in {"fresh","justInside","otherPort"} -> TRUE
    [] cl = "jar" -> JarAcceptable(B, k)
    [] OTHER -> FALSE

\* the cookie this connection may rely on: presented on a Transfer connection with a secret configured
AcceptedCookieIdx(B, k) ==
  LET h == B[k].obs IN
  IF Intent(h) = "Transfer" /\ B[k].secret # "none"
  THEN {i \in Idx(h, IsAuthCookieRx) : ClassAcceptable(B, k, h[i].f.v)}
  ELSE {}

\* identity / properties recorded inside the acceptable cookie
CookieWho(B, k, cl) == IF cl = "jar" THEN B[k-1].obs[MinOf(StoredAuth(B[k-1]))].p.who ELSE "cookie"
CookieProps(B, k, cl) == IF cl = "jar" THEN B[k-1].obs[MinOf(StoredAuth(B[k-1]))].p.props ELSE "cookie"

\* identity vouched for on this connection by the authentication service (first successful verdict)
AuthOkIdx(h) == Idx(h, LAMBDA x : IsCall(x, "auth") /\ x.c.ret \in {"same","other"})
VouchedByAuth(h) == IF AuthOkIdx(h) = {} THEN "none"
                    ELSE IF h[MinOf(AuthOkIdx(h))].c.ret = "same" THEN "claimed" ELSE "other"

---------------------------------------------------------------------------
(* Every property is a conjunction of NAMED CLAUSES so that a failing trace can say which part failed. *)

H(B, k) == B[k].obs
Grants(B, k) == Idx(H(B, k), IsGrant)
PlayerCalls(B, k) == Idx(H(B, k), LAMBDA x : IsCall(x, "filter") \/ IsCall(x, "select"))
AuthCalls(B, k) == Idx(H(B, k), LAMBDA x : IsCall(x, "auth"))
Txs(B, k) == Idx(H(B, k), LAMBDA x : x.e = "tx")
Ended(R) == R.result # "running"

\* the identity vouched for on this connection, and the position from which it exists
Vouched(B, k) ==
  LET h == H(B, k)  ck == AcceptedCookieIdx(B, k) IN
  IF VouchedByAuth(h) # "none" THEN VouchedByAuth(h)
  ELSE IF ck # {} THEN CookieWho(B, k, h[MinOf(ck)].f.v) ELSE "none"
VouchedSince(B, k) ==
  LET h == H(B, k)  ck == AcceptedCookieIdx(B, k) IN
  IF AuthOkIdx(h) # {} THEN MinOf(AuthOkIdx(h)) ELSE IF ck # {} THEN MinOf(ck) ELSE Len(h) + 1

---------------------------------------------------------------------------
(* C01  Only an authenticated identity is ever admitted *)

\* a grant only after an identity was vouched for on this connection, and under exactly that identity
C01_GrantOnlyVouched(B, k) ==
  \A i \in Grants(B, k) : /\ Vouched(B, k) # "none" /\ VouchedSince(B, k) < i
                          /\ Has(H(B, k)[i].p, "who") => H(B, k)[i].p.who = Vouched(B, k)
\* the player given to filtering and selection is the vouched one, never the merely claimed one
C01_PlayerIsVouched(B, k) ==
  \A i \in PlayerCalls(B, k) : Vouched(B, k) # "none" /\ VouchedSince(B, k) < i /\ H(B, k)[i].c.who = Vouched(B, k)
\* the service is asked about the claimed name with this connection's secret and the server key
C01_AuthArgs(B, k) ==
  \A i \in AuthCalls(B, k) : H(B, k)[i].c.who = "claimed" /\ H(B, k)[i].c.secretOk /\ H(B, k)[i].c.pubOk
\* a failing service or a dishonest encryption response: nothing granted afterwards, the connection ends with an error
C01_NoGrantOnFailure(B, k) ==
  LET h == H(B, k)
      failed == Idx(h, LAMBDA x : (IsCall(x, "auth") /\ x.c.ret = "err") \/ (IsEncRx(x) /\ x.f.c # "honest"))
  IN failed # {} => /\ \A i \in Grants(B, k) : i < MinOf(failed)
                    /\ B[k].result \in {"Err","Panic","running"} /\ ~B[k].hang
\* what is sent after the key exchange is readable with the secret the client chose
C01_CipherKeyedBySecret(B, k) == Idx(H(B, k), IsGarbledTx) = {}

\* C12 at connection level: the session service is asked about exactly the name (and id) the client claimed in Login Start,
\* with this connection's secret -- whatever cookie was presented and discarded before
C12_AsksAboutClaimedName(B, k) ==
  \A i \in AuthCalls(B, k) : H(B, k)[i].c.who = "claimed" /\ H(B, k)[i].c.secretOk /\ H(B, k)[i].c.pubOk

\* C11 at connection level: the hash towards the session service is over THIS connection's inputs -- the shared secret the client sent
\* and the very public key the Encryption Request carried (however long the client took to answer it)
C11_HashOverThisConnection(B, k) == \A i \in AuthCalls(B, k) : H(B, k)[i].c.secretOk /\ H(B, k)[i].c.pubOk

C01(B, k) == /\ C01_GrantOnlyVouched(B, k) /\ C01_PlayerIsVouched(B, k) /\ C01_AuthArgs(B, k)
             /\ C01_NoGrantOnFailure(B, k) /\ C01_CipherKeyedBySecret(B, k)

---------------------------------------------------------------------------
(* C02  Authentication is skipped only for a valid, unexpired, same-IP signed cookie *)

EncReqs(B, k) == Idx(H(B, k), LAMBDA x : IsTx(x, "EncryptionRequest"))
\* the client is told to authenticate exactly when no acceptable cookie was presented before
C02_FlagIffNoCookie(B, k) ==
  \A i \in EncReqs(B, k) : H(B, k)[i].p.auth = ~(\E j \in AcceptedCookieIdx(B, k) : j < i)
\* a presented cookie, whatever it is, is answered with the Encryption Request (fallback, not failure)
C02_CookieAnswered(B, k) ==
  LET h == H(B, k) IN
  \A i \in Idx(h, IsAuthCookieRx) : IF i < Len(h) THEN IsTx(h[i+1], "EncryptionRequest") ELSE ~Ended(B[k])
\* without an acceptable cookie every grant needs the service's verdict first
\* ... and "first" means the verdict has been RETURNED: where the harness reports when each service answered (rets: service, number of
\* history entries at that moment), every grant lies after the answer -- a request that was given up on has no answer at all
C02_VerdictRequired(B, k) ==
  AcceptedCookieIdx(B, k) = {} =>
      /\ \A i \in Grants(B, k) : \E j \in AuthOkIdx(H(B, k)) : j < i
      /\ Has(B[k], "rets") => \A i \in Grants(B, k) : \E r \in 1..Len(B[k].rets) : B[k].rets[r].a = "auth" /\ B[k].rets[r].at < i
\* with one, the identity in use is exactly the one inside the cookie
C02_IdentityFromCookie(B, k) ==
  LET h == H(B, k)  ck == AcceptedCookieIdx(B, k) IN
  ck # {} => LET cl == h[MinOf(ck)].f.v IN
        /\ \A i \in Grants(B, k) : Has(h[i].p, "who") => h[i].p.who = CookieWho(B, k, cl)
        /\ \A i \in PlayerCalls(B, k) : h[i].c.who = CookieWho(B, k, cl)
        /\ AuthCalls(B, k) = {}

C02(B, k) == C02_FlagIffNoCookie(B, k) /\ C02_CookieAnswered(B, k) /\ C02_VerdictRequired(B, k) /\ C02_IdentityFromCookie(B, k)

---------------------------------------------------------------------------
(* C03  The player is transferred to exactly the target the strategy chose *)

LocaleTable(l) == CASE l = "de_DE" -> "de_DE"      \* a table for the exact region exists
                    [] l = "fr_CA" -> "fr"         \* only the language has a table
                    [] OTHER       -> "en_US"      \* unknown locale, or the default itself
Msg(key, l) == <<key, LocaleTable(l)>>

Disc(B, k) == Idx(H(B, k), LAMBDA x : IsCall(x, "discover"))
Filt(B, k) == Idx(H(B, k), LAMBDA x : IsCall(x, "filter"))
Sel(B, k)  == Idx(H(B, k), LAMBDA x : IsCall(x, "select"))
Transfers(B, k) == Idx(H(B, k), LAMBDA x : IsTx(x, "Transfer"))
ClientInfos(B, k) == Idx(H(B, k), LAMBDA x : IsRx(x, "ClientInfo") /\ Has(x.f, "locale"))
Chosen(B, k) == H(B, k)[MinOf(Sel(B, k))].c.ret

\* candidate lists are handed on unchanged
C03_ListsPassedOn(B, k) ==
  LET h == H(B, k) IN
  /\ Cardinality(Disc(B, k)) <= 1 /\ Cardinality(Filt(B, k)) <= 1 /\ Cardinality(Sel(B, k)) <= 1
  /\ \A i \in Filt(B, k) : Disc(B, k) # {} /\ MinOf(Disc(B, k)) < i /\ h[i].c.in = h[MinOf(Disc(B, k))].c.ret
  /\ \A i \in Sel(B, k) : Filt(B, k) # {} /\ MinOf(Filt(B, k)) < i /\ h[i].c.in = h[MinOf(Filt(B, k))].c.ret
\* at most one Transfer, it is the last packet, and it names the chosen target
C03_TransferIsChoice(B, k) ==
  /\ Cardinality(Transfers(B, k)) <= 1
  /\ \A i \in Transfers(B, k) : /\ i = MaxOf(Txs(B, k))
                                 /\ Sel(B, k) # {} /\ MinOf(Sel(B, k)) < i /\ H(B, k)[i].p.target = Chosen(B, k)
\* a chosen target is transferred to
\* (a call is recorded when it is made; a connection that was timed out for a missed keep-alive may have ended before the call returned)
C03_ChoiceIsTransferred(B, k) ==
  (Ended(B[k]) /\ B[k].result # "MissedKeepAlive" /\ Sel(B, k) # {} /\ Chosen(B, k) \notin {"none","err"}) => Transfers(B, k) # {}
\* no target: Disconnect with the message for the reported locale, no Transfer
C03_NoTargetDisconnect(B, k) ==
  (Ended(B[k]) /\ B[k].result # "MissedKeepAlive" /\ Sel(B, k) # {} /\ Chosen(B, k) = "none") =>
        /\ Transfers(B, k) = {} /\ ClientInfos(B, k) # {} /\ Txs(B, k) # {}
        /\ LET p == H(B, k)[MaxOf(Txs(B, k))].p IN
           /\ p.k = "Disconnect"
           /\ p.msg = Msg("disconnect_no_target", H(B, k)[MaxOf(ClientInfos(B, k))].f.locale)
\* the Transfer and the no-target Disconnect are the outcome of ALL three stages: discovery's list was offered to the filters and the
\* filters' list -- also an empty one -- to the strategy (which may well answer an empty list with a fallback target)
C03_EveryStageConsulted(B, k) ==
  LET h == H(B, k)
      final == {i \in Txs(B, k) : h[i].p.k = "Transfer" \/ (h[i].p.k = "Disconnect" /\ Has(h[i].p, "msg") /\ h[i].p.msg[1] = "disconnect_no_target")}
  IN final # {} => (Disc(B, k) # {} /\ Filt(B, k) # {} /\ Sel(B, k) # {})
\* a failing routing step: no Transfer
C03_ErrorNoTransfer(B, k) ==
  LET h == H(B, k)
      failed == \/ \E i \in Disc(B, k) \cup Filt(B, k) : h[i].c.ret = <<"ERR">>
                \/ \E i \in Sel(B, k) : h[i].c.ret = "err"
  IN failed => Transfers(B, k) = {}

C03(B, k) == /\ C03_EveryStageConsulted(B, k) /\ C03_ListsPassedOn(B, k) /\ C03_TransferIsChoice(B, k) /\ C03_ChoiceIsTransferred(B, k)
             /\ C03_NoTargetDisconnect(B, k) /\ C03_ErrorNoTransfer(B, k)

---------------------------------------------------------------------------
(* C04  No client input can crash the handler or make it allocate unboundedly *)

C04_NoPanic(B, k) == ~B[k].panic /\ B[k].result # "Panic"
C04_EndsByItself(B, k) == ~B[k].hang /\ ~B[k].ranAfterEof
\* largest single request: a few frames' worth while frames are read and decoded; where a decoded string is then PROCESSED (the reported
\* locale by the localization service: rounds tagged procFactor by the check) a pointer-sized record per byte of it is still in proportion
C04_BoundedAllocation(B, k) == B[k].maxAlloc <= (IF Has(B[k], "procFactor") THEN B[k].procFactor ELSE 4) * B[k].maxLen + 65536
C04_BadFrameEndsSilently(B, k) ==
  LET bad == Idx(H(B, k), IsBadFrame) IN
  bad # {} => /\ \A i \in Txs(B, k) : i < MinOf(bad)
              /\ B[k].result \in {"Err","running"}

\* "memory out of proportion to the configured maximum frame size": everything the handler thread holds at once (the harness's own client
\* included) stays within a generous multiple of the maximum frame -- a frame's worth of input must not cost thousands of frames of memory
C04_ProportionateMemory(B, k) == Has(B[k], "peakLive") => B[k].peakLive <= 256 * B[k].maxLen + 4194304
C04(B, k) == C04_NoPanic(B, k) /\ C04_EndsByItself(B, k) /\ C04_BoundedAllocation(B, k) /\ C04_BadFrameEndsSilently(B, k) /\ C04_ProportionateMemory(B, k)

---------------------------------------------------------------------------
(* C06  Packets are only exchanged in protocol order; status and login never mix *)

TxKinds(h) == LET t == SelectSeq(h, LAMBDA x : x.e = "tx") IN [i \in 1..Len(t) |-> t[i].p.k]
IsPrefixOf(s, t) == Len(s) <= Len(t) /\ \A i \in 1..Len(s) : s[i] = t[i]
StripKeepAlive(s) == SelectSeq(s, LAMBDA x : x # "KeepAlive")

LoginPrefix(w) == <<"CookieRequest">> \o (IF w THEN <<"CookieRequest">> ELSE <<>>) \o <<"EncryptionRequest","LoginSuccess">>
Tails == {<<>>, <<"Transfer">>, <<"Disconnect">>, <<"StoreCookie","Transfer">>, <<"StoreCookie","StoreCookie","Transfer">>}

C06_Order(B, k) ==
  LET h == H(B, k)  ks == TxKinds(h) IN
  IF Intent(h) \in {"Status","none","next0","next4"} THEN IsPrefixOf(ks, <<"StatusResponse","Pong">>)
  ELSE \E w \in BOOLEAN :
         \/ IsPrefixOf(ks, LoginPrefix(w))
         \/ /\ IsPrefixOf(LoginPrefix(w), ks)
            \* Keep Alive only after Login Success, before the final packets
            /\ StripKeepAlive(SubSeq(ks, Len(LoginPrefix(w)) + 1, Len(ks))) \in Tails
            /\ \A i \in 1..Len(ks) : ks[i] \in {"Transfer","Disconnect"} => i = Len(ks)
C06_NothingGarbled(B, k) == Idx(H(B, k), IsGarbledTx) = {}
\* the first cookie request is for the session cookie, the second (if any) for the authentication cookie
C06_CookieRequestKeys(B, k) ==
  LET reqs == SelectSeq(H(B, k), LAMBDA x : IsTx(x, "CookieRequest")) IN
  /\ Len(reqs) >= 1 => reqs[1].p.key = "session"
  /\ Len(reqs) >= 2 => reqs[2].p.key = "auth"
\* Login Success only after an honest encryption response
C06_SuccessAfterHonestResponse(B, k) ==
  LET h == H(B, k) IN
  \A i \in Idx(h, LAMBDA x : IsTx(x, "LoginSuccess")) : \E j \in Idx(h, LAMBDA x : IsEncRx(x) /\ x.f.c = "honest") : j < i
\* nothing routing-related before Login Acknowledged and Client Information
C06_RoutingAfterClientInfo(B, k) ==
  LET h == H(B, k) IN
  \A i \in Disc(B, k) \cup Filt(B, k) \cup Sel(B, k) :
     (\E j \in Idx(h, LAMBDA x : IsRx(x, "LoginAck")) : j < i) /\ (\E j \in ClientInfos(B, k) : j < i)
\* status: the service's answer as JSON, then the ping payload echoed, and nothing else
C06_StatusExchange(B, k) ==
  LET h == H(B, k) IN
  /\ \A i \in Idx(h, LAMBDA x : IsTx(x, "StatusResponse")) :
        \E j \in Idx(h, LAMBDA x : IsCall(x, "status") /\ x.c.ret # "err") : j < i /\ h[i].p.body = h[j].c.ret
  /\ \A i \in Idx(h, LAMBDA x : IsTx(x, "Pong")) :
        \E j \in Idx(h, LAMBDA x : IsRx(x, "Ping") /\ Has(x.f, "payload")) : j < i /\ h[i].p.payload = h[j].f.payload
  /\ (B[k].result = "Ok" /\ Intent(h) = "Status") => TxKinds(h) = <<"StatusResponse","Pong">>
\* a login that was routed saw the whole sequence, ending in the Transfer
C06_CompleteLogin(B, k) ==
  LET h == H(B, k) IN
  (B[k].result = "Ok" /\ Intent(h) \in {"Login","Transfer"}) =>
        \E w \in BOOLEAN : IsPrefixOf(LoginPrefix(w), TxKinds(h)) /\ TxKinds(h)[Len(TxKinds(h))] = "Transfer"
\* an unexpected packet (by wire id) or a malformed one ends the connection without a reply
C06_DeviationSilent(B, k) ==
  LET h == H(B, k) IN
  \A i \in Idx(h, LAMBDA x : x.e = "rx" /\ Has(x.f, "unexpected")) \cup Idx(h, IsBadFrame) :
     (\A j \in Txs(B, k) : j < i) /\ B[k].result \in {"Err","Panic","running"}
     \* ... and it ENDS it: the handler does not carry on waiting as if the packet had not been sent
     /\ (Has(h[i].f, "unexpected") => ~B[k].hang)

C06(B, k) == /\ C06_Order(B, k) /\ C06_NothingGarbled(B, k) /\ C06_CookieRequestKeys(B, k)
             /\ C06_SuccessAfterHonestResponse(B, k) /\ C06_RoutingAfterClientInfo(B, k)
             /\ C06_StatusExchange(B, k) /\ C06_CompleteLogin(B, k) /\ C06_DeviationSilent(B, k)

---------------------------------------------------------------------------
(* C10  Issued cookies are verifiable, complete, and accepted on the next transfer *)

SessStores(B, k) == Idx(H(B, k), LAMBDA x : IsTx(x, "StoreCookie") /\ x.p.key = "session")
RoutedOk(B, k) == B[k].result = "Ok" /\ Intent(H(B, k)) \in {"Login","Transfer"} /\ Transfers(B, k) # {}
FreshlyAuthenticated(B, k) == AcceptedCookieIdx(B, k) = {} /\ AuthOkIdx(H(B, k)) # {}
SessPresented(B, k) == LET I == Idx(H(B, k), IsSessCookieRx) IN IF I = {} THEN "unset" ELSE H(B, k)[MinOf(I)].f.v

\* the authentication cookie is issued exactly when freshly authenticated and a secret is configured
C10_AuthCookieIssuedIff(B, k) ==
  /\ Cardinality(StoredAuth(B[k])) <= 1
  /\ RoutedOk(B, k) => ((StoredAuth(B[k]) # {}) <=> (FreshlyAuthenticated(B, k) /\ B[k].secret # "none"))
  /\ StoredAuth(B[k]) # {} => (FreshlyAuthenticated(B, k) /\ B[k].secret # "none")
\* it verifies under the secret and records address, identity, properties, target and time; it precedes the Transfer
C10_AuthCookieContents(B, k) ==
  LET h == H(B, k) IN
  \A i \in StoredAuth(B[k]) :
        /\ \A t \in Transfers(B, k) : i < t
        /\ h[i].p.tagOk /\ h[i].p.timeOk /\ h[i].p.addr = "client"
        /\ h[i].p.who = VouchedByAuth(h) /\ h[i].p.props = "vouched"
        /\ Sel(B, k) # {} /\ h[i].p.target = Chosen(B, k)
\* the session cookie: exactly when the client presented none; fresh id, the handshake's host and port
C10_SessionCookie(B, k) ==
  LET h == H(B, k) IN
  /\ Cardinality(SessStores(B, k)) <= 1
  /\ RoutedOk(B, k) => ((SessStores(B, k) # {}) <=> SessPresented(B, k) = "absent")
  /\ \A i \in SessStores(B, k) : /\ SessPresented(B, k) = "absent"
                                  /\ \A t \in Transfers(B, k) : i < t
                                  /\ h[i].p.host = "handshake" /\ h[i].p.fresh
\* what was stored is accepted on the next transfer from the same IP within the expiry, with the same identity
C10_StoredCookieAccepted(B, k) ==
  LET h == H(B, k) IN
  (k > 1 /\ Intent(h) = "Transfer" /\ \E i \in Idx(h, IsAuthCookieRx) : h[i].f.v = "jar") =>
     /\ \A i \in EncReqs(B, k) : h[i].p.auth = ~JarAcceptable(B, k)
     /\ JarAcceptable(B, k) =>
           /\ EncReqs(B, k) # {}       \* presenting it is answered (whatever its size: it is the cookie this server issued)
           /\ AuthCalls(B, k) = {}
           /\ \A i \in Idx(h, LAMBDA x : IsTx(x, "LoginSuccess")) : h[i].p.who = CookieWho(B, k, "jar")

C10(B, k) == C10_AuthCookieIssuedIff(B, k) /\ C10_AuthCookieContents(B, k) /\ C10_SessionCookie(B, k) /\ C10_StoredCookieAccepted(B, k)

---------------------------------------------------------------------------
ClauseNames(p) ==
  CASE p = "C01" -> {"C01_GrantOnlyVouched","C01_PlayerIsVouched","C01_AuthArgs","C01_NoGrantOnFailure","C01_CipherKeyedBySecret"}
    [] p = "C02" -> {"C02_FlagIffNoCookie","C02_CookieAnswered","C02_VerdictRequired","C02_IdentityFromCookie"}
    [] p = "C03" -> {"C03_EveryStageConsulted", "C03_ListsPassedOn","C03_TransferIsChoice","C03_ChoiceIsTransferred","C03_NoTargetDisconnect","C03_ErrorNoTransfer"}
    [] p = "C04" -> {"C04_ProportionateMemory", "C04_NoPanic","C04_EndsByItself","C04_BoundedAllocation","C04_BadFrameEndsSilently"}
    [] p = "C06" -> {"C06_Order","C06_NothingGarbled","C06_CookieRequestKeys","C06_SuccessAfterHonestResponse",
                     "C06_RoutingAfterClientInfo","C06_StatusExchange","C06_CompleteLogin","C06_DeviationSilent"}
    [] p = "C12" -> {"C12_AsksAboutClaimedName"} [] p = "C11" -> {"C11_HashOverThisConnection"}
    [] p = "C10" -> {"C10_AuthCookieIssuedIff","C10_AuthCookieContents","C10_SessionCookie","C10_StoredCookieAccepted"}
    [] OTHER -> {}

Clause(n, B, k) ==
  CASE n = "C01_GrantOnlyVouched" -> C01_GrantOnlyVouched(B, k) [] n = "C01_PlayerIsVouched" -> C01_PlayerIsVouched(B, k)
    [] n = "C01_AuthArgs" -> C01_AuthArgs(B, k) [] n = "C01_NoGrantOnFailure" -> C01_NoGrantOnFailure(B, k)
    [] n = "C01_CipherKeyedBySecret" -> C01_CipherKeyedBySecret(B, k)
    [] n = "C12_AsksAboutClaimedName" -> C12_AsksAboutClaimedName(B, k)
    [] n = "C02_FlagIffNoCookie" -> C02_FlagIffNoCookie(B, k) [] n = "C02_CookieAnswered" -> C02_CookieAnswered(B, k)
    [] n = "C02_VerdictRequired" -> C02_VerdictRequired(B, k) [] n = "C02_IdentityFromCookie" -> C02_IdentityFromCookie(B, k)
    [] n = "C03_ListsPassedOn" -> C03_ListsPassedOn(B, k) [] n = "C03_TransferIsChoice" -> C03_TransferIsChoice(B, k)
    [] n = "C03_ChoiceIsTransferred" -> C03_ChoiceIsTransferred(B, k) [] n = "C03_NoTargetDisconnect" -> C03_NoTargetDisconnect(B, k)
    [] n = "C03_ErrorNoTransfer" -> C03_ErrorNoTransfer(B, k) [] n = "C03_EveryStageConsulted" -> C03_EveryStageConsulted(B, k)
    [] n = "C04_NoPanic" -> C04_NoPanic(B, k) [] n = "C04_EndsByItself" -> C04_EndsByItself(B, k)
    [] n = "C04_BoundedAllocation" -> C04_BoundedAllocation(B, k) [] n = "C04_BadFrameEndsSilently" -> C04_BadFrameEndsSilently(B, k)
    [] n = "C04_ProportionateMemory" -> C04_ProportionateMemory(B, k) [] n = "C11_HashOverThisConnection" -> C11_HashOverThisConnection(B, k)
    [] n = "C06_Order" -> C06_Order(B, k) [] n = "C06_NothingGarbled" -> C06_NothingGarbled(B, k)
    [] n = "C06_CookieRequestKeys" -> C06_CookieRequestKeys(B, k) [] n = "C06_SuccessAfterHonestResponse" -> C06_SuccessAfterHonestResponse(B, k)
    [] n = "C06_RoutingAfterClientInfo" -> C06_RoutingAfterClientInfo(B, k) [] n = "C06_StatusExchange" -> C06_StatusExchange(B, k)
    [] n = "C06_CompleteLogin" -> C06_CompleteLogin(B, k) [] n = "C06_DeviationSilent" -> C06_DeviationSilent(B, k)
    [] n = "C10_AuthCookieIssuedIff" -> C10_AuthCookieIssuedIff(B, k) [] n = "C10_AuthCookieContents" -> C10_AuthCookieContents(B, k)
    [] n = "C10_SessionCookie" -> C10_SessionCookie(B, k) [] n = "C10_StoredCookieAccepted" -> C10_StoredCookieAccepted(B, k)
    [] OTHER -> FALSE

AllConnProps(B, k) == C01(B, k) /\ C02(B, k) /\ C03(B, k) /\ C04(B, k) /\ C06(B, k) /\ C10(B, k)
=============================================================================
