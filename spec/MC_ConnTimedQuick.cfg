CONSTANTS
  P = 16
  AuthLats = {0, 18}
  AckDelays = {1, 13}
  InfoDelays = {0, 24}
  Lats <- MC_LatsQuick
  Policies = {"prompt", "slow", "late", "never", "wrong", "dup", "unsolicited"}
SPECIFICATION Spec
INVARIANTS C07 Export
CHECK_DEADLOCK FALSE
