CONSTANTS MaxLen = 7
SPECIFICATION Spec
INVARIANTS LimitHolds Export
CHECK_DEADLOCK FALSE
