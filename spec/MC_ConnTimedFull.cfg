\* all combinations: authentication latency (late first tick), 5 ack offsets x 4 info delays x 4^3 stage latencies x 7 echo policies
CONSTANTS
  P = 16
  AuthLats = {0, 18, 34}
  AckDelays = {1, 3, 13, 17, 21}
  InfoDelays = {0, 4, 16, 24}
  Lats <- MC_LatsFull
  Policies = {"prompt", "slow", "late", "never", "wrong", "dup", "unsolicited"}
SPECIFICATION Spec
INVARIANTS C07 Export
CHECK_DEADLOCK FALSE
