\* all combinations: authentication latency (late first tick), 4 ack offsets x 3 info delays x 4^3 stage latencies x 7 echo policies
CONSTANTS
  P = 16
  AuthLats = {0, 18}
  AckDelays = {1, 3, 13, 21}
  InfoDelays = {0, 4, 24}
  Lats <- MC_LatsFull
  Policies = {"prompt", "slow", "late", "never", "wrong", "dup", "unsolicited"}
SPECIFICATION Spec
INVARIANTS C07 Export
CHECK_DEADLOCK FALSE
