------------------------------ MODULE MC_Wire ------------------------------
(* Model-checking / vector-export wrapper for Wire (C09).  One state per test vector: the invariants     *)
(* M_* check the reference codec on it (round trip, full consumption, length limits, ordinal rejection)   *)
(* and Export prints it for the replay harness:                                                           *)
(*   <<"REPLAY", ToJson([i, kind, type, phase, dir, id, value, vary, bytes])>>                              *)
(* kind "packet":  value = record of field values, bytes = hex of the body encoding                       *)
(*      "varint" / "varlong": value = [v |-> integer] / [l |-> <<l0,l1,l2,l3>> 16-bit limbs, least first]   *)
(*      "reject":  value = [base, field, ordinal]; bytes = body with that enum field's ordinal outside      *)
(*      "overlong": value = [raw |-> bytes] a VarInt / VarLong with the continuation bit on its last legal byte *)
(* Value vocabulary: integers, booleans, enum labels, byte sequences as arrays, 64-bit numbers as 4 limbs, *)
(* optionals as [some |-> FALSE] / [some |-> TRUE, v |-> x], text components as [form, s] / [form, k, v]. *)
EXTENDS Wire, WireData, Json, SequencesExt

CONSTANTS Delta,      \* VarInt / VarLong values within +-Delta of every boundary
          Long        \* include the 16383/16384/32767-byte strings and 5120-byte arrays

VARIABLE cur       \* index of the current vector

MaxI == 2147483647
MinI == -2147483647 - 1
T(s) == <<>> \o s                                         \* as a tuple

(* ------------------------------------------------------------------------------------------------ *)
(* field domains                                                                                      *)
(* ------------------------------------------------------------------------------------------------ *)
\* (big = TRUE adds the 16383/16384/32767-byte strings and the 5120/16384-byte arrays)
\* 16400 two-byte characters: 32800 BYTES but only 16400 UTF-16 units -- within every 32767 limit, which counts units, not bytes
BigTwo   == T([i \in 1..32800 |-> IF i % 2 = 1 THEN 195 ELSE 169])
\* the longest string there is: 32767 three-byte characters, 98301 bytes
MaxThree == T([i \in 1..98301 |-> <<226, 130, 172>>[((i - 1) % 3) + 1]])
StrValsL(big)  == {StringTable[k] : k \in DOMAIN StringTable} \cup {BigTwo}
                  \cup (IF big THEN {T(Rep(97, 16383)), T(Rep(97, 16384)), T(Rep(122, 32767)), T(Rep(98, 2097)), MaxThree} ELSE {})
IdentVals == {IdentTable[k] : k \in DOMAIN IdentTable}
ByteValsL(big) == {<<>>, <<0>>, <<255>>, <<128, 0, 127, 255>>, T([i \in 1..127 |-> i]), T([i \in 1..128 |-> 256 - i]), T([i \in 1..256 |-> i - 1])}
                  \cup (IF big THEN {T(Rep(165, 5120)), T(Rep(1, 16384))} ELSE {})
Bytes32   == {T(Rep(0, 32)), T(Rep(255, 32)), T([i \in 1..32 |-> 8 * i - 1])}
UuidVals  == {T(Rep(0, 16)), T(Rep(255, 16)), T([i \in 1..16 |-> 16 * i - 1]),
              <<6, 157, 121, 246, 105, 196, 67, 98, 145, 204, 84, 85, 118, 226, 38, 105>>}
U64Vals   == {<<0, 0, 0, 0>>, <<1, 0, 0, 0>>, <<65535, 65535, 65535, 65535>>, <<65535, 65535, 65535, 32767>>, <<0, 0, 0, 32768>>,
              <<65535, 65535, 0, 0>>, <<0, 0, 1, 0>>, <<52719, 35243, 17767, 291>>, <<255, 0, 0, 0>>, <<0, 0, 0, 256>>}
I32Vals   == {0, 1, -1, 127, 128, 255, 256, 65535, 65536, 16777215, 16777216, 305419896, -2, MaxI, MinI}
VarIntFieldVals == {0, 1, -1, 47, 127, 128, 767, 769, 16383, 16384, 2097151, 2097152, 268435455, 268435456, MaxI, MinI}
TextStrings == {s \in StrValsL(FALSE) : s = <<>> \/ s[1] # 123}
TextVals  == {[form |-> "string", s |-> s] : s \in TextStrings}
             \cup {[form |-> "compound", k |-> StringTable.ascii, v |-> StringTable.empty],
                   [form |-> "compound", k |-> <<116, 101, 120, 116>>, v |-> StringTable.ascii],
                   [form |-> "compound", k |-> <<116, 101, 120, 116>>, v |-> StringTable.mixed],
                   [form |-> "compound", k |-> StringTable.three, v |-> StringTable.four],
                   [form |-> "compound", k |-> <<116, 101, 120, 116>>, v |-> StringTable.len128two]}
Opts(S)   == {[some |-> FALSE]} \cup {[some |-> TRUE, v |-> x] : x \in S}

DomOfL(f, big) ==
    CASE f.t = "varint"   -> VarIntFieldVals
      [] f.t = "port"     -> {0, 1, 127, 128, 255, 256, 16383, 16384, 25565, 65535}
      [] f.t = "string"   -> {s \in StrValsL(big) : Units(s) <= f.lim}
      [] f.t = "ident"    -> IdentVals
      [] f.t = "u16"      -> {0, 1, 255, 256, 25565, 32767, 32768, 65535}
      [] f.t = "u8"       -> {0, 1, 64, 127, 128, 255}
      [] f.t = "i8"       -> {-128, -1, 0, 1, 2, 32, 127}
      [] f.t = "i32"      -> I32Vals
      [] f.t = "u64"      -> U64Vals
      [] f.t = "bool"     -> BOOLEAN
      [] f.t = "uuid"     -> UuidVals
      [] f.t = "bytes"    -> ByteValsL(big)
      [] f.t = "bytes32"  -> Bytes32
      [] f.t = "optbytes" -> Opts(ByteValsL(big))
      [] f.t = "text"     -> TextVals
      [] f.t = "opttext"  -> Opts(TextVals)
      [] f.t = "enum"     -> {Enums[f.e].labels[i] : i \in DOMAIN Enums[f.e].labels}
      [] f.t = "noprops"  -> {<<>>}
DomOf(f) == DomOfL(f, Long)

BaseOf(f) ==
    CASE f.t = "varint"   -> 769
      [] f.t = "port"     -> 25565
      [] f.t = "string"   -> IF f.lim >= 9 THEN StringTable.ascii ELSE StringTable.one
      [] f.t = "ident"    -> IdentTable.id_session
      [] f.t = "u16"      -> 25565
      [] f.t = "u8"       -> 127
      [] f.t = "i8"       -> 10
      [] f.t = "i32"      -> 305419896
      [] f.t = "u64"      -> <<52719, 35243, 17767, 291>>
      [] f.t = "bool"     -> TRUE
      [] f.t = "uuid"     -> <<6, 157, 121, 246, 105, 196, 67, 98, 145, 204, 84, 85, 118, 226, 38, 105>>
      [] f.t = "bytes"    -> <<128, 0, 127, 255>>
      [] f.t = "bytes32"  -> T([i \in 1..32 |-> 8 * i - 1])
      [] f.t = "optbytes" -> [some |-> TRUE, v |-> <<128, 0, 127, 255>>]
      [] f.t = "text"     -> [form |-> "string", s |-> StringTable.ascii]
      [] f.t = "opttext"  -> [some |-> TRUE, v |-> [form |-> "string", s |-> StringTable.ascii]]
      [] f.t = "enum"     -> Enums[f.e].labels[Len(Enums[f.e].labels)]
      [] f.t = "noprops"  -> <<>>

(* ------------------------------------------------------------------------------------------------ *)
(* packet values: the base value, every field through its whole domain with the others at base,       *)
(* "diagonals" moving all fields at once, and (Long) the products of neighbouring fields               *)
(* ------------------------------------------------------------------------------------------------ *)
FieldNamed(p, nm) == p.fields[CHOOSE i \in DOMAIN p.fields : p.fields[i].n = nm]
Names(p)    == {p.fields[i].n : i \in DOMAIN p.fields}
BaseVal(p)  == [nm \in Names(p) |-> BaseOf(FieldNamed(p, nm))]
OneByOne(p) == UNION {{[BaseVal(p) EXCEPT ![p.fields[i].n] = v] : v \in DomOf(p.fields[i])} : i \in DOMAIN p.fields}
Widest(p)   == SetMax({Cardinality(DomOf(p.fields[i])) : i \in DOMAIN p.fields})
Diagonal(p) == IF p.fields = <<>> THEN {}
               ELSE LET ds == [nm \in Names(p) |-> SetToSeq(DomOf(FieldNamed(p, nm)))]
                    IN {[nm \in Names(p) |-> ds[nm][(k % Len(ds[nm])) + 1]] : k \in 0..(Widest(p) - 1)}
\* (Long only) every two NEIGHBOURING fields through the full product of their domains (without the big values)
AdjPairs(p) == IF ~Long THEN {}
               ELSE UNION {{[BaseVal(p) EXCEPT ![p.fields[i].n] = x, ![p.fields[i + 1].n] = y] :
                               x \in DomOfL(p.fields[i], FALSE), y \in DomOfL(p.fields[i + 1], FALSE)} : i \in 1..(Len(p.fields) - 1)}
ValuesOf(p) == {BaseVal(p)} \cup OneByOne(p) \cup Diagonal(p) \cup AdjPairs(p)

\* vary: the fields in which a packet value differs from the base value (informational, used to name a vector)
Vec(kind, p, value, vary, bs) == [kind |-> kind, type |-> p.type, phase |-> p.phase, dir |-> p.dir, id |-> p.id, value |-> value,
                                  vary |-> SetToSeq(vary), bytes |-> HexOf(bs)]
PacketVecs(p) == LET vs == SetToSeq(ValuesOf(p)) IN
                 [j \in DOMAIN vs |-> Vec("packet", p, vs[j], {nm \in Names(p) : vs[j][nm] # BaseVal(p)[nm]}, Encode(p.key, vs[j]))]

(* enum ordinals outside the defined range, in every packet with an enum field *)
BadOrdinals(e) == OutsideOrdinals(e) \cup (IF Long THEN {127, 128, 255, 256, MaxI, MinI} \ Ordinals(e) ELSE {})
RejectVecs(p) == LET es == SetToSeq({<<i, o>> \in (DOMAIN p.fields) \X (((-9)..9) \cup {127, 128, 255, 256, MaxI, MinI}) :
                                        p.fields[i].t = "enum" /\ o \in BadOrdinals(p.fields[i].e)})
                 IN [j \in DOMAIN es |-> LET f == p.fields[es[j][1]] IN
                       Vec("reject", p, [base |-> BaseVal(p), field |-> f.n, ordinal |-> es[j][2]], {f.n},
                           EncodeWithRaw(p.key, BaseVal(p), f.n, EncVarInt(es[j][2])))]

(* ------------------------------------------------------------------------------------------------ *)
(* bare VarInt / VarLong values: within +-Delta of 0, of every 7-bit boundary 2^(7k) and its negative,  *)
(* of the byte / word boundaries, and of the extremes                                                 *)
(* ------------------------------------------------------------------------------------------------ *)
Around(b) == {b + d : d \in (-Delta)..Delta}
VarIntBoundaries == {0, 128, 16384, 2097152, 268435456, -128, -16384, -2097152, -268435456, 256, 65536, 16777216, -65536, 1073741824, -1073741824}
VarIntVals == UNION {Around(b) : b \in VarIntBoundaries} \cup {MaxI - d : d \in 0..Delta} \cup {MinI + d : d \in 0..Delta} \cup {25565, 769}

Z64 == <<0, 0, 0, 0>>
AroundL(l) == {AddSmall(l, d) : d \in (-Delta)..Delta}
VarLongBoundaries == {Z64} \cup {PowL(7 * k, 4) : k \in 1..9} \cup {NegL(PowL(7 * k, 4)) : k \in 1..9}
                     \cup {PowL(k, 4) : k \in {16, 31, 32, 48, 62}} \cup {NegL(PowL(k, 4)) : k \in {16, 31, 32, 48, 62}}
VarLongVals == UNION {AroundL(l) : l \in VarLongBoundaries}
               \cup {AddSmall(<<65535, 65535, 65535, 32767>>, -d) : d \in 0..Delta}      \* 2^63 - 1 downwards
               \cup {AddSmall(<<0, 0, 0, 32768>>, d) : d \in 0..Delta}                   \* -2^63 upwards

Bare(kind, type, value, bs) == [kind |-> kind, type |-> type, phase |-> "", dir |-> "", id |-> 0, value |-> value, vary |-> <<>>, bytes |-> HexOf(bs)]
VarIntVecs  == LET vs == SetToSeq(VarIntVals)  IN [j \in DOMAIN vs |-> Bare("varint", "VarInt", [v |-> vs[j]], EncVarInt(vs[j]))]
VarLongVecs == LET vs == SetToSeq(VarLongVals) IN [j \in DOMAIN vs |-> Bare("varlong", "VarLong", [l |-> vs[j]], EncVarLong(vs[j]))]
OverlongRaw == <<[t |-> "VarInt", raw |-> <<255, 255, 255, 255, 255, 1>>], [t |-> "VarInt", raw |-> <<128, 128, 128, 128, 128, 0>>],
                 [t |-> "VarLong", raw |-> T(Rep(255, 10)) \o <<1>>], [t |-> "VarLong", raw |-> T(Rep(128, 10)) \o <<0>>]>>
OverlongVecs == [j \in DOMAIN OverlongRaw |-> Bare("overlong", OverlongRaw[j].t, [raw |-> OverlongRaw[j].raw], OverlongRaw[j].raw)]

Vecs == FlattenSeq([i \in DOMAIN Packets |-> PacketVecs(Packets[i])]) \o FlattenSeq([i \in DOMAIN Packets |-> RejectVecs(Packets[i])])
        \o VarIntVecs \o VarLongVecs \o OverlongVecs

Init == cur = 0
Next == cur < Len(Vecs) /\ cur' = cur + 1
Spec == Init /\ [][Next]_cur

(* ------------------------------------------------------------------------------------------------ *)
(* the codec's own properties on the current vector                                                    *)
(* ------------------------------------------------------------------------------------------------ *)
Cur == Vecs[cur]
CurKey == KeyOf(Cur.phase, Cur.dir, Cur.type)
ASSUME M_TableWellFormed ==
                     /\ Cardinality(PacketKeys) = Len(Packets)
                     /\ \A i, j \in DOMAIN Packets : (i # j /\ Packets[i].phase = Packets[j].phase /\ Packets[i].dir = Packets[j].dir) => Packets[i].id # Packets[j].id
M_RoundTrip       == (cur >= 1 /\ Cur.kind = "packet") => InLimits(CurKey, Cur.value) /\ RoundTrip(CurKey, Cur.value)
M_VarIntRoundTrip == (cur >= 1 /\ Cur.kind = "varint") => VarIntRoundTrip(Cur.value.v) /\ VarBytesWellFormed(EncVarInt(Cur.value.v))
M_VarLongRoundTrip == (cur >= 1 /\ Cur.kind = "varlong") => IsLimbs(Cur.value.l, 4) /\ VarLongRoundTrip(Cur.value.l) /\ VarBytesWellFormed(EncVarLong(Cur.value.l))
M_OrdinalRejected == (cur >= 1 /\ Cur.kind = "reject") =>
                        LET f == FieldNamed(PacketOf(CurKey), Cur.value.field) IN
                        /\ Cur.value.ordinal \notin Ordinals(f.e)
                        /\ Rejects(CurKey, EncodeWithRaw(CurKey, Cur.value.base, f.n, EncVarInt(Cur.value.ordinal)))
M_OverlongRejected == (cur >= 1 /\ Cur.kind = "overlong") => ~DecVar(Cur.value.raw, 1, IF Cur.type = "VarInt" THEN 5 ELSE 10).ok

Export == cur >= 1 => PrintT(<<"REPLAY", ToJson([i |-> cur] @@ Cur)>>)
=============================================================================
