\* the cancel-safe design: C08 holds under every interleaving of delivery, reads, ticks, routing completions and partial writes
CONSTANTS
  InLens <- MC_InLens
  PrefixLen <- MC_PrefixLen
  OutLens <- MC_OutLens
  MaxCancels = 2
  CancelSafe = TRUE
SPECIFICATION Spec
INVARIANTS C08
CHECK_DEADLOCK FALSE
