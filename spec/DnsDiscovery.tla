---------------------------- MODULE DnsDiscovery ----------------------------
(***************************************************************************)
(* passage-adapters/dns/src/discovery_adapter.rs  DnsDiscoveryAdapter      *)
(* (growth of the specification beyond the listed properties).             *)
(*                                                                         *)
(* The adapter is the Refresher component (Refresher.tla: interval with    *)
(* Skip, cache replaced on success only) whose "fetch" is one of           *)
(*   SRV mode:  srv_lookup(domain); for every SRV record IN ANSWER ORDER   *)
(*              lookup_ip(record.target); for every address one target     *)
(*              (identifier "<target name>:<port>", address ip:port,       *)
(*              metadata priority / weight of the SRV record)              *)
(*   A mode:    lookup_ip(domain); for every address one target            *)
(*              (identifier "<domain>:<configured port>", no metadata)     *)
(* A refresh FAILS as a whole -- and the cache stays what it was -- when   *)
(* the SRV question or any one address question has no usable answer       *)
(* (name error, server failure, or an answer without records: the resolver *)
(* reports "no records found" as an error).  lookup_ip uses the resolver's *)
(* default strategy: IPv4 first, IPv6 only when there is no IPv4 record.   *)
(*                                                                         *)
(* A zone is what the name server would answer at one moment:              *)
(*   src   : "ok" | "nx" | "servfail"  (answer code of the SRV question)   *)
(*   recs  : a sequence of records [prio, weight, port, host]              *)
(*           (<<>> = the name exists, no SRV record)                       *)
(*   hosts : host -> [v4 : Seq(addr), v6 : Seq(addr), rc : "ok"|"nx"|      *)
(*            "servfail"]                                                  *)
(***************************************************************************)
EXTENDS Integers, Sequences, FiniteSets, TLC

\* ---- lookup_ip with the Ipv4thenIpv6 strategy: <<ok, addresses>>
LookupIp(h) == IF h.rc # "ok" THEN <<FALSE, <<>>>>
               ELSE IF h.v4 # <<>> THEN <<TRUE, h.v4>>
               ELSE IF h.v6 # <<>> THEN <<TRUE, h.v6>>
               ELSE <<FALSE, <<>>>>

TargetsOfRecord(r, addrs) ==
  [i \in 1..Len(addrs) |-> [id |-> r.host, port |-> r.port, ip |-> addrs[i], prio |-> r.prio, weight |-> r.weight]]

RECURSIVE SrvFold(_, _, _)
SrvFold(recs, hosts, acc) ==
  IF recs = <<>> THEN <<TRUE, acc>>
  ELSE LET r == Head(recs)
           l == LookupIp(hosts[r.host])
       IN IF ~l[1] THEN <<FALSE, <<>>>>
          ELSE SrvFold(Tail(recs), hosts, acc \o TargetsOfRecord(r, l[2]))

\* one refresh in SRV mode: <<ok, targets>>
RefreshSrv(zone) ==
  IF zone.src # "ok" THEN <<FALSE, <<>>>>
  ELSE IF zone.recs = <<>> THEN <<FALSE, <<>>>>             \* "no records found" is an error for the resolver
  ELSE SrvFold(zone.recs, zone.hosts, <<>>)

\* one refresh in A mode (the domain itself is the host "self", the port is configured)
RefreshA(zone, port) ==
  LET l == LookupIp(zone.hosts["self"]) IN
  IF ~l[1] THEN <<FALSE, <<>>>>
  ELSE <<TRUE, [i \in 1..Len(l[2]) |-> [id |-> "self", port |-> port, ip |-> l[2][i], prio |-> -1, weight |-> -1]]>>

Refresh(mode, zone, port) == IF mode = "srv" THEN RefreshSrv(zone) ELSE RefreshA(zone, port)

\* the cache after a refresh: replaced on success only
CacheAfter(cache, res) == IF res[1] THEN res[2] ELSE cache

\* ---- a history: the zone changes between refreshes; what readers see after each refresh
RECURSIVE Run(_, _, _, _)
Run(mode, zones, port, cache) ==
  IF zones = <<>> THEN <<>>
  ELSE LET c == CacheAfter(cache, Refresh(mode, Head(zones), port)) IN <<c>> \o Run(mode, Tail(zones), port, c)

\* ---- design facts (checked over the bounded zone space by MC_DnsDiscovery)
\* every offered target comes from a record of the zone of the latest successful refresh (nothing invented, nothing merged across refreshes)
FromOneZone(mode, zones, port) ==
  LET seen == Run(mode, zones, port, <<>>) IN
  \A k \in 1..Len(zones) :
    \/ seen[k] = <<>> /\ \A j \in 1..k : ~Refresh(mode, zones[j], port)[1]
    \/ \E j \in 1..k : /\ Refresh(mode, zones[j], port)[1] /\ seen[k] = Refresh(mode, zones[j], port)[2]
                       /\ \A m \in (j+1)..k : ~Refresh(mode, zones[m], port)[1]
\* a target's port and metadata are those of the SRV record that named its host
PortFromRecord(zone) ==
  LET r == RefreshSrv(zone) IN
  r[1] => \A i \in 1..Len(r[2]) : \E k \in 1..Len(zone.recs) :
            /\ zone.recs[k].host = r[2][i].id /\ zone.recs[k].port = r[2][i].port
            /\ zone.recs[k].prio = r[2][i].prio /\ zone.recs[k].weight = r[2][i].weight
\* never an IPv6 target for a host that has an IPv4 record
V4First(zone) ==
  LET r == RefreshSrv(zone) IN
  r[1] => \A i \in 1..Len(r[2]) : LET h == zone.hosts[r[2][i].id] IN
            (h.v4 # <<>> => \E k \in 1..Len(h.v4) : h.v4[k] = r[2][i].ip)
=============================================================================
