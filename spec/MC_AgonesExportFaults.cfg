\* C20 history export (run with -simulate), fault-heavy: few shapes and names, so that a random walk spends its steps on
\* deletes, drops and 410 re-lists rather than on the many possible creates/modifies
CONSTANTS
  Names = {"a", "b"}
  Shapes <- MC_ShapesCore
  MaxWrites = 5
  MaxFaults = 2
  MaxBookmarks = 1
  MaxSteps = 8
  AppliedOnly = FALSE
SPECIFICATION Spec
INVARIANTS AllInvariants Export
CONSTRAINT ExportConstraint
CHECK_DEADLOCK FALSE
