---------------------------- MODULE Trace_Frames ----------------------------
(* Trace validation for C08: every record holds two timestamped histories of the SAME scenario recorded from the real  *)
(* Connection -- `ref`: each client frame delivered whole (at the moment its last byte arrives in the other run) and a *)
(* transport that accepts whole writes; the record itself: the same frames cut at some offset with a pause in which a   *)
(* keep-alive deadline or a routing completion falls, and/or a transport that accepts clientbound frames partially.    *)
(* C08: what the connection does must be the same, and the timer clauses of C07 must hold on the segmented run too.    *)
EXTENDS ConnTimedProps, Json, IOUtils, TLC

Recs == ndJsonDeserialize(IOEnv.TRACE)
VARIABLE n
Init == n = 0
Next == n < Len(Recs) /\ n' = n + 1
Spec == Init /\ [][Next]_n

Drop(r, f) == [x \in DOMAIN r \ {f} |-> r[x]]
TxSeq(h) == LET s == SelectSeq(h, LAMBDA x : x.e = "tx") IN [i \in 1..Len(s) |-> s[i].p]
CallSeq(h) == LET s == SelectSeq(h, LAMBDA x : x.e = "call") IN [i \in 1..Len(s) |-> s[i].c]

\* the packets it sends, the services it consults (with what arguments) and its final outcome do not depend on segmentation
C08_SamePackets(r) == TxSeq(r.obs) = TxSeq(r.ref.obs)
C08_SameServiceCalls(r) == CallSeq(r.obs) = CallSeq(r.ref.obs)
C08_SameOutcome(r) == r.result = r.ref.result /\ ~r.panic
\* every frame sent to the client arrives complete and uninterleaved: the reassembled stream decodes without remainder
C08_WholeFramesToClient(r) == r.leftover = 0 /\ Idx(r.obs, LAMBDA x : x.e = "tx" /\ x.p.k \in {"Undecodable", "Unknown"}) = {}
\* the keep-alive timer does not care how the client's bytes are segmented (the C07 clauses hold on the segmented run)
\* (not judged when the transport itself withheld clientbound bytes: then the client sees the Keep Alive late by the transport's doing)
C08_TimerUnaffected(r) == r.stalled \/ \A c \in C07Names : C07Clause(c, r)

Names == {"C08_SamePackets", "C08_SameServiceCalls", "C08_SameOutcome", "C08_WholeFramesToClient", "C08_TimerUnaffected"}
Clause(c, r) == CASE c = "C08_SamePackets" -> C08_SamePackets(r) [] c = "C08_SameServiceCalls" -> C08_SameServiceCalls(r)
                  [] c = "C08_SameOutcome" -> C08_SameOutcome(r) [] c = "C08_WholeFramesToClient" -> C08_WholeFramesToClient(r)
                  [] c = "C08_TimerUnaffected" -> C08_TimerUnaffected(r) [] OTHER -> FALSE
Judge == n >= 1 => LET bad == {c \in Names : ~Clause(c, Recs[n])} IN
                   bad = {} \/ PrintT(<<"FAIL", ToJson([line |-> n, clauses |-> bad])>>)
AllConsumed == TLCGet("stats").diameter = Len(Recs) + 1 \/ PrintT(<<"NOTCONSUMED", ToJson([d |-> TLCGet("stats").diameter])>>)
=============================================================================
