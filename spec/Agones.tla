------------------------------- MODULE Agones -------------------------------
(***************************************************************************)
(* C20: the design of Agones discovery (passage-adapters/agones): a        *)
(* Kubernetes API server holding GameServer objects, the watch protocol,   *)
(* kube::runtime::watcher (the state machine that turns LIST results and   *)
(* watch events into watcher::Event values), the adapter's event handler   *)
(* and its cache of offered targets.                                       *)
(*                                                                         *)
(*   API server         ApiCreate ApiModify ApiDelete   (objs, log)        *)
(*   watch protocol     WInit WList                      LIST  -> Init, InitApply*, InitDone *)
(*                      WSend WRecv                      ADDED/MODIFIED -> Apply, DELETED -> Delete *)
(*                      Bookmark                         BOOKMARK: only the resume point moves *)
(*                      WNoise                           ERROR event (not 410): nothing changes *)
(*                      WDrop                            connection lost: re-watch from the last seen resourceVersion *)
(*                      WExpire                          410 Gone: the watcher starts over with a LIST *)
(*   adapter            HInit HInitApply HInitDone HApply HDelete  one action per watcher::Event *)
(*                                                                         *)
(* Design switch AppliedOnly:                                              *)
(*   FALSE  the handler consumes watcher::Event values (the design that    *)
(*          satisfies the property; MC_AgonesQuick/Full/Export.cfg);       *)
(*   TRUE   the handler sits behind `.applied_objects()` as in today's     *)
(*          discovery_adapter.rs: Init, InitDone and Delete never reach    *)
(*          it, and an object that cannot be converted is skipped (`warn!; *)
(*          continue`) -- MC_AgonesToday.cfg documents the counterexample. *)
(*                                                                         *)
(* Property (invariant C20):  Quiescent => CacheSet = ReadySetOf(objs)     *)
(* with ReadySetOf from AgonesProps: the objects whose latest state is     *)
(* Ready or Allocated and that can be converted, each with its current     *)
(* address, FIRST port, state and metadata version.  The "at all times"    *)
(* part is the invariant C20_AtAllTimes over the ghost variable view (the  *)
(* descriptions the adapter has observed so far): CacheSet =               *)
(* ReadySetOf(view) in every state, e.g. also while a re-list is under way.*)
(*                                                                         *)
(* hist records the API-level steps (what a test can do TO the adapter     *)
(* from the outside: writes, answering the LIST, killing the connection,   *)
(* 410, bookmark).  Everything else (sending, receiving, handling) happens *)
(* by itself and is interleaved freely.                                    *)
(***************************************************************************)
EXTENDS AgonesProps, TLC

CONSTANTS Names,        \* GameServer names (strings)
          Shapes,       \* object descriptions [state, addr, ports, meta] the API server may hold
          MaxWrites,    \* bound on create / modify / delete
          MaxFaults,    \* bound on drop + gone
          MaxBookmarks, \* bound on bookmark
          MaxSteps,     \* bound on Len(hist)
          AppliedOnly   \* design switch, see above

VARIABLES objs,     \* API server: name -> description | None
          log,      \* API server: change events; index = resourceVersion
          wpc,      \* watcher: "Empty" (will announce Init) | "InitPage" (LIST outstanding) | "Watching"
          conn,     \* watch connection: "open" | "errored" (server has written the 410 Status event)
          sent,     \* server side of the watch connection: events up to this resourceVersion were written
          wire,     \* written by the server, not yet read by the watcher
          crv,      \* watcher: resourceVersion it resumes from
          q,        \* watcher -> handler: watcher::Event values not yet handled
          cache,    \* adapter: name -> offered entry | NoEntry
          initSeen, \* adapter (event design only): names re-listed since the last Init
          view,     \* ghost: name -> the description the adapter has most recently OBSERVED (handled), None if deleted / not re-listed
          viewSeen, \* ghost: names re-listed since the last Init was handled
          nwrites, nfaults, nbooks,
          hist      \* API-level steps so far
vars == <<objs, log, wpc, conn, sent, wire, crv, q, cache, initSeen, view, viewSeen, nwrites, nfaults, nbooks, hist>>

NoEntry  == [id |-> "-", ip |-> "-", port |-> 0, state |-> "-", meta |-> "-"]
CacheSet == {cache[n] : n \in Names} \ {NoEntry}

Step(k, n, o) == [k |-> k, n |-> n, o |-> o]
CanStep == Len(hist) < MaxSteps

SetToSeq(S) == LET RECURSIVE f(_)
                   f(T) == IF T = {} THEN <<>> ELSE LET x == CHOOSE x \in T : TRUE IN <<x>> \o f(T \ {x})
               IN f(S)

Init ==
  /\ objs = [n \in Names |-> None] /\ log = <<>>
  /\ wpc = "Empty" /\ conn = "open" /\ sent = 0 /\ wire = <<>> /\ crv = 0 /\ q = <<>>
  /\ cache = [n \in Names |-> NoEntry] /\ initSeen = {}
  /\ view = [n \in Names |-> None] /\ viewSeen = {}
  /\ nwrites = 0 /\ nfaults = 0 /\ nbooks = 0 /\ hist = <<>>

---------------------------------------------------------------------------
\* API server
Write(s, t) ==
  /\ CanStep /\ nwrites < MaxWrites
  /\ objs' = ApiApply(objs, s)
  /\ log' = Append(log, [t |-> t, n |-> s.n, o |-> IF s.k = "delete" THEN objs[s.n] ELSE s.o])
  /\ nwrites' = nwrites + 1 /\ hist' = Append(hist, s)
  /\ UNCHANGED <<wpc, conn, sent, wire, crv, q, cache, initSeen, view, viewSeen, nfaults, nbooks>>

ApiCreate(n, sh) == ~Exists(objs[n]) /\ Write(Step("create", n, sh), "ADDED")
ApiModify(n, sh) == Exists(objs[n]) /\ sh # objs[n] /\ Write(Step("modify", n, sh), "MODIFIED")
ApiDelete(n)     == Exists(objs[n]) /\ Write(Step("delete", n, None), "DELETED")   \* the DELETED event carries the last description
\* a burst of updates of an OFFERED server that only touch its metadata (player counters change many times a second): the server stays
\* offerable throughout, so it has to stay offered throughout -- also to readers that look while the updates are being applied
ApiChurn(n, sh)  == /\ Offerable(objs[n]) /\ Offerable(sh) /\ sh # objs[n]
                    /\ sh.state = objs[n].state /\ sh.addr = objs[n].addr /\ sh.ports = objs[n].ports
                    /\ Write(Step("churn", n, sh), "MODIFIED")

---------------------------------------------------------------------------
\* watch protocol and kube::runtime::watcher
\* State::Empty: the watcher announces a (re)start, then asks for the LIST
WInit ==
  /\ wpc = "Empty" /\ wpc' = "InitPage" /\ q' = Append(q, [e |-> "Init", n |-> "-", o |-> None])
  /\ UNCHANGED <<objs, log, conn, sent, wire, crv, cache, initSeen, view, viewSeen, nwrites, nfaults, nbooks, hist>>

\* State::InitPage: the LIST is answered with all objects and the current resourceVersion; the watch starts there
WList ==
  /\ CanStep /\ wpc = "InitPage"
  /\ LET L == SetToSeq({n \in Names : Exists(objs[n])}) IN
       q' = q \o [i \in 1..Len(L) |-> [e |-> "InitApply", n |-> L[i], o |-> objs[L[i]]]] \o <<[e |-> "InitDone", n |-> "-", o |-> None]>>
  /\ wpc' = "Watching" /\ conn' = "open" /\ crv' = Len(log) /\ sent' = Len(log) /\ wire' = <<>>
  /\ hist' = Append(hist, Step("list", "-", None))
  /\ UNCHANGED <<objs, log, cache, initSeen, view, viewSeen, nwrites, nfaults, nbooks>>

\* the LIST is answered in PAGES and only the first page arrives (the request for the next one fails): the objects of that page have been
\* observed -- their entries are brought up to date at once -- and the watcher starts over
WListPart ==
  /\ CanStep /\ nfaults < MaxFaults /\ wpc = "InitPage"
  /\ Cardinality({n \in Names : Exists(objs[n])}) >= 2
  /\ LET f == FirstIn(objs) IN q' = Append(q, [e |-> "InitApply", n |-> f, o |-> objs[f]])
  /\ wpc' = "Empty"
  /\ nfaults' = nfaults + 1 /\ hist' = Append(hist, Step("listpart", "-", None))
  /\ UNCHANGED <<objs, log, conn, sent, wire, crv, cache, initSeen, view, viewSeen, nwrites, nbooks>>

\* the LIST is answered with a server error (HTTP 500): the watcher starts over (Init again) after its back-off; nothing was observed
WListFail ==
  /\ CanStep /\ nfaults < MaxFaults /\ wpc = "InitPage"
  /\ wpc' = "Empty"
  /\ nfaults' = nfaults + 1 /\ hist' = Append(hist, Step("listfail", "-", None))
  /\ UNCHANGED <<objs, log, conn, sent, wire, crv, q, cache, initSeen, view, viewSeen, nwrites, nbooks>>

\* the server writes the next change event to the watch connection (entries of other resources are skipped)
WSend ==
  /\ wpc = "Watching" /\ conn = "open" /\ sent < Len(log)
  /\ sent' = sent + 1
  /\ LET ev == log[sent + 1] IN
       wire' = IF ev.t = "OTHER" THEN wire ELSE Append(wire, [t |-> ev.t, n |-> ev.n, o |-> ev.o, rv |-> sent + 1])
  /\ UNCHANGED <<objs, log, wpc, conn, crv, q, cache, initSeen, view, viewSeen, nwrites, nfaults, nbooks, hist>>

\* State::Watching: the watcher reads one event
WRecv ==
  /\ wpc = "Watching" /\ wire # <<>>
  /\ LET ev == Head(wire) IN
       CASE ev.t \in {"ADDED", "MODIFIED"} ->
              /\ q' = Append(q, [e |-> "Apply", n |-> ev.n, o |-> ev.o]) /\ crv' = ev.rv
              /\ wire' = Tail(wire) /\ UNCHANGED <<wpc, conn, sent>>
         [] ev.t = "DELETED" ->
              /\ q' = Append(q, [e |-> "Delete", n |-> ev.n, o |-> ev.o]) /\ crv' = ev.rv
              /\ wire' = Tail(wire) /\ UNCHANGED <<wpc, conn, sent>>
         [] ev.t = "BOOKMARK" ->
              /\ crv' = ev.rv /\ wire' = Tail(wire) /\ UNCHANGED <<q, wpc, conn, sent>>
         [] ev.t = "NOISE" ->      \* ERROR event, code other than 410: reported, watching goes on
              /\ wire' = Tail(wire) /\ UNCHANGED <<q, crv, wpc, conn, sent>>
         [] ev.t = "ERROR" ->      \* code 410: desynchronised, start over
              /\ wpc' = "Empty" /\ wire' = <<>> /\ UNCHANGED <<q, crv, conn, sent>>
  /\ UNCHANGED <<objs, log, cache, initSeen, view, viewSeen, nwrites, nfaults, nbooks, hist>>

\* the server puts an ERROR Status event with a code OTHER than 410 on the watch connection (an internal error it recovers from): the
\* watcher reports it and keeps watching from where it is -- nothing was observed, nothing is lost.  (On the wire it may share a segment
\* with the change event written just before it.)
WNoise ==
  /\ CanStep /\ nfaults < MaxFaults
  /\ wpc = "Watching" /\ conn = "open"
  /\ wire' = Append(wire, [t |-> "NOISE", n |-> "-", o |-> None, rv |-> sent])
  /\ nfaults' = nfaults + 1 /\ hist' = Append(hist, Step("errevent", "-", None))
  /\ UNCHANGED <<objs, log, wpc, conn, sent, crv, q, cache, initSeen, view, viewSeen, nwrites, nbooks>>

\* an unrelated write moves the cluster's resourceVersion on; the server tells the watcher with a BOOKMARK
Bookmark ==
  /\ CanStep /\ nbooks < MaxBookmarks
  /\ wpc = "Watching" /\ conn = "open" /\ sent = Len(log)
  /\ log' = Append(log, [t |-> "OTHER", n |-> "-", o |-> None])
  /\ sent' = Len(log) + 1
  /\ wire' = Append(wire, [t |-> "BOOKMARK", n |-> "-", o |-> None, rv |-> Len(log) + 1])
  /\ nbooks' = nbooks + 1 /\ hist' = Append(hist, Step("bookmark", "-", None))
  /\ UNCHANGED <<objs, wpc, conn, crv, q, cache, initSeen, view, viewSeen, nwrites, nfaults>>

\* the connection is lost (how = "reset" | "eof"): what was in flight is lost, the watcher re-watches from crv
WDrop(how) ==
  /\ CanStep /\ nfaults < MaxFaults
  /\ wpc = "Watching" /\ conn = "open"
  /\ wire' = <<>> /\ sent' = crv
  /\ nfaults' = nfaults + 1 /\ hist' = Append(hist, Step("drop", how, None))
  /\ UNCHANGED <<objs, log, wpc, conn, crv, q, cache, initSeen, view, viewSeen, nwrites, nbooks>>

\* the server answers the watch with a 410 Status event (resourceVersion too old) and stops sending
WExpire ==
  /\ CanStep /\ nfaults < MaxFaults
  /\ wpc = "Watching" /\ conn = "open"
  /\ conn' = "errored" /\ wire' = Append(wire, [t |-> "ERROR", n |-> "-", o |-> None, rv |-> 0])
  /\ nfaults' = nfaults + 1 /\ hist' = Append(hist, Step("gone", "-", None))
  /\ UNCHANGED <<objs, log, wpc, sent, crv, q, cache, initSeen, view, viewSeen, nwrites, nbooks>>

---------------------------------------------------------------------------
\* the adapter: one action per watcher::Event
Entry(n, o) == IF Offerable(o) THEN Offer(n, o) ELSE NoEntry

\* the design: upsert when Ready/Allocated and convertible, otherwise remove
Upsert(c, n, o) == [c EXCEPT ![n] = Entry(n, o)]

\* today's loop body: conversion failure -> `continue` (the entry stays), then push/replace or remove by state
TodayApplied(c, n, o) ==
  IF ~Convertible(o) THEN c
  ELSE IF o.state \in ReadyStates THEN [c EXCEPT ![n] = Offer(n, o)] ELSE [c EXCEPT ![n] = NoEntry]

Handle(kind) == q # <<>> /\ Head(q).e = kind /\ q' = Tail(q)
Rest == UNCHANGED <<objs, log, wpc, conn, sent, wire, crv, nwrites, nfaults, nbooks, hist>>   \* the H* actions set cache, initSeen, view, viewSeen

\* a (re-)list begins: nothing new has been observed yet, what is offered stays offered
HInit ==
  /\ Handle("Init") /\ Rest
  /\ cache' = cache
  /\ initSeen' = IF AppliedOnly THEN initSeen ELSE {}
  /\ view' = view /\ viewSeen' = {}

HInitApply ==
  /\ Handle("InitApply") /\ Rest
  /\ LET ev == Head(q) IN
       IF AppliedOnly THEN cache' = TodayApplied(cache, ev.n, ev.o) /\ initSeen' = initSeen
       ELSE cache' = Upsert(cache, ev.n, ev.o) /\ initSeen' = initSeen \cup {ev.n}
  /\ view' = [view EXCEPT ![Head(q).n] = Head(q).o] /\ viewSeen' = viewSeen \cup {Head(q).n}

HInitDone ==    \* whatever was not re-listed is gone
  /\ Handle("InitDone") /\ Rest
  /\ initSeen' = initSeen
  /\ cache' = IF AppliedOnly THEN cache ELSE [n \in Names |-> IF n \in initSeen THEN cache[n] ELSE NoEntry]
  /\ view' = [n \in Names |-> IF n \in viewSeen THEN view[n] ELSE None] /\ viewSeen' = viewSeen

HApply ==
  /\ Handle("Apply") /\ Rest
  /\ initSeen' = initSeen
  /\ LET ev == Head(q) IN cache' = IF AppliedOnly THEN TodayApplied(cache, ev.n, ev.o) ELSE Upsert(cache, ev.n, ev.o)
  /\ view' = [view EXCEPT ![Head(q).n] = Head(q).o] /\ viewSeen' = viewSeen

HDelete ==
  /\ Handle("Delete") /\ Rest
  /\ initSeen' = initSeen
  /\ LET ev == Head(q) IN cache' = IF AppliedOnly THEN cache ELSE [cache EXCEPT ![ev.n] = NoEntry]
  /\ view' = [view EXCEPT ![Head(q).n] = None] /\ viewSeen' = viewSeen

---------------------------------------------------------------------------
Next ==
  \/ \E n \in Names, sh \in Shapes : ApiCreate(n, sh) \/ ApiModify(n, sh) \/ ApiChurn(n, sh)
  \/ \E n \in Names : ApiDelete(n)
  \/ WInit \/ WList \/ WListFail \/ WListPart \/ WSend \/ WRecv \/ Bookmark \/ WNoise \/ WExpire
  \/ \E how \in {"reset", "eof"} : WDrop(how)
  \/ HInit \/ HInitApply \/ HInitDone \/ HApply \/ HDelete
Spec == Init /\ [][Next]_vars

---------------------------------------------------------------------------
TypeOK ==
  /\ \A n \in Names : objs[n] = None \/ objs[n] \in Shapes
  /\ wpc \in {"Empty", "InitPage", "Watching"} /\ conn \in {"open", "errored"}
  /\ sent \in 0..Len(log) /\ crv \in 0..Len(log) /\ crv <= sent
  /\ initSeen \subseteq Names

\* everything the API server did has been sent, received and handled, and no LIST is outstanding
Quiescent == wpc = "Watching" /\ conn = "open" /\ sent = Len(log) /\ wire = <<>> /\ q = <<>>

C20 == Quiescent => CacheSet = ReadySetOf(objs)

\* "at all times": what is offered is exactly what the most recently OBSERVED descriptions make offerable -- in particular a
\* (re-)list in progress removes nothing before it is complete.  Quiescent => view = objs, so this implies C20.
C20_AtAllTimes == CacheSet = ReadySetOf(view)
ViewCatchesUp  == Quiescent => view = objs

\* at all times: what is offered is some description the object really had, never an invented one
OfferedWasTrue ==
  \A e \in CacheSet : \E i \in 1..Len(log) : log[i].t \in {"ADDED", "MODIFIED"} /\ log[i].n = e.id /\ Entry(e.id, log[i].o) = e

\* the history layer of AgonesProps (used by Trace_Agones on recorded histories) recomputes this design's API server
HistoryConsistent ==
  /\ ObjsSeq(hist)[Len(hist)] = [n \in NamesIn(hist) |-> objs[n]]
  /\ \A n \in Names \ NamesIn(hist) : objs[n] = None
  /\ PendingSeq(hist)[Len(hist)] = (wpc # "Watching" \/ conn = "errored")

\* hist only matters for the export; the exhaustive configurations identify states that differ in hist only
View == <<objs, log, wpc, conn, sent, wire, crv, q, cache, initSeen, view, viewSeen, nwrites, nfaults, nbooks, Len(hist), PendingSeq(hist)[Len(hist)]>>
=============================================================================
