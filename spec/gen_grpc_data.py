#!/usr/bin/env python3
"""Generates spec/GrpcData.tla: the abstraction tables of the gRPC boundary specification (C19).

* HOSTS   label -> (text a service may put into Address.hostname, class, canonical IP, acceptable IPs).
          The canonical text of an IP is what Rust's std::net::IpAddr Display prints (RFC 5952 plus the dotted
          form for IPv4-mapped addresses); it is written down BY HAND here and cross-checked numerically with
          Python's `ipaddress` (independent of the code under test).
* PORTS   decimal text -> (number, fits a u16); 4294967295 is beyond TLC's 32-bit integers -> num -1.
* STRINGS label <-> concrete text for identifiers, metadata keys / values, player names, handshake host names
          (TLA+ string literals are ASCII; the concrete texts contain Unicode, NUL, quotes, newlines).  Only the labels
          appear in the specification; lib/grpc_check.py replaces labels by texts before the harness runs and texts by
          labels (unknown text -> "other:<hex>") before TLC judges the observations.
* UUIDS   label -> (text handed to the adapter, set of textual forms that denote the same UUID).

Run it after editing:  python3 spec/gen_grpc_data.py   (lib/grpc_check.py refuses to run on a stale GrpcData.tla).
"""
import ipaddress
import os

# class: "ip"      well-formed IP literal: MUST be accepted and parse to an address in `ips`
#        "invalid" malformed: MUST be rejected with an error
#        "either"  may be rejected, but if accepted it must denote an address in `ips` (bracketed IPv6 literal: URI host
#                  syntax, accepted by the current code only because it re-assembles "host:port")
#        "free"    not judged: DNS host names (the reference documentation calls the field "Hostname or IP address", the
#                  router-side Target holds a SocketAddr: resolving and rejecting are both legitimate), zone identifiers,
#                  and the historic inet_aton spellings whose meaning differs between parsers
MAPPED = ("::ffff:10.0.0.1", "10.0.0.1")
HOSTS = [
    # label, text, class, canonical, acceptable ips
    ("v4-dotted", "10.0.0.1", "ip", "10.0.0.1", None),
    ("v4-private", "192.168.1.100", "ip", "192.168.1.100", None),
    ("v4-loopback", "127.0.0.1", "ip", "127.0.0.1", None),
    ("v4-unspecified", "0.0.0.0", "ip", "0.0.0.0", None),
    ("v4-broadcast", "255.255.255.255", "ip", "255.255.255.255", None),
    ("v6-compressed", "2001:db8::1", "ip", "2001:db8::1", None),
    ("v6-full", "2001:0db8:0000:0000:0000:0000:0000:0001", "ip", "2001:db8::1", None),
    ("v6-nolead", "2001:db8:0:0:0:0:0:1", "ip", "2001:db8::1", None),
    ("v6-upper", "2001:DB8::1", "ip", "2001:db8::1", None),
    ("v6-loopback", "::1", "ip", "::1", None),
    ("v6-loopback-full", "0:0:0:0:0:0:0:1", "ip", "::1", None),
    ("v6-unspecified", "::", "ip", "::", None),
    ("v6-mapped", "::ffff:10.0.0.1", "ip", "::ffff:10.0.0.1", MAPPED),
    ("v6-mapped-hex", "::ffff:a00:1", "ip", "::ffff:10.0.0.1", MAPPED),
    ("v6-mapped-upper", "::FFFF:10.0.0.1", "ip", "::ffff:10.0.0.1", MAPPED),
    ("v6-linklocal", "fe80::1ff:fe23:4567:890a", "ip", "fe80::1ff:fe23:4567:890a", None),
    ("v6-midzero", "2001:db8::1:0:0:1", "ip", "2001:db8::1:0:0:1", None),
    ("v6-midzero-alt", "2001:db8:0:0:1::1", "ip", "2001:db8::1:0:0:1", None),
    ("v6-onezero", "2001:db8:0:1:1:1:1:1", "ip", "2001:db8:0:1:1:1:1:1", None),
    ("v6-onezero-compressed", "2001:db8::1:1:1:1:1", "ip", "2001:db8:0:1:1:1:1:1", None),
    ("v6-trailing-compressed", "2001:db8:1:2:3:4:5::", "ip", "2001:db8:1:2:3:4:5:0", None),
    ("v6-trailing-zero", "2001:db8:1:2:3:4:5:0", "ip", "2001:db8:1:2:3:4:5:0", None),
    ("v6-max", "ffff:ffff:ffff:ffff:ffff:ffff:ffff:ffff", "ip", "ffff:ffff:ffff:ffff:ffff:ffff:ffff:ffff", None),
    ("v6-doc", "2001:db8:85a3::8a2e:370:7334", "ip", "2001:db8:85a3::8a2e:370:7334", None),
    ("v6-bracketed", "[::1]", "either", "::1", None),
    ("v6-bracketed-compressed", "[2001:db8::1]", "either", "2001:db8::1", None),
    ("v6-zone", "fe80::1%eth0", "free", None, None),
    ("v6-zone-num", "fe80::1%1", "free", None, None),
    ("v4-leading-zero", "010.0.0.1", "free", None, None),
    ("v4-short", "10.1", "free", None, None),
    ("v4-integer", "167772161", "free", None, None),
    ("v4-trailing-space", "10.0.0.1 ", "free", None, None),
    ("host-fqdn", "example.org", "free", None, None),
    ("host-trailing-dot", "example.org.", "free", None, None),
    ("host-localhost", "localhost", "free", None, None),
    ("host-k8s", "mc-hub-1.default.svc.cluster.local", "free", None, None),
    ("bad-empty", "", "invalid", None, None),
    ("bad-octet", "10.0.0.256", "invalid", None, None),
    ("bad-spaces", "not an ip", "invalid", None, None),
    ("bad-hex", "2001:db8::g", "invalid", None, None),
    ("bad-double-compress", "1::2::3", "invalid", None, None),
    ("bad-port-in-host", "10.0.0.1:25565", "invalid", None, None),
    ("bad-v6-port-in-host", "[::1]:25565", "invalid", None, None),
    ("bad-bracket-open", "[::1", "invalid", None, None),
    ("bad-nine-groups", "1:2:3:4:5:6:7:8:9", "invalid", None, None),
    ("bad-mapped-octet", "::ffff:10.0.0.256", "invalid", None, None),
    ("bad-five-hex", "2001:db8::12345", "invalid", None, None),
    ("bad-colon", ":", "invalid", None, None),
    ("bad-triple-colon", ":::", "invalid", None, None),
]

PORTS = [("0", 0), ("1", 1), ("25565", 25565), ("65535", 65535),
         ("65536", 65536), ("91101", 91101), ("2147483647", 2147483647), ("4294967295", 4294967295)]

STRINGS = {
    # identifiers
    "id:hub": "hub-1", "id:other": "survival-east-2", "id:empty": "", "id:uni": "sürvival/east 2 ✓",
    "id:long": "lobby-" + "0123456789" * 30, "id:space": " Hub 1\t",
    # metadata keys
    "k:type": "type", "k:players": "players", "k:empty": "", "k:uni": "régión 日本", "k:eq": "a=b&c",
    # metadata values
    "v:hub": "hub", "v:survival": "survival", "v:num": "15", "v:empty": "", "v:uni": "ünï ✓ \"q\" \\",
    "v:nl": "line1\nline2\ttab", "v:space": "  padded  ",
    # player names
    "n:steve": "Steve", "n:uni": "Stève_日本", "n:empty": "", "n:long": "ABCDEFGHIJKLMNOP",
    # host names of the handshake (server address): sent verbatim, never parsed
    "s:fqdn": "play.example.com", "s:ip4": "192.168.1.100", "s:ip6": "2001:db8::1", "s:empty": "",
    "s:fml": "play.example.com\u0000FML2\u0000", "s:uni": "bücher.example", "s:dot": "play.example.com.",
}

UUIDS = {
    "u:nil": "00000000-0000-0000-0000-000000000000",
    "u:v4": "a3c5d7e9-1b2d-4f60-8a9c-0e1f2a3b4c5d",
    "u:v3": "b50ad385-829d-3141-a216-7e7d7539ba7f",
    "u:max": "ffffffff-ffff-ffff-ffff-ffffffffffff",
}


def uuid_forms(u):
    s = u.replace("-", "")
    return sorted({u, u.upper(), s, s.upper(), "urn:uuid:" + u, "{" + u + "}"})


def canon_ips():
    out = []
    for _, _, cls, canon, _ in HOSTS:
        if cls == "ip" and canon not in out:
            out.append(canon)
    return out


def family(ip):
    return "v4" if ":" not in ip else "v6"


def check_tables():
    labels = [h[0] for h in HOSTS]
    texts = [h[1] for h in HOSTS]
    assert len(set(labels)) == len(labels), "duplicate host label"
    assert len(set(texts)) == len(texts), "duplicate host text"
    for label, text, cls, canon, ips in HOSTS:
        assert all(ord(c) < 128 and c not in '"\\' for c in text), label
        if cls in ("ip", "either"):
            lit = text[1:-1] if cls == "either" else text
            a, b = ipaddress.ip_address(lit), ipaddress.ip_address(canon)
            assert int(a) == int(b) and a.version == b.version, "%s: %s does not denote %s" % (label, text, canon)
            assert canon in [t for (_, t, c, k, _) in HOSTS if c == "ip" and k == canon], "canonical text of %s is not a form of the table" % label
            for extra in (ips or ()):
                ipaddress.ip_address(extra)
        elif cls == "invalid":
            try:
                ipaddress.ip_address(text)
            except ValueError:
                pass
            else:
                raise AssertionError("%s: %r is a valid IP literal" % (label, text))
    # every canonical IP is itself a textual form of class "ip" that denotes itself (needed by FromWire(ToWire(t)) = t)
    for ip in canon_ips():
        assert any(t == ip and c == "ip" and k == ip for (_, t, c, k, _) in HOSTS), ip
    vals = list(STRINGS.values())
    for pre in ("id:", "k:", "v:", "n:", "s:"):
        grp = [v for k, v in STRINGS.items() if k.startswith(pre)]
        assert len(set(grp)) == len(grp), "labels of group %s are not injective" % pre
    assert vals
    for lab in list(STRINGS) + list(UUIDS) + labels:
        assert all(32 < ord(c) < 127 and c not in '"\\' for c in lab), lab


def q(s):
    return '"' + s + '"'


def tla_set(items):
    return "{" + ", ".join(items) + "}"


def fn(pairs, indent="  "):
    """Explicit function  k1 :> v1 @@ k2 :> v2 ..."""
    return (" @@\n" + indent).join("%s :> %s" % (k, v) for k, v in pairs)


def render():
    check_tables()
    L = []
    L.append("------------------------------ MODULE GrpcData ------------------------------")
    L.append("(* GENERATED by spec/gen_grpc_data.py -- do not edit.  Abstraction tables of GrpcBoundary.tla (C19):  *)")
    L.append("(* textual address forms a service may send and the IP they denote (computed independently of the     *)")
    L.append("(* code under test), port texts, labels of the opaque strings, UUID forms.                            *)")
    L.append("EXTENDS TLC, Integers")
    L.append("")
    L.append("HostLabels == " + tla_set(q(h[0]) for h in HOSTS))
    L.append("")
    L.append("\\* class: ip = must parse to an address in ips; invalid = must be an error; either = error or an address in ips;")
    L.append("\\*        free = not judged (host names, zone ids, inet_aton spellings)")
    rows = []
    for label, text, cls, canon, ips in HOSTS:
        ipset = list(ips) if ips else ([canon] if canon else [])
        rows.append((q(label), "[text |-> %s, class |-> %s, canon |-> %s, ips |-> %s]" % (
            q(text), q(cls), q(canon or "none"), tla_set(q(i) for i in ipset))))
    L.append("HostTable ==\n  " + fn(rows))
    L.append("")
    cips = canon_ips()
    L.append("\\* router-side addresses: an IP is named by its canonical text (what std::net::IpAddr prints)")
    L.append("CanonIps == " + tla_set(q(i) for i in cips))
    L.append("IpFamily ==\n  " + fn([(q(i), q(family(i))) for i in cips]))
    L.append("")
    L.append("PortLabels == " + tla_set(q(p[0]) for p in PORTS))
    L.append("\\* num -1: beyond TLC's 32-bit integers (only `ok` matters for it: no u16 equals -1)")
    L.append("PortTable ==\n  " + fn([(q(t), "[num |-> %d, ok |-> %s]" % (n if n < 2**31 else -1, "TRUE" if n <= 65535 else "FALSE")) for t, n in PORTS]))
    L.append("")
    for name, pre in (("IdLabels", "id:"), ("KeyLabels", "k:"), ("ValLabels", "v:"), ("NameLabels", "n:"), ("SrvHostLabels", "s:")):
        L.append("%s == %s" % (name, tla_set(q(k) for k in STRINGS if k.startswith(pre))))
    L.append("")
    L.append("UuidLabels == " + tla_set(q(k) for k in UUIDS))
    L.append("\\* textual forms that denote the same UUID (the adapter sends the hyphenated lower-case form)")
    L.append("UuidForms ==\n  " + fn([(q(k), tla_set(q(f) for f in uuid_forms(v))) for k, v in UUIDS.items()]))
    L.append("UuidCanon ==\n  " + fn([(q(k), q(v)) for k, v in UUIDS.items()]))
    L.append("=============================================================================")
    return "\n".join(L) + "\n"


PATH = os.path.join(os.path.dirname(os.path.abspath(__file__)), "GrpcData.tla")


def main():
    txt = render()
    with open(PATH, "w") as fh:
        fh.write(txt)
    print("wrote %s (%d host forms, %d canonical IPs, %d ports, %d strings)" % (PATH, len(HOSTS), len(canon_ips()), len(PORTS), len(STRINGS)))


if __name__ == "__main__":
    main()
