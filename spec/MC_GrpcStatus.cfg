SPECIFICATION Spec
INVARIANTS Facts Export
CHECK_DEADLOCK FALSE
