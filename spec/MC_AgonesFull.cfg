\* C20 thorough: exhaustive check of the event-driven design, 2 GameServers, the six shape classes the handler can tell
\* apart, 3 writes, 1 drop/410, 1 bookmark (3.7 M states, ~70 s with 8 workers)
CONSTANTS
  Names = {"a", "b"}
  Shapes <- MC_ShapesCore
  MaxWrites = 3
  MaxFaults = 1
  MaxBookmarks = 1
  MaxSteps = 6
  AppliedOnly = FALSE
SPECIFICATION Spec
INVARIANTS AllInvariants
VIEW View
CHECK_DEADLOCK FALSE
