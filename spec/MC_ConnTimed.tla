---------------------------- MODULE MC_ConnTimed ----------------------------
EXTENDS ConnTimed, Json
MC_LatsFull == {0, 4, 20, 52}
MC_LatsQuick == {0, 20}
Export == Done => PrintT(<<"REPLAY", ToJson([sched |-> sched, tl |-> tl, result |-> result])>>)
=============================================================================
