-------------------------- MODULE MC_DnsDiscovery --------------------------
(* Bounded zone space for DnsDiscovery.tla: the design facts are checked over every history of the space, and every history is   *)
(* exported with what readers must see after each refresh (replayed against the real DnsDiscoveryAdapter and a loopback server). *)
EXTENDS DnsDiscovery, Json
CONSTANT Tier
VARIABLE done

r1 == [prio |-> 0,  weight |-> 5,     port |-> 25565, host |-> "h1"]
r2 == [prio |-> 10, weight |-> 0,     port |-> 25566, host |-> "h2"]
r3 == [prio |-> 0,  weight |-> 5,     port |-> 25565, host |-> "h2"]     \* same port and metadata as r1, other host
r4 == [prio |-> 1,  weight |-> 65535, port |-> 65535, host |-> "h1"]     \* same host as r1, other port, extreme values
SrvAnswers == {[src |-> "nx", recs |-> <<>>], [src |-> "servfail", recs |-> <<>>]} \cup
              {[src |-> "ok", recs |-> q] : q \in {<<>>, <<r1>>, <<r2>>, <<r1, r2>>, <<r2, r1>>, <<r1, r3>>, <<r1, r4>>}}
HostClasses(a, b, c) == {[rc |-> "ok", v4 |-> <<a>>, v6 |-> <<>>], [rc |-> "ok", v4 |-> <<a, b>>, v6 |-> <<>>], [rc |-> "ok", v4 |-> <<>>, v6 |-> <<c>>],
                         [rc |-> "ok", v4 |-> <<b>>, v6 |-> <<c>>], [rc |-> "ok", v4 |-> <<>>, v6 |-> <<>>], [rc |-> "nx", v4 |-> <<>>, v6 |-> <<>>],
                         [rc |-> "servfail", v4 |-> <<>>, v6 |-> <<>>]}
H1 == HostClasses("10.0.0.1", "10.0.0.2", "fd00::1")
H2 == HostClasses("10.0.1.1", "10.0.1.2", "fd00::2")
NoHost == [rc |-> "nx", v4 |-> <<>>, v6 |-> <<>>]
SrvZones == {[src |-> s.src, recs |-> s.recs, hosts |-> [h1 |-> a, h2 |-> b, self |-> NoHost]] : s \in SrvAnswers, a \in H1, b \in H2}
AZones == {[src |-> "nx", recs |-> <<>>, hosts |-> [h1 |-> NoHost, h2 |-> NoHost, self |-> a]] : a \in H1}
\* second epochs: the cases that matter for "replaced on success only"
Z(s, recs, a, b) == [src |-> s, recs |-> recs, hosts |-> [h1 |-> a, h2 |-> b, self |-> NoHost]]
V4(a) == [rc |-> "ok", v4 |-> <<a>>, v6 |-> <<>>]
V6(a) == [rc |-> "ok", v4 |-> <<>>, v6 |-> <<a>>]
Seconds == {Z("servfail", <<>>, V4("10.0.0.1"), V4("10.0.1.1")), Z("ok", <<>>, V4("10.0.0.1"), V4("10.0.1.1")),
            Z("ok", <<r1, r2>>, V4("10.0.0.1"), NoHost), Z("ok", <<r2>>, NoHost, V4("10.0.1.2")), Z("ok", <<r1>>, V6("fd00::1"), NoHost)}
SrvHistories(t) == {<<z>> : z \in SrvZones} \cup
                   (IF t = "thorough" THEN {<<z, s>> : z \in SrvZones, s \in Seconds} \cup {<<s, z, s>> : z \in {y \in SrvZones : y.hosts.h2 = V4("10.0.1.1")}, s \in Seconds}
                    ELSE {<<z, s>> : z \in {y \in SrvZones : y.hosts.h2 \in {V4("10.0.1.1"), NoHost}}, s \in Seconds})
AHistories(t) == {<<z>> : z \in AZones} \cup {<<y, z>> : y \in AZones, z \in AZones} \cup (IF t = "thorough" THEN {<<x, y, z>> : x \in AZones, y \in AZones, z \in AZones} ELSE {})

Init == done = FALSE
Next == done = FALSE /\ done' = TRUE
Spec == Init /\ [][Next]_done

Facts == /\ \A h \in SrvHistories(Tier) : FromOneZone("srv", h, 0)
         /\ \A h \in AHistories(Tier) : FromOneZone("a", h, 25565)
         /\ \A z \in SrvZones : PortFromRecord(z) /\ V4First(z)
Export == done => /\ \A h \in SrvHistories(Tier) : PrintT(<<"REPLAY", ToJson([mode |-> "srv", port |-> 0, zones |-> h, expect |-> Run("srv", h, 0, <<>>)])>>)
                  /\ \A h \in AHistories(Tier) : \A p \in {25565, 1} : PrintT(<<"REPLAY", ToJson([mode |-> "a", port |-> p, zones |-> h, expect |-> Run("a", h, p, <<>>)])>>)
=============================================================================
