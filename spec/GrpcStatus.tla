------------------------------ MODULE GrpcStatus ------------------------------
(***************************************************************************)
(* passage-adapters/grpc: status_adapter.rs + the StatusData conversion of *)
(* proto.rs (growth of the specification beyond the listed properties; the *)
(* answer a Status-intent connection relays "as JSON", C06, comes from     *)
(* here when the gRPC status service is configured).                       *)
(*                                                                         *)
(* The service answers with an optional StatusData:                        *)
(*   version   [some, name, protocol]             (required: some = TRUE)  *)
(*   players   [some, online, max, samples]       samples: sequence of     *)
(*             [name, id]; the empty sequence becomes "no sample"          *)
(*   descr     absent | a text that must be JSON (it is relayed verbatim   *)
(*             as raw JSON): classes object / string / notjson / empty     *)
(*   favicon   absent | bytes that must be UTF-8: classes utf8 / notutf8   *)
(*   secure    absent | TRUE | FALSE                                       *)
(* No StatusData at all = "no status" (not an error).  A missing version,  *)
(* a description that is not JSON, or a favicon that is not UTF-8 is an    *)
(* error: nothing is relayed.                                              *)
(***************************************************************************)
EXTENDS Integers, Sequences, FiniteSets, TLC

Absent == "absent"
DescrIsJson(d) == d \in {"object", "string"}

NoStatus == [version |-> [some |-> FALSE, name |-> "", protocol |-> 0],
             players |-> [some |-> FALSE, online |-> 0, max |-> 0, samples |-> <<>>],
             descr |-> Absent, favicon |-> Absent, secure |-> Absent]

\* the outcome of one status call: [ok, some, st]
Convert(has, d) ==
  IF ~has THEN [ok |-> TRUE, some |-> FALSE, st |-> NoStatus]
  ELSE IF ~d.version.some THEN [ok |-> FALSE, some |-> FALSE, st |-> NoStatus]
  ELSE IF d.descr # Absent /\ ~DescrIsJson(d.descr) THEN [ok |-> FALSE, some |-> FALSE, st |-> NoStatus]
  ELSE IF d.favicon = "notutf8" THEN [ok |-> FALSE, some |-> FALSE, st |-> NoStatus]
  ELSE [ok |-> TRUE, some |-> TRUE, st |-> d]     \* relayed field by field; an empty sample list is relayed as "no sample"

\* design facts
NothingInvented(has, d) == LET r == Convert(has, d) IN r.some => r.st = d
ErrorsRelayNothing(has, d) == LET r == Convert(has, d) IN ~r.ok => ~r.some
=============================================================================
