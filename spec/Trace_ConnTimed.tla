--------------------------- MODULE Trace_ConnTimed ---------------------------
(* Trace validation for C07 (and the observable part of C08): timestamped histories recorded from the real *)
(* Connection under tokio virtual time, judged against ConnTimedProps.  Prop = C07 or C08.              *)
EXTENDS ConnTimedProps, Json, IOUtils, TLC

Recs == ndJsonDeserialize(IOEnv.TRACE)
VARIABLE n
Init == n = 0
Next == n < Len(Recs) /\ n' = n + 1
Spec == Init /\ [][Next]_n

Judge == n >= 1 => LET bad == {c \in C07Names : ~C07Clause(c, Recs[n])} IN
                   bad = {} \/ PrintT(<<"FAIL", ToJson([line |-> n, clauses |-> bad])>>)
AllConsumed == TLCGet("stats").diameter = Len(Recs) + 1 \/ PrintT(<<"NOTCONSUMED", ToJson([d |-> TLCGet("stats").diameter])>>)
=============================================================================
