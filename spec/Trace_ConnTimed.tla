--------------------------- MODULE Trace_ConnTimed ---------------------------
(* Trace validation for C07 (and the observable part of C08): timestamped histories recorded from the real *)
(* Connection under tokio virtual time, judged against ConnTimedProps.  Prop = C07 or C08.              *)
EXTENDS ConnTimedProps, Json, IOUtils, TLC

Recs == ndJsonDeserialize(IOEnv.TRACE)
VARIABLE n
Init == n = 0
Next == n < Len(Recs) /\ n' = n + 1
Spec == Init /\ [][Next]_n

\* when the transport itself withheld clientbound bytes (write stall) the client sees packets late by the transport's doing:
\* the two clauses that bound WHEN something reaches the client are not judged on such runs
Judged(r) == IF r.stalled THEN C07Names \ {"C07_KeepAliveEveryP", "C07_TransferWhenRoutingCompletes", "C07_EchoingClientRouted", "C07_WindowNotCutShort"} ELSE C07Names
Judge == n >= 1 => LET bad == {c \in Judged(Recs[n]) : ~C07Clause(c, Recs[n])} IN
                   bad = {} \/ PrintT(<<"FAIL", ToJson([line |-> n, clauses |-> bad])>>)
AllConsumed == TLCGet("stats").diameter = Len(Recs) + 1 \/ PrintT(<<"NOTCONSUMED", ToJson([d |-> TLCGet("stats").diameter])>>)
=============================================================================
