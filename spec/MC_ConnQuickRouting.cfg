\* quick tier, routing side: honest login, every discovery / filter / strategy / locale outcome
CONSTANTS
  Secrets = {"S"}
  Intents = {"Login", "Transfer", "Status"}
  SessClasses = {"absent"}
  CookieClasses = {"absent", "fresh"}
  EncClasses = {"honest"}
  AuthVerdicts = {"other"}
  StatusVerdicts = {"some", "null", "err"}
  Pings = {"p0", "pMax"}
  Discoveries <- MC_DiscoveriesFull
  FilterOuts = {"id", "tail", "rev", "none", "err"}
  SelectOuts = {"first", "last", "outside", "none", "err"}
  Locales = {"de_DE", "fr_CA", "xx_YY", "en_US"}
  MaxIgnored = 1
  Deviations = FALSE
  MaxRounds = 1
  Reconnects <- MC_ReconnectsNone
SPECIFICATION Spec
INVARIANTS AllInvariants Export
CHECK_DEADLOCK FALSE
