--------------------------- MODULE Trace_GrpcStatus ---------------------------
(* Observations of the real GrpcStatusAdapter against an in-process status service (hx-grpc statusdata) judged against GrpcStatus.tla. *)
(* A record: has, d (what the service answered), got = [ok, some, st] (what the adapter returned, re-abstracted), seen (the request).  *)
EXTENDS GrpcStatus, Json, IOUtils
Recs == ndJsonDeserialize(IOEnv.TRACE)
VARIABLE n
Init == n = 0
Next == n < Len(Recs) /\ n' = n + 1
Spec == Init /\ [][Next]_n

\* the adapter's answer is the specification's: an error exactly in the three error cases, "no status" exactly when none was sent,
\* otherwise every field as the service gave it
GS_Outcome(r) == LET e == Convert(r.has, r.d) IN r.got.ok = e.ok /\ r.got.some = e.some
GS_FieldsRelayed(r) == LET e == Convert(r.has, r.d) IN (e.some /\ r.got.some) => r.got.st = e.st
\* the service is asked once, with the client's address, the server address and the protocol of this connection
GS_RequestCarriesConnection(r) == /\ r.seen.count = 1 /\ r.seen.client.hostip = "203.0.113.7" /\ r.seen.client.port = 40123
                                  /\ r.seen.server.host = "play.example.org" /\ r.seen.server.port = 25565 /\ r.seen.protocol = 769
Names == {"GS_Outcome", "GS_FieldsRelayed", "GS_RequestCarriesConnection"}
Clause(c, r) == CASE c = "GS_Outcome" -> GS_Outcome(r) [] c = "GS_FieldsRelayed" -> GS_FieldsRelayed(r) [] c = "GS_RequestCarriesConnection" -> GS_RequestCarriesConnection(r) [] OTHER -> FALSE
Judge == n >= 1 => LET bad == {c \in Names : ~Clause(c, Recs[n])} IN bad = {} \/ PrintT(<<"FAIL", ToJson([line |-> n, clauses |-> bad])>>)
AllConsumed == TLCGet("stats").diameter = Len(Recs) + 1 \/ PrintT(<<"NOTCONSUMED", ToJson([d |-> TLCGet("stats").diameter])>>)
=============================================================================
