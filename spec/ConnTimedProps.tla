--------------------------- MODULE ConnTimedProps ---------------------------
(***************************************************************************)
(* Property-level layer for C07 over an OBSERVED, TIMESTAMPED history of   *)
(* one connection: r = [sched |-> [lat |-> <<l1,l2,l3>>, ...],             *)
(*   obs |-> events [e, t (seconds since the connection was created), ...],*)
(*   result |-> ...].  Nothing about the phase of the timer is demanded:   *)
(* only "at least every P seconds", "never two unechoed", "an echoing      *)
(* client survives and is transferred when routing completes", "a silent   *)
(* one is timed out no later than P after the unechoed Keep Alive".        *)
(***************************************************************************)
EXTENDS Integers, Sequences, FiniteSets

P == 16

Has(r, f) == f \in DOMAIN r
IsRx(x, k) == x.e = "rx" /\ x.f.k = k
IsTx(x, k) == x.e = "tx" /\ x.p.k = k
Idx(h, Q(_)) == {i \in 1..Len(h) : Q(h[i])}
MinOf(S) == CHOOSE x \in S : \A y \in S : x <= y
MaxOf(S) == CHOOSE x \in S : \A y \in S : y <= x

KAs(h) == Idx(h, LAMBDA x : IsTx(x, "KeepAlive"))
Echoes(h) == Idx(h, LAMBDA x : IsRx(x, "KeepAlive") /\ Has(x.f, "id") /\ x.f.id = "last")
Acks(h) == Idx(h, LAMBDA x : IsRx(x, "LoginAck"))
Infos(h) == Idx(h, LAMBDA x : IsRx(x, "ClientInfo"))
Finals(h) == Idx(h, LAMBDA x : x.e = "tx" /\ x.p.k \in {"Transfer", "Disconnect"})
Timeouts(h) == Idx(h, LAMBDA x : IsTx(x, "Disconnect") /\ x.p.msg[1] = "disconnect_timeout")
Ended(r) == r.result # "running"
EndTime(r) == r.obs[Len(r.obs)].t
\* the moment routing completes, from what was observed: Client Information arrival plus the three latencies
RoutingEnd(r) == r.obs[MinOf(Infos(r.obs))].t + r.sched.lat[1] + r.sched.lat[2] + r.sched.lat[3]
\* Is Keep Alive i echoed (with its id) before the next one is due?  The statement bounds the period from above only (16 s), so
\* two thresholds are used: the client is SURELY in time when it echoes within P - 1 seconds (any period a server may use leaves
\* that much), and SURELY too late when nothing arrived for a full P seconds.  In between nothing is demanded.
EchoedInTime(h, i) == \E e \in Echoes(h) : i < e /\ h[e].t < h[i].t + P - 1 /\ ~(\E j \in KAs(h) : i < j /\ j < e)
Unechoed(h, i) == ~(\E e \in Echoes(h) : i < e /\ h[e].t <= h[i].t + P /\ ~(\E j \in KAs(h) : i < j /\ j < e))

\* (a) while the client waits in the configuration phase it is sent a Keep Alive at least every P seconds
C07_KeepAliveEveryP(r) ==
  LET h == r.obs IN
  Acks(h) # {} =>
    LET entry == h[MinOf(Acks(h))].t
        kas == {i \in KAs(h) : i > MinOf(Acks(h))}
        stop == IF Ended(r) THEN EndTime(r) ELSE EndTime(r)
    IN /\ \A i \in kas : \/ h[i].t - entry <= P
                         \/ \E j \in kas : j < i /\ h[i].t - h[j].t <= P
       /\ \/ stop - entry <= P
          \/ \E j \in kas : stop - h[j].t <= P
\* (b) never a second Keep Alive before the previous one was echoed
C07_OneOutstanding(r) ==
  LET h == r.obs IN
  \A i, j \in KAs(h) : (i < j /\ ~(\E m \in KAs(h) : i < m /\ m < j)) => \E e \in Echoes(h) : i < e /\ e < j
\* no Keep Alive outside the configuration phase
C07_OnlyWhileWaiting(r) ==
  LET h == r.obs IN \A i \in KAs(h) : Acks(h) # {} /\ MinOf(Acks(h)) < i
\* (c) a client that echoes each Keep Alive before the next is due is not dropped ...
C07_EchoingClientSurvives(r) ==
  LET h == r.obs IN
  (\A i \in KAs(h) : EchoedInTime(h, i) \/ (Infos(h) # {} /\ RoutingEnd(r) < h[i].t + P))
     => (r.result # "MissedKeepAlive" /\ Timeouts(h) = {})
\* ... whatever else it sends that the configuration phase allows (its settings once more, plugin messages): the connection of a client
\* that was in time with every echo ends with the Transfer, not with an error
C07_EchoingClientRouted(r) ==
  LET h == r.obs  T == Idx(h, LAMBDA x : IsTx(x, "Transfer")) IN
  (Ended(r) /\ Infos(h) # {} /\ \A i \in KAs(h) : EchoedInTime(h, i) \/ RoutingEnd(r) < h[i].t + P) => (r.result = "Ok" /\ T # {})
\* ... and receives its Transfer as soon as routing completes
C07_TransferWhenRoutingCompletes(r) ==
  LET h == r.obs  T == Idx(h, LAMBDA x : IsTx(x, "Transfer")) IN
  /\ \A i \in T : Infos(h) # {} /\ h[i].t >= RoutingEnd(r) /\ h[i].t <= RoutingEnd(r) + 1
  /\ (r.result = "Ok" /\ Infos(h) # {}) => T # {}
\* ... whole and decodable, also when the transport delivered it late (judged on runs with a stalled transport too): a connection that
\* ended well after routing delivered its Transfer
C07_TransferDelivered(r) ==
  LET h == r.obs  T == Idx(h, LAMBDA x : IsTx(x, "Transfer")) IN (r.result = "Ok" /\ Infos(h) # {}) => T # {}
\* (d) an unechoed (or wrongly echoed) Keep Alive leads to the timeout Disconnect no later than P after it; nothing follows
C07_SilentClientTimedOut(r) ==
  LET h == r.obs IN
  \A i \in KAs(h) :
    (Unechoed(h, i) /\ (Infos(h) = {} \/ RoutingEnd(r) > h[i].t + P) /\ (Ended(r) \/ EndTime(r) > h[i].t + P)) =>
       /\ r.result = "MissedKeepAlive"
       /\ \E d \in Timeouts(h) : i < d /\ h[d].t <= h[i].t + P /\ d = MaxOf(Idx(h, LAMBDA x : x.e = "tx"))
\* the timeout Disconnect is only ever sent for an unechoed Keep Alive
C07_TimeoutOnlyIfUnechoed(r) ==
  LET h == r.obs IN
  \A d \in Timeouts(h) : \E i \in KAs(h) : i < d /\ ~(\E e \in Echoes(h) : i < e /\ e < d /\ h[e].t < h[d].t /\ ~(\E j \in KAs(h) : i < j /\ j < e))
\* ... and not before the client has had the time that counts as "surely in time" above: a timeout Disconnect comes no earlier than
\* P - 1 seconds after the (latest) Keep Alive it is about -- a client about to echo within that time must not find the connection gone
C07_WindowNotCutShort(r) ==
  LET h == r.obs IN
  \A d \in Timeouts(h) : LET before == {i \in KAs(h) : i < d} IN before # {} => h[d].t >= h[MaxOf(before)].t + P - 1
\* when the TRANSPORT withheld clientbound bytes for a while (r.stalled: nothing, or only k bytes, were accepted from second wstall.at
\* until wstall.release), a Keep Alive that fell due meanwhile reaches the client as soon as the transport takes bytes again -- not only
\* when something else happens to be sent
C07_DueKeepAliveSentWhenWritable(r) ==
  LET h == r.obs IN
  (r.stalled /\ Acks(h) # {}) =>
    LET a == r.wstall.at  rel == r.wstall.release  entry == h[MinOf(Acks(h))].t IN
    \A m \in 1..8 : (a <= m * P /\ m * P <= rel /\ entry < m * P /\ EndTime(r) > rel + 1
                       /\ ~(\E i \in KAs(h) : h[i].t < m * P /\ Unechoed(h, i) /\ h[i].t + P >= m * P))
                        => \E i \in KAs(h) : m * P <= h[i].t /\ h[i].t <= rel + 1

C07Names == {"C07_KeepAliveEveryP", "C07_OneOutstanding", "C07_OnlyWhileWaiting", "C07_EchoingClientSurvives", "C07_EchoingClientRouted",
             "C07_TransferWhenRoutingCompletes", "C07_TransferDelivered", "C07_SilentClientTimedOut", "C07_TimeoutOnlyIfUnechoed", "C07_WindowNotCutShort",
             "C07_DueKeepAliveSentWhenWritable"}
C07Clause(c, r) ==
  CASE c = "C07_KeepAliveEveryP" -> C07_KeepAliveEveryP(r) [] c = "C07_OneOutstanding" -> C07_OneOutstanding(r)
    [] c = "C07_OnlyWhileWaiting" -> C07_OnlyWhileWaiting(r) [] c = "C07_EchoingClientSurvives" -> C07_EchoingClientSurvives(r)
    [] c = "C07_EchoingClientRouted" -> C07_EchoingClientRouted(r)
    [] c = "C07_TransferWhenRoutingCompletes" -> C07_TransferWhenRoutingCompletes(r) [] c = "C07_TransferDelivered" -> C07_TransferDelivered(r)
    [] c = "C07_SilentClientTimedOut" -> C07_SilentClientTimedOut(r) [] c = "C07_TimeoutOnlyIfUnechoed" -> C07_TimeoutOnlyIfUnechoed(r)
    [] c = "C07_WindowNotCutShort" -> C07_WindowNotCutShort(r) [] c = "C07_DueKeepAliveSentWhenWritable" -> C07_DueKeepAliveSentWhenWritable(r)
    [] OTHER -> FALSE
=============================================================================
