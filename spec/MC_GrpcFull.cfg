\* C19 thorough: products over host forms, ports, metadata, identifiers, candidate lists (about 5k exchanges)
CONSTANTS
  DiscoverReplies <- MC_FullDiscover
  SelectCases <- MC_FullSelect
  StatusCalls <- MC_FullStatus
  RouterMetas <- MC_RouterMetas
  WireMetas <- MC_WireMetas
SPECIFICATION Spec
INVARIANTS AllInvariants Export
CHECK_DEADLOCK FALSE
