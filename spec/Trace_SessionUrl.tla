-------------------------- MODULE Trace_SessionUrl --------------------------
(* Trace validation, code -> spec, for C12.  Every record written by `hx-http` (NDJSON file named by the     *)
(* TRACE environment variable; one record per authenticate() call of the real MojangAdapter against the     *)
(* loopback mock) is judged here: the RAW request target bytes the mock received are parsed with            *)
(* SessionUrl!Parse -- the specification's reading of a request target -- and compared with the claimed name *)
(* and with that connection's server hash.  One state per record; failing clauses are printed on a FAIL     *)
(* line; Judge is always TRUE.                                                                               *)
(*                                                                                                           *)
(* Record: vec.name = claimed name (UTF-8 bytes), vec.script = what the mock answered, vec.digest = SHA-1   *)
(* (hashlib) of server id, secret, key; hash = bytes of what the public minecraft_hash returns for these    *)
(* inputs; requests = the targets received (possibly none); result = ok | err | panic | timeout.            *)
(*                                                                                                           *)
(* C12 clauses (each over EVERY request made during the call; no request made => they hold vacuously: C12   *)
(* speaks about what the request carries when it is made -- a name that cannot be asked about cannot be     *)
(* authenticated, which C12_ErrorOnBadReply then demands):                                                   *)
(*   C12_PathFixed              the path is exactly /session/minecraft/hasJoined                            *)
(*   C12_OneUsername            exactly one parameter named username                                        *)
(*   C12_UsernameDecodesToName  every username parameter decodes to exactly the claimed name                *)
(*   C12_OneServerId            exactly one parameter named serverId                                        *)
(*   C12_ServerIdIsHash         every serverId parameter equals this connection's server hash               *)
(*   C12_NoOtherParams          no parameter with another name                                              *)
(*   C12_ErrorOnBadReply        unless the answer was 2xx with a JSON profile (script "ok") and a request   *)
(*                              was made, the adapter returns an error: no profile (a panic or a hang is    *)
(*                              not an error return)                                                        *)
(* Binding / drift:                                                                                          *)
(*   Bind_Record                the record is well-formed                                                   *)
(*   Note_HashIsSignedHex       minecraft_hash's text = McHash!SignedHex(digest) -- C11's subject, not C12's *)
(*   Note_ProfileFromReply      a request answered with script "ok" yields exactly the profile of the reply *)
EXTENDS SessionUrl, Json, IOUtils, TLC

H == INSTANCE McHash

Recs == ndJsonDeserialize(IOEnv.TRACE)

VARIABLE idx
Init == idx = 0
Next == idx < Len(Recs) /\ idx' = idx + 1
Spec == Init /\ [][Next]_idx

ClauseNames == {"C12_EveryLoginIsAsked", "C12_OverlappingLoginsEachAsked", "C12_PathFixed", "C12_OneUsername", "C12_UsernameDecodesToName", "C12_OneServerId", "C12_ServerIdIsHash",
                "C12_NoOtherParams", "C12_ErrorOnBadReply", "C11_RequestCarriesSignedHex", "C01_IdentityOnlyFromReply", "Note_HashIsSignedHex", "Note_ProfileFromReply"}

IsBytes(s) == \A i \in 1..Len(s) : s[i] \in 0..255
WellFormed(r) == /\ r.line = idx /\ r.harness_error = ""
                 /\ IsBytes(r.vec.name) /\ IsBytes(r.hash)
                 /\ Len(r.vec.digest) = 20 /\ IsBytes(r.vec.digest)
                 /\ \A k \in 1..Len(r.requests) : IsBytes(r.requests[k])
                 /\ r.result \in {"ok", "err", "panic", "timeout"}

\* ps = the parsed requests, in order
Clause(cl, r, ps) ==
    LET Each(P(_)) == \A k \in 1..Len(ps) : P(ps[k])
        Uname(p) == AllAre(p, KUser, r.vec.name)      OneU(p) == OneOf(p, KUser)
        Sid(p)   == AllAre(p, KSid, r.hash)           OneS(p) == OneOf(p, KSid)
        SidMc(p) == AllAre(p, KSid, H!SignedHex(r.vec.digest))
        IsPair == "hash2" \in DOMAIN r
    IN CASE cl = "C12_PathFixed"             -> Each(PathFixed)
         \* a login is accepted only on the strength of a request made FOR IT (none is answered from what an earlier login was told) ...
         [] cl = "C12_EveryLoginIsAsked"     -> (~IsPair /\ r.result = "ok") => Len(ps) >= 1
         \* ... also when two logins claiming the same name overlap in time: each connection's own hash is asked about
         [] cl = "C12_OverlappingLoginsEachAsked" -> (IsPair /\ r.result = "ok" /\ r.result2 = "ok") =>
                                                       /\ \E k \in 1..Len(ps) : AllAre(ps[k], KSid, r.hash)
                                                       /\ \E k \in 1..Len(ps) : AllAre(ps[k], KSid, r.hash2)
         [] cl = "C12_OneUsername"           -> Each(OneU)
         [] cl = "C12_UsernameDecodesToName" -> Each(Uname)
         [] cl = "C12_OneServerId"           -> Each(OneS)
         [] cl = "C12_ServerIdIsHash"        -> IsPair \/ Each(Sid)
         [] cl = "C12_NoOtherParams"         -> Each(NoOtherParams)
         [] cl = "C12_ErrorOnBadReply"       -> (r.vec.script \notin {"ok", "slowok"} \/ Len(ps) = 0) => r.result = "err"
         \* C11: the hash that is actually sent to the session service is Minecraft's signed hex of SHA-1(configured server id, secret, key)
         [] cl = "C11_RequestCarriesSignedHex" -> IsPair \/ Each(SidMc)
         \* C01 at the adapter: an identity is reported as vouched for only if the service's answer carried exactly that identity
         \* (an answer without a profile -- an error object, an object without id or name -- vouches for nobody)
         [] cl = "C01_IdentityOnlyFromReply" -> r.result = "ok" => /\ r.vec.script \in {"ok", "slowok", "500profile", "300profile"}
                                                                   /\ r.profile.id = r.vec.reply_id /\ r.profile.name = r.vec.reply_name
         [] cl = "Note_HashIsSignedHex"      -> r.hash = H!SignedHex(r.vec.digest)
         [] cl = "Note_ProfileFromReply"     -> (r.vec.script \in {"ok", "slowok"} /\ Len(ps) >= 1)
                                                   => (r.result = "ok" /\ r.profile.id = r.vec.reply_id /\ r.profile.name = r.vec.reply_name)

RECURSIVE ParseAll(_, _, _)
ParseAll(reqs, k, acc) == IF k > Len(reqs) THEN acc ELSE ParseAll(reqs, k + 1, Append(acc, Parse(reqs[k])))

RECURSIVE ParamsOf(_, _, _)
ParamsOf(ps, k, acc) == IF k > Len(ps) THEN acc ELSE ParamsOf(ps, k + 1, Append(acc, ps[k].params))

\* always TRUE; prints the failing clauses of record idx, with the specification's reading of the parameters of every request
Judge == idx >= 1 =>
           LET r == Recs[idx] IN
           IF ~WellFormed(r) THEN PrintT(<<"FAIL", ToJson([line |-> idx, clauses |-> {"Bind_Record"}, params |-> <<>>])>>)
           ELSE LET ps == ParseAll(r.requests, 1, <<>>)
                    bad == {cl \in ClauseNames : ~Clause(cl, r, ps)}
                IN bad = {} \/ PrintT(<<"FAIL", ToJson([line |-> idx, clauses |-> bad, params |-> ParamsOf(ps, 1, <<>>)])>>)

AllConsumed == TLCGet("stats").diameter = Len(Recs) + 1 \/ PrintT(<<"NOTCONSUMED", ToJson([d |-> TLCGet("stats").diameter])>>)
=============================================================================
