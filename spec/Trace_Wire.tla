----------------------------- MODULE Trace_Wire -----------------------------
(* Trace validation, code -> spec, for C09.  Every record written by `hx wire` (NDJSON file named by the     *)
(* TRACE environment variable; one record per replayed vector: what passage-packets encoded, whether and to *)
(* what it decoded the specification's bytes, T::ID, errors, panics, and an echo `vec` of the vector it was *)
(* given) is judged against Wire's own Encode / Decode, recomputed here from the recorded input value.      *)
(* One state per record; failing clauses are printed on a FAIL line; Judge is always TRUE.                   *)
(*                                                                                                            *)
(* Clauses: C09_* are the property.  Bind_* says that the input the harness was given is the specification's *)
(* (a failure is a tool error, not a finding).  Drift_* are differences from the precise codec that C09 does *)
(* not cover (decision D-f of Wire.tla); they are reported as model drift.                                   *)
EXTENDS Wire, Json, IOUtils

Recs == ndJsonDeserialize(IOEnv.TRACE)

VARIABLE idx
Init == idx = 0
Next == idx < Len(Recs) /\ idx' = idx + 1
Spec == Init /\ [][Next]_idx

KeyR(r) == KeyOf(r.vec.phase, r.vec.dir, r.vec.type)
\* the bytes the specification assigns to the recorded input
SpecBytes(r) == CASE r.vec.kind = "packet"   -> Encode(KeyR(r), r.vec.value)
                  [] r.vec.kind = "varint"   -> EncVarInt(r.vec.value.v)
                  [] r.vec.kind = "varlong"  -> EncVarLong(r.vec.value.l)
                  [] r.vec.kind = "reject"   -> EncodeWithRaw(KeyR(r), r.vec.value.base, r.vec.value.field, EncVarInt(r.vec.value.ordinal))
                  [] r.vec.kind = "overlong" -> r.vec.value.raw

ClauseNames(kind) ==
    CASE kind = "packet"   -> {"Bind_InputIsSpecEncoding", "C09_EncodesToLayout", "C09_IdMatches", "C09_DecodesBack", "C09_ConsumesAll", "C09_DecodeIgnoresSegmentation", "C09_FrameLayout"}
      [] kind = "varint"   -> {"Bind_InputIsSpecEncoding", "C09_VarIntLayout", "C09_VarIntRoundTrip", "C09_DecodeIgnoresSegmentation"}
      [] kind = "varlong"  -> {"Bind_InputIsSpecEncoding", "C09_VarLongLayout", "C09_VarLongRoundTrip", "C09_DecodeIgnoresSegmentation"}
      [] kind = "reject"   -> {"Bind_InputIsSpecEncoding", "C09_OrdinalRejected", "C09_DecodeIgnoresSegmentation"}
      [] kind = "overlong" -> {"Bind_InputIsSpecEncoding", "Drift_OverlongRejected"}
      [] OTHER             -> {"Bind_InputIsSpecEncoding"}

KnownKind(r) == r.vec.kind \in {"packet", "varint", "varlong", "reject", "overlong"}
\* bs = SpecBytes(r), hx = HexOf(bs)
Clause(cl, r, bs, hx) ==
    CASE cl = "Bind_InputIsSpecEncoding" ->
              /\ KnownKind(r) /\ r.kind = r.vec.kind /\ r.type = r.vec.type /\ r.harness_error = ""
              /\ r.vec.bytes = hx
              /\ r.vec.kind \in {"packet", "reject"} => KeyR(r) \in PacketKeys /\ r.vec.id = PacketOf(KeyR(r)).id
              /\ r.vec.kind = "packet" => InLimits(KeyR(r), r.vec.value)
              /\ r.vec.kind = "reject" => Rejects(KeyR(r), bs)
              /\ r.vec.kind = "varlong" => IsLimbs(r.vec.value.l, 4)
              /\ r.vec.kind = "overlong" => ~DecVar(bs, 1, IF r.vec.type = "VarInt" THEN 5 ELSE 10).ok
      \* the crate's write_to_buffer produced exactly the layout
      [] cl = "C09_EncodesToLayout"  -> ~r.panic /\ r.encoded = hx
      \* the crate's T::ID is the id the protocol assigns
      [] cl = "C09_IdMatches"        -> r.id = PacketOf(KeyR(r)).id
      \* the crate's read_from_buffer on the layout bytes yields what the specification's Decode yields: the original value
      [] cl = "C09_DecodesBack"      -> LET d == Decode(KeyR(r), bs) IN
                                        r.decoded_ok /\ ~r.panic /\ d.ok /\ r.decoded = d.v /\ r.decoded = r.vec.value /\ r.decoded_value_roundtrip
      \* ... and leaves nothing unread (judged where decoding succeeded at all)
      \* the whole frame write_packet sends: VarInt length of (packet id + body), the packet id as VarInt, the body
      [] cl = "C09_FrameLayout"      -> LET idb == EncVarInt(PacketOf(KeyR(r)).id) IN
                                        ~r.panic /\ r.framed = HexOf(EncVarInt(Len(idb) + Len(bs)) \o idb \o bs) /\ r.framed_len_reported /\ r.framed_dribbled_same
      [] cl = "C09_ConsumesAll"      -> r.decoded_ok => r.consumed_all
      \* decoding "those bytes" does not depend on the pieces in which the source delivers them (one byte at a time; irregular pieces):
      \* same acceptance, same value, same number of bytes consumed as from one contiguous buffer
      [] cl = "C09_DecodeIgnoresSegmentation" -> r.segmented_same
      [] cl = "C09_VarIntLayout"     -> ~r.panic /\ r.encoded = hx /\ Len(bs) <= 5
      [] cl = "C09_VarLongLayout"    -> ~r.panic /\ r.encoded = hx /\ Len(bs) <= 10
      [] cl = "C09_VarIntRoundTrip"  -> r.decoded_ok /\ ~r.panic /\ r.decoded.v = DecVarInt(bs, 1).v /\ r.decoded.v = r.vec.value.v
                                        /\ r.decoded_value_roundtrip /\ r.consumed_all
      [] cl = "C09_VarLongRoundTrip" -> r.decoded_ok /\ ~r.panic /\ r.decoded.l = DecVar(bs, 1, 10).v /\ r.decoded.l = r.vec.value.l
                                        /\ r.decoded_value_roundtrip /\ r.consumed_all
      \* an ordinal outside the enum's range is refused with an error (a panic is not a rejection)
      [] cl = "C09_OrdinalRejected"  -> ~r.decoded_ok /\ ~r.panic /\ r.error # ""
      [] cl = "Drift_OverlongRejected" -> ~r.decoded_ok /\ ~r.panic

Failing(r) == LET bs == IF KnownKind(r) THEN SpecBytes(r) ELSE <<>>
                  hx == HexOf(bs)
              IN {cl \in ClauseNames(r.vec.kind) : ~Clause(cl, r, bs, hx)}

\* always TRUE; prints the failing clauses of record idx
Judge == idx >= 1 =>
           LET bad == Failing(Recs[idx]) IN
           bad = {} \/ PrintT(<<"FAIL", ToJson([line |-> idx, clauses |-> bad])>>)

AllConsumed == TLCGet("stats").diameter = Len(Recs) + 1 \/ PrintT(<<"NOTCONSUMED", ToJson([d |-> TLCGet("stats").diameter])>>)
=============================================================================
