--------------------------- MODULE MC_ConfigLayers ---------------------------
EXTENDS ConfigLayers, Json
VARIABLE done
Init == done = FALSE
Next == done = FALSE /\ done' = TRUE
Spec == Init /\ [][Next]_done
Facts == EnvWins /\ SecretFileBeatsFile /\ DefaultLast
Export == done => \A sc \in Scenarios : PrintT(<<"REPLAY", ToJson([sc |-> sc, expect |-> [f \in Fields |-> Resolve(sc, f)]])>>)
=============================================================================
