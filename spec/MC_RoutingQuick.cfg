\* C18 quick tier: see the header of MC_Routing.tla for the domain
CONSTANTS
  Tier = "quick"
INIT MCInit
NEXT Next
INVARIANTS AllInvariants Export
CHECK_DEADLOCK FALSE
