-------------------------- MODULE RateLimiterProps --------------------------
(***************************************************************************)
(* Property-level layer for C13: predicates over an OBSERVED HISTORY of a  *)
(* rate limiter and nothing else -- no internal state, no particular       *)
(* algorithm beyond what the statement names (windows that start at an     *)
(* attempt, previous window weighted in).  h is a sequence of              *)
(*   [t |-> time of the call in ticks, k |-> key, ok |-> admitted?,        *)
(*    iso |-> decision of a fresh limiter fed only this key's calls,       *)
(*    size |-> published number of tracked keys, -1 if nothing published]  *)
(* D = window length in ticks, L = limit.                                  *)
(***************************************************************************)
EXTENDS Integers, Sequences, FiniteSets, TLC

N(h) == Len(h)
SameKey(h, i) == {j \in 1..N(h) : h[j].k = h[i].k}
Earlier(h, i) == {j \in SameKey(h, i) : j < i}
MaxOfSet(S) == CHOOSE x \in S : \A y \in S : y <= x

(* Window starts DEFINED FROM THE ATTEMPTS: the first attempt of a key starts a window; afterwards
   the first attempt at least D after the current window's start starts the next one.
   Windows(h, D)[i] = start of the window attempt i falls into (one left fold; explicit values only,
   TLC re-evaluates lazy function constructors on every application). *)
RECURSIVE WinFold(_, _, _, _, _)
WinFold(h, i, D, cur, acc) ==
  IF i > Len(h) THEN acc
  ELSE LET k == h[i].k  t == h[i].t
           s == IF k \in DOMAIN cur /\ t - cur[k] < D THEN cur[k] ELSE t
       IN WinFold(h, i + 1, D, (k :> s) @@ cur, Append(acc, s))
Windows(h, D) == WinFold(h, 1, D, <<>>, <<>>)

AdmittedIn(h, W, i, s) == {j \in SameKey(h, i) : W[j] = s /\ h[j].ok}

\* no more than L admissions between two consecutive window starts
C13_PerWindow(h, D, L) ==
  LET W == Windows(h, D) IN \A i \in 1..N(h) : Cardinality(AdmittedIn(h, W, i, W[i])) <= L
\* never more than 2L admissions within any closed interval of length D
C13_TwoLimit(h, D, L) ==
  \A i \in 1..N(h) : h[i].ok =>
     Cardinality({j \in SameKey(h, i) : h[j].ok /\ j <= i /\ h[i].t - D <= h[j].t}) <= 2 * L
\* a key that made no attempt for at least 2D is admitted again
C13_IdleReadmit(h, D, L) ==
  \A i \in 1..N(h) : (\A j \in Earlier(h, i) : h[j].t <= h[i].t - 2*D) => h[i].ok
(* rejected attempts consume nothing: the budget in use is at most what was ADMITTED in the current window so
   far plus what was admitted in the window before it (if that one started less than 2D before); below the
   limit the attempt is admitted *)
C13_RejectedConsumeNothing(h, D, L) ==
  LET W == Windows(h, D) IN
  \A i \in 1..N(h) :
     LET cur == Cardinality({j \in AdmittedIn(h, W, i, W[i]) : j < i})
         before == {W[j] : j \in {x \in Earlier(h, i) : W[x] < W[i]}}
         prev == IF before = {} \/ W[i] - MaxOfSet(before) >= 2*D THEN 0
                 ELSE Cardinality(AdmittedIn(h, W, i, MaxOfSet(before)))
     IN cur + prev < L => h[i].ok
\* decisions for one key are unaffected by other keys and by the internal cleanup
C13_Independent(h, D, L) == \A i \in 1..N(h) : h[i].ok = h[i].iso
\* the tracked keys are limited to those that attempted within the last 4D (where the size is published)
C13_TrackedBounded(h, D, L) ==
  \A i \in 1..N(h) : h[i].size >= 0 =>
     h[i].size <= Cardinality({h[j].k : j \in {x \in 1..i : h[x].t >= h[i].t - 4*D}})

C13ClauseNames == {"C13_PerWindow","C13_TwoLimit","C13_IdleReadmit","C13_RejectedConsumeNothing","C13_Independent","C13_TrackedBounded"}
C13Clause(n, h, D, L) ==
  CASE n = "C13_PerWindow" -> C13_PerWindow(h, D, L) [] n = "C13_TwoLimit" -> C13_TwoLimit(h, D, L)
    [] n = "C13_IdleReadmit" -> C13_IdleReadmit(h, D, L) [] n = "C13_RejectedConsumeNothing" -> C13_RejectedConsumeNothing(h, D, L)
    [] n = "C13_Independent" -> C13_Independent(h, D, L) [] n = "C13_TrackedBounded" -> C13_TrackedBounded(h, D, L)
    [] OTHER -> FALSE

---------------------------------------------------------------------------
(* The precise algorithm of RateLimiter.tla replayed functionally on absolute times (refinement layer:
   a difference here alone is model drift, not a violation). State: function key -> [w, p, c] or none. *)
RECURSIVE Predict(_, _, _, _, _, _)
Predict(h, i, D, L, st, acc) ==
  IF i > N(h) THEN acc
  ELSE LET k == h[i].k  t == h[i].t
           e0 == IF k \in DOMAIN st THEN st[k] ELSE [w |-> t, p |-> 0, c |-> 0]
           age == t - e0.w
           e1 == IF age >= D THEN [w |-> t, p |-> (IF age >= 2*D THEN 0 ELSE e0.c), c |-> 0] ELSE e0
           ok == e1.p * (D - (t - e1.w)) + e1.c * D < L * D
           e2 == IF ok THEN [e1 EXCEPT !.c = @ + 1] ELSE e1
       IN Predict(h, i + 1, D, L, (k :> e2) @@ st, Append(acc, ok))
Predicted(h, D, L) == Predict(h, 1, D, L, <<>>, <<>>)
Refines(h, D, L) == LET p == Predicted(h, D, L) IN \A i \in 1..N(h) : h[i].ok = p[i]
=============================================================================
