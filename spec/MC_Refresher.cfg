CONSTANTS
  R = 2
  MaxLatency = 3
  Values = {"v1", "v2"}
  MaxNow = 6
SPECIFICATION Spec
INVARIANT Safety
PROPERTIES FailureKeepsCache NoFetchAfterDrop
CHECK_DEADLOCK FALSE
