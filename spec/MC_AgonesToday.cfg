\* C20, today's discovery_adapter.rs (handler behind applied_objects()): EXPECTED TO FAIL.
\* Only used to document the finding (the shortest counterexample TLC prints); never part of a verdict.
\* Measured (4 workers, ~20 s): Invariant C20 is violated after 11 states:
\*   ApiCreate(a, Ready A1 <<7001,7002>>) . WInit . WList . ApiModify(a, Ready "bad" address) . WSend . WRecv .
\*   HInit . HInitApply(a) . HInitDone . HApply(a: conversion fails -> `continue`)  => a is still offered at A1:7001.
\* The same design also violates it through ApiDelete (HDelete never reaches the handler) and through a 410 re-list that
\* no longer contains a (HInitDone prunes nothing); replace C20 by C20_AtAllTimes to see those first.
CONSTANTS
  Names = {"a", "b"}
  Shapes <- MC_ShapesCore
  MaxWrites = 3
  MaxFaults = 1
  MaxBookmarks = 0
  MaxSteps = 6
  AppliedOnly = TRUE
SPECIFICATION Spec
INVARIANTS TypeOK C20
VIEW View
CHECK_DEADLOCK FALSE
