\* C20 history export, EXHAUSTIVE (no -simulate): one GameServer that is offerable or not, every history of six API-level steps with up to
\* two faults (drop / 410 / failed LIST) -- the directed corner cases (an empty re-list after everything was deleted, a LIST that fails
\* and is asked again, a delete while disconnected ...) are all in this pool, whatever the random walks of the other exports find
CONSTANTS
  Names = {"a"}
  Shapes <- MC_ShapesTiny
  MaxWrites = 3
  MaxFaults = 2
  MaxBookmarks = 0
  MaxSteps = 6
  AppliedOnly = FALSE
SPECIFICATION Spec
INVARIANTS AllInvariants Export
CONSTRAINT ExportConstraint
CHECK_DEADLOCK FALSE
