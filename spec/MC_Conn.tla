------------------------------ MODULE MC_Conn ------------------------------
(* Model-checking / behaviour-export wrapper for Conn: constants that TLC's cfg *)
(* syntax cannot express (sets of tuples) and the export of complete behaviours. *)
EXTENDS Conn, Json

MC_DiscoveriesFull  == {<<>>, <<"t1">>, <<"t1","t2">>, <<"t2","t1","t2">>, <<"t6","t1">>, <<"ERR">>}
MC_DiscoveriesQuick == {<<>>, <<"t1","t2">>, <<"t6","t1">>, <<"ERR">>}
MC_DiscoveriesThin  == {<<"t1","t2">>, <<"ERR">>}
MC_DiscoveriesPair  == {<<"t1","t2">>}

MC_ReconnectsFull == [ip : {"same","other"}, age : {"within","beyond"}, secret : {"same","rotated","removed"}]
MC_ReconnectsNone == {}
\* quick: vary one dimension at a time (beyond-expiry histories cost 2 s of wall clock each)
MC_ReconnectsQuick == {[ip |-> "same", age |-> "within", secret |-> "same"], [ip |-> "other", age |-> "within", secret |-> "same"],
                       [ip |-> "same", age |-> "beyond", secret |-> "same"], [ip |-> "same", age |-> "within", secret |-> "rotated"],
                       [ip |-> "same", age |-> "within", secret |-> "removed"]}

AllInvariants == TypeOK /\ VouchedConsistent /\ PropsHold

\* one line per complete behaviour; hist is part of the state, so each behaviour is printed exactly once
Export == (c.pc = "Done" /\ (round = MaxRounds \/ ~(ENABLED Reconnect))) =>
             PrintT(<<"REPLAY", ToJson([why |-> c.why, hist |-> hist])>>)
=============================================================================
