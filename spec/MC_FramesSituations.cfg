\* same design, exporting the situations in which futures are dropped (schedule generation for the replay against the code)
CONSTANTS
  InLens <- MC_InLens
  PrefixLen <- MC_PrefixLen
  OutLens <- MC_OutLens
  MaxCancels = 1
  CancelSafe = TRUE
SPECIFICATION Spec
INVARIANTS C08 Export
CHECK_DEADLOCK FALSE
