\* quick tier, login side: every handshake/cookie/encryption class and every deviation; thin routing
CONSTANTS
  Secrets = {"none", "S"}
  Intents = {"Status", "Login", "Transfer", "next0", "next4"}
  SessClasses = {"absent", "valid", "badjson"}
  CookieClasses = {"absent", "empty", "short", "tagOnly", "tagFlip", "bodyFlip", "otherSecret", "otherIp", "expired", "nonJson", "truncJson", "missingField", "fresh", "justInside", "otherPort"}
  EncClasses = {"honest", "wrongToken", "staleToken", "emptyToken", "prefixToken", "otherKey", "garbage", "badSecretLen"}
  AuthVerdicts = {"same", "other", "err"}
  StatusVerdicts = {"some", "null", "err"}
  Pings = {"p0"}
  Discoveries <- MC_DiscoveriesThin
  FilterOuts = {"id"}
  SelectOuts = {"first", "none"}
  Locales = {"de_DE"}
  MaxIgnored = 1
  Deviations = TRUE
  MaxRounds = 1
  Reconnects <- MC_ReconnectsNone
SPECIFICATION Spec
INVARIANTS AllInvariants Export
CHECK_DEADLOCK FALSE
