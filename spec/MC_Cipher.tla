------------------------------ MODULE MC_Cipher ------------------------------
EXTENDS Cipher, Json
MC_WritesW == {<<1>>, <<3>>, <<4>>, <<2, 2>>, <<1, 3>>, <<3, 1, 2>>}
MC_WritesWQuick == {<<3>>, <<2, 2>>, <<3, 1, 2>>}
MC_WritesR == {<<4>>, <<2, 2>>}
MC_WritesRQuick == {<<3>>, <<1, 2>>}
Export == Done => PrintT(<<"REPLAY", ToJson([ws |-> ws, sw |-> sw, sched |-> sched])>>)
=============================================================================
