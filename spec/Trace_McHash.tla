---------------------------- MODULE Trace_McHash ----------------------------
(* Trace validation, code -> spec, for C11.  Every record written by `hx hash` (NDJSON file named by the    *)
(* TRACE environment variable; one record per input: vec = the input as given, with vec.digest = its SHA-1  *)
(* digest from hashlib as a sequence of bytes; got = the bytes of the String minecraft_hash returned;       *)
(* panic) is judged against McHash!SignedHex(vec.digest), computed here.  One state per record; failing     *)
(* clauses are printed on a FAIL line together with the expected text; Judge is always TRUE.                *)
(*                                                                                                          *)
(* Clauses:  C11_EqualsSignedHex  the returned text is exactly the notation of the digest                  *)
(*           C11_NoLeadingZeros   the returned text has no leading zero (unless it is "0")                  *)
(*           C11_SignIffTopBit    it starts with '-' exactly when the digest's top bit is set               *)
(*           C11_Lowercase        after the optional sign only [0-9a-f]                                     *)
(*           Bind_Digest          the record is well-formed: a 20-byte digest, bytes in 0..255              *)
(* The last three C11 clauses look at the returned text alone (they follow from the first, and name what    *)
(* went wrong).  A panic fails every C11 clause.                                                            *)
EXTENDS McHash, Json, IOUtils, TLC

Recs == ndJsonDeserialize(IOEnv.TRACE)

VARIABLE idx
Init == idx = 0
Next == idx < Len(Recs) /\ idx' = idx + 1
Spec == Init /\ [][Next]_idx

ClauseNames == {"Bind_Digest", "C11_EqualsSignedHex", "C11_NoLeadingZeros", "C11_SignIffTopBit", "C11_Lowercase"}

WellFormed(r) == /\ r.line = idx
                 /\ Len(r.vec.digest) = 20 /\ \A i \in 1..20 : r.vec.digest[i] \in 0..255
                 /\ \A i \in 1..Len(r.got) : r.got[i] \in 0..255

Clause(cl, r, want) ==
    CASE cl = "Bind_Digest"         -> WellFormed(r)
      [] cl = "C11_EqualsSignedHex" -> ~r.panic /\ r.got = want
      [] cl = "C11_NoLeadingZeros"  -> ~r.panic /\ NoLeadingZero(r.got)
      [] cl = "C11_SignIffTopBit"   -> ~r.panic /\ (HasSign(r.got) <=> TopBit(r.vec.digest))
      [] cl = "C11_Lowercase"       -> ~r.panic /\ OnlyLowerHex(r.got)

\* always TRUE; prints the failing clauses of record idx
Judge == idx >= 1 =>
           LET r == Recs[idx] IN
           IF ~WellFormed(r) THEN PrintT(<<"FAIL", ToJson([line |-> idx, clauses |-> {"Bind_Digest"}, want |-> ""])>>)
           ELSE LET want == SignedHex(r.vec.digest)
                    bad == {cl \in ClauseNames : ~Clause(cl, r, want)}
                IN bad = {} \/ PrintT(<<"FAIL", ToJson([line |-> idx, clauses |-> bad, want |-> Str(want)])>>)

AllConsumed == TLCGet("stats").diameter = Len(Recs) + 1 \/ PrintT(<<"NOTCONSUMED", ToJson([d |-> TLCGet("stats").diameter])>>)
=============================================================================
