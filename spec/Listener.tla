------------------------------ MODULE Listener ------------------------------
(***************************************************************************)
(* passage-protocol/src/listener.rs: the concurrent shell around the       *)
(* per-connection handler -- accept loop, PROXY-protocol header, per-IP    *)
(* rate limiter, one tracked task per connection under one deadline,       *)
(* shutdown (C14 C15 C16 C17).                                             *)
(*                                                                         *)
(* Processes: the accept loop (Select -> [Header] -> Select ... Drain ->   *)
(* Returned), one task per accepted connection, the clients, the stop      *)
(* signal, a discrete clock.  The per-connection protocol is summarised by *)
(* what the client does: behaves (is served), sends a bad header, never    *)
(* sends the header, or stalls after admission until the deadline.         *)
(*                                                                         *)
(* HeaderInTask = TRUE : the PROXY header is read and the limiter is       *)
(*   consulted inside the connection's task, under the connection's        *)
(*   deadline -- the accept loop never waits for a client.  FALSE: both    *)
(*   happen inline in the accept loop, as in the code as found; TLC        *)
(*   returns the counterexample (one silent peer blocks every later client *)
(*   and the stop signal) under MC_ListenerAsFound.cfg.                    *)
(***************************************************************************)
EXTENDS Integers, Sequences, FiniteSets, TLC

CONSTANTS Clients,
          Kinds,          \* client behaviours explored
          HeaderInTask,
          Limit,          \* admissions per effective IP (one limiter window covers the whole run)
          Timeout,        \* connection deadline in ticks
          MaxNow          \* clock bound of the model

VARIABLES kind,     \* behaviour of each client
          cl,       \* client side: idle | connected | hdrSent
          backlog,  \* accepted by the kernel, not yet by the loop
          loop,     \* [pc |-> Select | Header | Drain | Returned, c]
          task,     \* none | hdr | serve | done
          outcome,  \* none | served | refused | badhdr | timeout
          stop, stopSeen,
          used,     \* admissions per effective IP
          now, acceptAt, closedAt,
          afterStop, \* clients that connected after the stop was requested
          admitted   \* ghost: clients the limiter admitted
vars == <<kind, cl, backlog, loop, task, outcome, stop, stopSeen, used, now, acceptAt, closedAt, afterStop, admitted>>

IPs == {"ipA", "ipB"}
\* the effective address: the source announced in the PROXY header (all clients come through the same balancer peer)
Eff(c) == IF kind[c] \in {"goodB"} THEN "ipB" ELSE "ipA"
SendsHeader(c) == kind[c] \in {"goodA", "goodB", "badhdr", "staller"}
Good(c) == kind[c] \in {"goodA", "goodB"}

Init == /\ kind \in [Clients -> Kinds]
        /\ cl = [c \in Clients |-> "idle"] /\ backlog = <<>> /\ loop = [pc |-> "Select", c |-> "none"]
        /\ task = [c \in Clients |-> "none"] /\ outcome = [c \in Clients |-> "none"]
        /\ stop = FALSE /\ stopSeen = FALSE /\ used = [i \in IPs |-> 0]
        /\ now = 0 /\ acceptAt = [c \in Clients |-> -1] /\ closedAt = [c \in Clients |-> -1] /\ afterStop = {} /\ admitted = {}

\* Clients are interchangeable: it is enough to explore one assignment of behaviours per multiset (used as a CONSTRAINT; `kind`
\* never changes, so it only prunes initial states; every property below is invariant under renaming clients)
KindRank(k) == CASE k = "goodA" -> 1 [] k = "goodB" -> 2 [] k = "silent" -> 3 [] k = "badhdr" -> 4 [] OTHER -> 5
ClientSeq == CHOOSE s \in [1..Cardinality(Clients) -> Clients] : \A i, j \in 1..Cardinality(Clients) : i # j => s[i] # s[j]
SortedKinds == \A i \in 1..(Cardinality(Clients) - 1) : KindRank(kind[ClientSeq[i]]) <= KindRank(kind[ClientSeq[i + 1]])

---------------------------------------------------------------------------
(* clients *)
Connect(c) == /\ cl[c] = "idle" /\ loop.pc # "Returned"
              /\ cl' = [cl EXCEPT ![c] = "connected"] /\ backlog' = Append(backlog, c)
              /\ afterStop' = IF stop THEN afterStop \cup {c} ELSE afterStop
              /\ UNCHANGED <<kind, loop, task, outcome, stop, stopSeen, used, now, acceptAt, closedAt, admitted>>
SendHeader(c) == /\ cl[c] = "connected" /\ SendsHeader(c)
                 /\ cl' = [cl EXCEPT ![c] = "hdrSent"]
                 /\ UNCHANGED <<kind, backlog, loop, task, outcome, stop, stopSeen, used, now, acceptAt, closedAt, afterStop, admitted>>

---------------------------------------------------------------------------
(* header, admission, serving: inline in the loop or inside the task *)
HeaderReady(c) == cl[c] = "hdrSent"
Decide(c) == IF kind[c] = "badhdr" THEN "badhdr" ELSE IF used[Eff(c)] < Limit THEN "serve" ELSE "refused"

Close(c, o) == outcome' = [outcome EXCEPT ![c] = o] /\ closedAt' = [closedAt EXCEPT ![c] = now]

\* the header is parsed, then (only then) the limiter is consulted on the effective address
Resolve(c) ==
  LET d == Decide(c) IN
  /\ used' = IF d = "serve" THEN [used EXCEPT ![Eff(c)] = @ + 1] ELSE used
  /\ admitted' = IF d = "serve" THEN admitted \cup {c} ELSE admitted
  /\ task' = [task EXCEPT ![c] = IF d = "serve" THEN "serve" ELSE "done"]
  /\ IF d = "serve" THEN UNCHANGED <<outcome, closedAt>> ELSE Close(c, d)

LoopAccept == /\ loop.pc = "Select" /\ backlog # <<>> /\ ~stopSeen
              /\ LET c == Head(backlog) IN
                 /\ backlog' = Tail(backlog)
                 /\ acceptAt' = [acceptAt EXCEPT ![c] = now]
                 /\ IF HeaderInTask THEN /\ task' = [task EXCEPT ![c] = "hdr"] /\ UNCHANGED loop
                                    ELSE /\ loop' = [pc |-> "Header", c |-> c] /\ UNCHANGED task
              /\ UNCHANGED <<kind, cl, outcome, stop, stopSeen, used, now, closedAt, afterStop, admitted>>
LoopHeader == /\ ~HeaderInTask /\ loop.pc = "Header" /\ HeaderReady(loop.c)
              /\ Resolve(loop.c) /\ loop' = [pc |-> "Select", c |-> "none"]
              /\ UNCHANGED <<kind, cl, backlog, stop, stopSeen, now, acceptAt, afterStop>>
TaskHeader(c) == /\ HeaderInTask /\ task[c] = "hdr" /\ HeaderReady(c) /\ Resolve(c)
                 /\ UNCHANGED <<kind, cl, backlog, loop, stop, stopSeen, now, acceptAt, afterStop>>
\* a well-behaved client is served to completion; a staller holds its task until the deadline
TaskServe(c) == /\ task[c] = "serve" /\ Good(c)
                /\ task' = [task EXCEPT ![c] = "done"] /\ Close(c, "served")
                /\ UNCHANGED <<kind, cl, backlog, loop, stop, stopSeen, used, now, acceptAt, afterStop, admitted>>
AtDeadline(c) == task[c] \in {"hdr", "serve"} /\ now >= acceptAt[c] + Timeout
TaskTimeout(c) == /\ AtDeadline(c)
                  /\ task' = [task EXCEPT ![c] = "done"] /\ Close(c, "timeout")
                  /\ UNCHANGED <<kind, cl, backlog, loop, stop, stopSeen, used, now, acceptAt, afterStop, admitted>>

---------------------------------------------------------------------------
(* shutdown *)
RequestStop == /\ ~stop /\ stop' = TRUE
               /\ UNCHANGED <<kind, cl, backlog, loop, task, outcome, stopSeen, used, now, acceptAt, closedAt, afterStop, admitted>>
LoopSeeStop == /\ loop.pc = "Select" /\ stop /\ ~stopSeen
               /\ loop' = [pc |-> "Drain", c |-> "none"] /\ stopSeen' = TRUE
               /\ UNCHANGED <<kind, cl, backlog, task, outcome, stop, used, now, acceptAt, closedAt, afterStop, admitted>>
LoopReturn == /\ loop.pc = "Drain" /\ \A c \in Clients : task[c] \in {"none", "done"}
              /\ loop' = [pc |-> "Returned", c |-> "none"]
              /\ UNCHANGED <<kind, cl, backlog, task, outcome, stop, stopSeen, used, now, acceptAt, closedAt, afterStop, admitted>>

\* time passes, but never past a deadline that has not been acted upon
Tick == /\ (now < MaxNow \/ \E c \in Clients : task[c] \in {"hdr", "serve"})     \* the clock stops once nothing can time out any more
        /\ ~(\E c \in Clients : AtDeadline(c))
        /\ now' = now + 1
        /\ UNCHANGED <<kind, cl, backlog, loop, task, outcome, stop, stopSeen, used, acceptAt, closedAt, afterStop, admitted>>

Server == LoopAccept \/ LoopHeader \/ LoopSeeStop \/ LoopReturn \/ \E c \in Clients : TaskHeader(c) \/ TaskServe(c) \/ TaskTimeout(c)
Next == Server \/ RequestStop \/ Tick \/ \E c \in Clients : Connect(c) \/ SendHeader(c)

\* fairness: the server's own steps, the clock, and WELL-BEHAVED clients only -- never a hostile client
Spec == Init /\ [][Next]_vars /\ WF_vars(Server) /\ WF_vars(Tick)
             /\ \A c \in Clients : WF_vars(Good(c) /\ SendHeader(c))

---------------------------------------------------------------------------
(* C15 *)
\* served only if admitted on the effective address, and never more than the limit per effective address
LimitRespected == \A i \in IPs : used[i] <= Limit
ServedWereAdmitted == \A c \in Clients : outcome[c] = "served" => c \in admitted
\* the budget in use is exactly the admitted connections; a connection without a valid header (bad, or never sent) is never admitted
BudgetIsAdmissions == \A i \in IPs : used[i] = Cardinality({c \in admitted : Eff(c) = i})
BadHeaderNoBudget == \A c \in Clients : kind[c] \in {"badhdr", "silent"} => c \notin admitted
RefusedOnlyOverLimit == \A c \in Clients : outcome[c] = "refused" => used[Eff(c)] >= Limit

(* C14 *)
DeadlineHolds == \A c \in Clients : (acceptAt[c] >= 0 /\ task[c] \in {"hdr", "serve"}) => now <= acceptAt[c] + Timeout
ClosedInTime == \A c \in Clients : closedAt[c] >= 0 => closedAt[c] <= acceptAt[c] + Timeout

(* C16 *)
\* the accept loop is never in a state that only a client can get it out of
LoopNeverWaitsOnClient == loop.pc # "Header"
\* a well-behaved client that connected and sent its header is resolved, whatever the others do or withhold
C16 == \A c \in Clients : Good(c) => ((cl[c] = "hdrSent" /\ acceptAt[c] >= 0) ~> (outcome[c] # "none"))
C16_Accepted == \A c \in Clients : (cl[c] # "idle" /\ ~stop) ~> (acceptAt[c] >= 0 \/ stop)

(* C17 *)
DrainBeforeReturn == loop.pc = "Returned" => \A c \in Clients : task[c] \in {"none", "done"}
NoServeAfterStopSeen == \A c \in Clients : (c \in afterStop /\ stopSeen /\ acceptAt[c] < 0) => outcome[c] = "none" /\ task[c] = "none"
\* requesting the stop cancels nothing: in-flight work is not touched
StopCancelsNothing == [][RequestStop => UNCHANGED <<task, outcome>>]_vars
C17 == stop ~> (loop.pc = "Returned")
\* an in-flight well-behaved client is still served although the stop was requested
InFlightStillServed == \A c \in Clients : Good(c) => ((task[c] = "serve") ~> (outcome[c] = "served"))

Safety == LimitRespected /\ ServedWereAdmitted /\ BudgetIsAdmissions /\ BadHeaderNoBudget /\ RefusedOnlyOverLimit /\ DeadlineHolds /\ ClosedInTime
          /\ DrainBeforeReturn /\ NoServeAfterStopSeen
=============================================================================
