\* C20 thorough, second exhaustive configuration: 4 writes and 2 drops/410s over four shape classes (7.9 M states, ~2 min)
CONSTANTS
  Names = {"a", "b"}
  Shapes <- MC_ShapesMin
  MaxWrites = 4
  MaxFaults = 2
  MaxBookmarks = 0
  MaxSteps = 7
  AppliedOnly = FALSE
SPECIFICATION Spec
INVARIANTS AllInvariants
VIEW View
CHECK_DEADLOCK FALSE
