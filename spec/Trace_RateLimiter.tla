------------------------- MODULE Trace_RateLimiter -------------------------
(* Trace validation for C13: every history recorded from the real RateLimiter (one NDJSON record *)
(* per run: cfg = [D, L], h = events) is judged against RateLimiterProps; a difference from the  *)
(* precise algorithm that no clause covers is reported as DRIFT.                                *)
EXTENDS RateLimiterProps, Json, IOUtils, TLC

Recs == ndJsonDeserialize(IOEnv.TRACE)

VARIABLE n
Init == n = 0
Next == n < Len(Recs) /\ n' = n + 1
Spec == Init /\ [][Next]_n

Judge == n >= 1 =>
  LET r == Recs[n]
      bad == {c \in C13ClauseNames : ~C13Clause(c, r.h, r.cfg.D, r.cfg.L)}
  IN /\ (bad = {} \/ PrintT(<<"FAIL", ToJson([line |-> n, clauses |-> bad])>>))
     /\ (Refines(r.h, r.cfg.D, r.cfg.L) \/ PrintT(<<"DRIFT", ToJson([line |-> n])>>))

AllConsumed == TLCGet("stats").diameter = Len(Recs) + 1 \/ PrintT(<<"NOTCONSUMED", ToJson([d |-> TLCGet("stats").diameter])>>)
=============================================================================
