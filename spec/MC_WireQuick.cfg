SPECIFICATION Spec
CONSTANTS
  Delta = 8
  Long = FALSE
INVARIANT M_RoundTrip
INVARIANT M_VarIntRoundTrip
INVARIANT M_VarLongRoundTrip
INVARIANT M_OrdinalRejected
INVARIANT M_OverlongRejected
INVARIANT Export
CHECK_DEADLOCK FALSE
