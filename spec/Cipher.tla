------------------------------- MODULE Cipher -------------------------------
(***************************************************************************)
(* passage-protocol/src/crypto/stream.rs: CipherStream, an AsyncRead +     *)
(* AsyncWrite wrapper that encrypts what is written and decrypts what is   *)
(* read with AES-128-CFB8 once encryption has been switched on.            *)
(*                                                                         *)
(* CFB8 is abstracted to what matters for C05: a ciphertext byte is the    *)
(* pair <<p, j>> "plaintext byte j encrypted at keystream position p" (the *)
(* position stands for the whole feedback state); decrypting <<p, j>> at   *)
(* reader position q yields j iff p = q, garbage otherwise.  Bytes that    *)
(* pass before the switch are <<0, j>>.                                    *)
(*                                                                         *)
(* One action per poll: PollWrite(outcome of the inner transport),         *)
(* PollRead(capacity, bytes the inner transport hands over), Switch.       *)
(*                                                                         *)
(* CommitOnAccept = TRUE is the design that satisfies C05: the keystream   *)
(* advances only over bytes the socket accepted.  FALSE is the structure   *)
(* of the code as found (keystream advanced over the whole buffer on every *)
(* poll, also when the socket returned Pending or accepted a prefix); TLC  *)
(* returns the counterexample under MC_CipherAsFound.cfg.                  *)
(*                                                                         *)
(* The AsyncWrite contract lets the caller do two more things, both part   *)
(* of "no matter how the socket delays individual writes":                 *)
(*  - after a Pending answer the caller may ABANDON the buffer (a dropped  *)
(*    select! branch, a timeout) and offer other bytes next time: the      *)
(*    content of the not yet reported bytes gets a new version;            *)
(*    ReuseStalled = TRUE is the wrong design that keeps the ciphertext of *)
(*    the stalled attempt (MC_CipherStalled.cfg must be rejected).         *)
(*  - the caller may offer its bytes as several slices (vectored write);   *)
(*    the stream then takes any non-empty prefix of them through the same  *)
(*    encryptor (op "wv", split point sp).                                 *)
(***************************************************************************)
EXTENDS Integers, Sequences, FiniteSets, TLC

CONSTANTS
  Writes,          \* set of sequences of write lengths, e.g. {<<3>>, <<2,2>>}
  SwitchPoints,    \* after how many completed writes encryption is switched on (0 = from the start)
  MaxPending,      \* how many Pending outcomes in one behaviour
  ReadCaps,        \* capacities of the caller's read buffer
  PreFills,        \* bytes already in the caller's buffer before a poll
  PartialAccept,   \* BOOLEAN: may the socket accept only a prefix of a write
  ArriveWhole,     \* BOOLEAN: the peer's bytes arrive in one portion per mode (read side not explored)
  CommitOnAccept,  \* BOOLEAN design switch
  MaxAbandon,      \* how many times the caller abandons a buffer after Pending
  Vectored,        \* BOOLEAN: may the caller offer two slices instead of one buffer
  ReuseStalled     \* BOOLEAN design switch (wrong: ciphertext of a stalled attempt is kept for the next poll)

VARIABLES
  ws, wi, off,     \* the writes to perform, index of the current one, bytes of it already reported written
  sw,              \* switch point chosen
  mode,            \* "plain" | "cipher"
  encPos,          \* keystream position of the encryptor
  acc,             \* what the socket has accepted: sequence of <<p, j>>
  rep,             \* plaintext bytes reported as written so far
  pend,            \* Pending outcomes used so far
  \* read side: the peer sends the same plaintext 1..Total through its own continuous stream
  avail,           \* bytes the socket has and the reader has not taken yet (count)
  taken,           \* bytes taken from the socket so far
  decPos, surf,    \* decryptor position; what has been surfaced to the caller: sequence of plaintext indices (0 = garbage)
  rmode, rsw,      \* reader mode and the byte index after which the peer switched
  sched,           \* the schedule (history) for export
  ver, want,       \* content version of the bytes not yet reported; versions of the bytes reported (one per byte)
  lastPend, stalled, abandons  \* the previous write poll was Pending; version encrypted by that attempt; abandons so far

vars == <<ws, wi, off, sw, mode, encPos, acc, rep, pend, avail, taken, decPos, surf, rmode, rsw, sched, ver, want, lastPend, stalled, abandons>>

Sum(s) == LET F[i \in 0..Len(s)] == IF i = 0 THEN 0 ELSE F[i-1] + s[i] IN F[Len(s)]
Total == Sum(ws)
PlainUpTo(n) == Sum(SubSeq(ws, 1, n))          \* bytes written before the switch

Init ==
  /\ ws \in Writes /\ sw \in SwitchPoints /\ sw <= Len(ws)
  /\ wi = 1 /\ off = 0
  /\ mode = IF sw = 0 THEN "cipher" ELSE "plain"
  /\ encPos = 0 /\ acc = <<>> /\ rep = 0 /\ pend = 0
  /\ avail = 0 /\ taken = 0 /\ decPos = 0 /\ surf = <<>>
  /\ rmode = (IF sw = 0 THEN "cipher" ELSE "plain")
  /\ rsw = PlainUpTo(sw)
  /\ sched = <<>>
  /\ ver = 0 /\ want = <<>> /\ lastPend = FALSE /\ stalled = 0 /\ abandons = 0

\* tags of plaintext bytes (from+1 .. from+n) encrypted starting at keystream position pos
\* (third component: the version of the content that was encrypted)
EncV(from, n, pos, v) == [i \in 1..n |-> IF mode = "plain" THEN <<0, from + i, v>> ELSE <<pos + i, from + i, v>>]
\* the version the stream encrypts in this poll: the caller's current bytes -- or, in the wrong design, those of the stalled attempt
UsedVer == IF ReuseStalled /\ lastPend THEN stalled ELSE ver

WritesDone == wi > Len(ws)

\* the caller (write_all) offers the rest of the current buffer; the socket answers Pending or accepts k >= 1 bytes
PollWrite ==
  /\ ~WritesDone
  /\ LET n == ws[wi] - off          \* bytes offered
         from == rep                \* plaintext index of the first offered byte - 1
     IN \E sp \in (IF Vectored /\ n >= 2 THEN 0..(n-1) ELSE {0}) :      \* 0 = one buffer; sp >= 1 = two slices, the first of sp bytes
        \/ /\ pend < MaxPending /\ pend' = pend + 1
           /\ encPos' = IF CommitOnAccept \/ mode = "plain" THEN encPos ELSE encPos + n
           /\ sched' = Append(sched, [op |-> IF sp = 0 THEN "w" ELSE "wv", n |-> n, out |-> "pending", k |-> 0, sp |-> sp])
           /\ lastPend' = TRUE /\ stalled' = (IF lastPend THEN stalled ELSE ver)
           /\ UNCHANGED <<acc, rep, off, wi, mode, want>>
        \/ \E k \in (IF PartialAccept THEN 1..n ELSE {n}) :
           /\ acc' = acc \o SubSeq(EncV(from, n, encPos, UsedVer), 1, k)
           /\ want' = want \o [i \in 1..k |-> ver]
           /\ rep' = rep + k
           /\ encPos' = IF mode = "plain" THEN encPos ELSE IF CommitOnAccept THEN encPos + k ELSE encPos + n
           /\ IF off + k = ws[wi]
              THEN /\ wi' = wi + 1 /\ off' = 0
                   \* encryption is switched on between two writes (apply_encryption between packets)
                   /\ mode' = IF wi = sw THEN "cipher" ELSE mode
              ELSE /\ wi' = wi /\ off' = off + k /\ mode' = mode
           /\ sched' = Append(sched, [op |-> IF sp = 0 THEN "w" ELSE "wv", n |-> n, out |-> "accept", k |-> k, sp |-> sp])
           /\ lastPend' = FALSE /\ stalled' = stalled
           /\ UNCHANGED pend
  /\ UNCHANGED <<ws, sw, avail, taken, decPos, surf, rmode, rsw, ver, abandons>>

\* after a Pending answer the caller gives up on the bytes it offered and will offer others (same amount) next time
Abandon ==
  /\ ~WritesDone /\ lastPend /\ abandons < MaxAbandon
  /\ ver' = ver + 1 /\ abandons' = abandons + 1
  /\ sched' = Append(sched, [op |-> "abandon", n |-> ws[wi] - off, out |-> "-", k |-> 0, sp |-> 0])
  /\ UNCHANGED <<ws, wi, off, sw, mode, encPos, acc, rep, pend, avail, taken, decPos, surf, rmode, rsw, want, lastPend, stalled>>

\* the peer's bytes arrive at the socket in arbitrary portions (never past the switch point while still in plain mode:
\* in the connection the switch happens between two packets, after the plain ones were read completely)
ArriveLimit == (IF rmode = "plain" THEN rsw ELSE Total) - taken - avail
Arrive ==
  /\ WritesDone /\ ArriveLimit > 0 /\ avail = 0      \* the next portion arrives once the reader has drained the previous one
  /\ \E n \in (IF ArriveWhole THEN {ArriveLimit} ELSE 1..ArriveLimit) :
       /\ avail' = avail + n
       /\ sched' = Append(sched, [op |-> "arrive", n |-> n, out |-> "-", k |-> 0, sp |-> 0])
  /\ UNCHANGED <<ws, wi, off, sw, mode, encPos, acc, rep, pend, taken, decPos, surf, rmode, rsw, ver, want, lastPend, stalled, abandons>>

\* peer tag of byte j of its stream
PeerTag(j) == IF j <= rsw THEN <<0, j>> ELSE <<j - rsw, j>>
\* decrypt tag t at reader position q (plain bytes pass through)
Dec(t, q, m) == IF m = "plain" THEN (IF t[1] = 0 THEN t[2] ELSE 0) ELSE (IF t[1] = q THEN t[2] ELSE 0)

\* the caller polls with a buffer of capacity cap that already holds pre bytes
PollRead ==
  /\ WritesDone /\ taken < Total
  /\ \E cap \in ReadCaps, pre \in PreFills :
       /\ pre < cap
       /\ IF avail = 0
          THEN /\ pend < MaxPending /\ pend' = pend + 1
               /\ sched' = Append(sched, [op |-> "r", n |-> cap, out |-> "pending", k |-> pre, sp |-> 0])
               /\ UNCHANGED <<avail, taken, decPos, surf, rmode>>
          ELSE LET room == cap - pre
                   m == IF avail < room THEN avail ELSE room
               IN /\ m >= 1
                  /\ surf' = surf \o [i \in 1..m |-> Dec(PeerTag(taken + i), decPos + i, rmode)]
                  /\ decPos' = IF rmode = "plain" THEN decPos ELSE decPos + m
                  /\ taken' = taken + m /\ avail' = avail - m
                  /\ rmode' = IF rmode = "plain" /\ taken + m = rsw THEN "cipher" ELSE rmode
                  /\ sched' = Append(sched, [op |-> "r", n |-> cap, out |-> "read", k |-> pre, sp |-> 0])
                  /\ UNCHANGED pend
  /\ UNCHANGED <<ws, wi, off, sw, mode, encPos, acc, rep, rsw, ver, want, lastPend, stalled, abandons>>

Next == PollWrite \/ Abandon \/ Arrive \/ PollRead
Spec == Init /\ [][Next]_vars

Done == WritesDone /\ taken = Total

---------------------------------------------------------------------------
(* C05 *)
\* what the socket accepted is exactly the one continuous stream over the plaintext reported as written
WriteStream == /\ Len(acc) = rep
               /\ \A i \in 1..Len(acc) : acc[i] = IF i <= PlainUpTo(sw) THEN <<0, i, want[i]>> ELSE <<i - PlainUpTo(sw), i, want[i]>>
\* what the reader is given is the matching decryption of what the socket produced
ReadStream == /\ Len(surf) = taken
              /\ \A i \in 1..Len(surf) : surf[i] = i
C05 == WriteStream /\ ReadStream
=============================================================================
