\* random walks for replay (simulation mode)
CONSTANTS
  Keys = {k1, k2, k3}
  D = 4
  Limit = 2
  MaxDt = 17
  WalkLen = 80
SPECIFICATION WSpec
INVARIANT Props Export
CHECK_DEADLOCK FALSE
