---------------------------- MODULE ConfigLayers ----------------------------
(***************************************************************************)
(* src/config.rs, Config::read: the layered configuration (growth of the   *)
(* specification beyond the listed properties).  A field takes the value   *)
(* of the TOPMOST layer that defines it:                                   *)
(*     environment  >  auth-secret file  >  configuration file  >  default *)
(* The auth-secret file defines exactly one field (auth_secret, the file's *)
(* content verbatim).  Environment variables are PASSAGE_<FIELD> with the  *)
(* serde alias spelling for names that contain an underscore               *)
(* (PASSAGE_AUTHSECRET, PASSAGE_RATELIMITER_LIMIT), because '_' is the     *)
(* nesting separator.  Observation recorded while building (outside the    *)
(* listed properties): max_packet_length and auth_cookie_expiry have no    *)
(* such alias, so they cannot be set from the environment at all.          *)
(***************************************************************************)
EXTENDS Integers, Sequences, FiniteSets, TLC

Fields == {"timeout", "address", "auth_secret", "limit"}
Layers == <<"env", "secretfile", "file", "default">>
Defaults == [timeout |-> "120", address |-> "0.0.0.0:25565", auth_secret |-> "<none>", limit |-> "<none>"]
\* a scenario says which layers define which fields: [env |-> subset of Fields, secretfile |-> BOOLEAN, file |-> subset of Fields]
ValueFrom(layer, f) == CASE layer = "env" -> "env:" \o f [] layer = "secretfile" -> "secretfile" [] layer = "file" -> "file:" \o f [] OTHER -> Defaults[f]
Defines(sc, layer, f) == CASE layer = "env" -> f \in sc.env
                           [] layer = "secretfile" -> sc.secretfile /\ f = "auth_secret"
                           [] layer = "file" -> f \in sc.file
                           [] OTHER -> TRUE
Resolve(sc, f) == LET i == CHOOSE i \in 1..4 : Defines(sc, Layers[i], f) /\ \A j \in 1..(i-1) : ~Defines(sc, Layers[j], f)
                  IN ValueFrom(Layers[i], f)
Scenarios == [env : SUBSET Fields, secretfile : BOOLEAN, file : SUBSET Fields]
\* The environment layer, field by field.  Every field that has an environment spelling is reachable from it, and a text-typed field takes the
\* variable's text VERBATIM -- the layer does not re-interpret text that happens to look like a number or a boolean ("007" stays "007").
EnvFields == {"timeout", "address", "auth_secret", "limit", "duration", "allow_v1", "allow_v2", "server_id"}
TextFields == {"address", "auth_secret", "server_id"}
EnvResolved(f, given) == given          \* what Config::read() must hold for field f when the environment defines it (whatever a file underneath says), as text
\* design facts
EnvWins == \A sc \in Scenarios : \A f \in sc.env : Resolve(sc, f) = "env:" \o f
SecretFileBeatsFile == \A sc \in Scenarios : (sc.secretfile /\ "auth_secret" \notin sc.env) => Resolve(sc, "auth_secret") = "secretfile"
DefaultLast == \A sc \in Scenarios : \A f \in Fields : (f \notin sc.env /\ f \notin sc.file /\ ~(sc.secretfile /\ f = "auth_secret")) => Resolve(sc, f) = Defaults[f]
=============================================================================
