------------------------------ MODULE Refresher ------------------------------
(***************************************************************************)
(* The "periodic refresh into a shared cache" component that two adapters  *)
(* share (growth of the specification beyond the listed properties):       *)
(*   passage-adapters/http/src/status_adapter.rs  HttpStatusAdapter        *)
(*   passage-adapters/dns/src/discovery_adapter.rs DnsDiscoveryAdapter     *)
(*                                                                         *)
(* A background task owns a tokio interval (first tick at once, period R,  *)
(* MissedTickBehavior::Skip).  On every tick it fetches the upstream value *)
(* (which takes time and may fail) and, ON SUCCESS ONLY, replaces the      *)
(* cache.  Readers get the cache as it is: nothing before the first        *)
(* successful fetch, afterwards the value of the latest successful fetch.  *)
(* Dropping the adapter cancels the task: no fetch starts afterwards.      *)
(*                                                                         *)
(* Time is discrete.  Upstream changes and fetch outcomes are environment  *)
(* choices.                                                                *)
(***************************************************************************)
EXTENDS Integers, Sequences, FiniteSets, TLC

CONSTANTS R,          \* refresh period (ticks)
          MaxLatency, \* a fetch takes 0..MaxLatency ticks
          Values,     \* upstream values
          MaxNow

VARIABLES now, upstream, cache, nextTick, fetching, dropped, log
vars == <<now, upstream, cache, nextTick, fetching, dropped, log>>

None == "none"
Idle == [busy |-> FALSE, until |-> 0, val |-> None, ok |-> FALSE]

Init == /\ now = 0 /\ upstream \in Values /\ cache = None /\ nextTick = 0
        /\ fetching = Idle /\ dropped = FALSE /\ log = <<>>

\* the upstream value changes at any time
Change == /\ \E v \in Values \ {upstream} : upstream' = v
          /\ UNCHANGED <<now, cache, nextTick, fetching, dropped, log>>

\* the interval fires: a fetch starts; it observes the upstream value of this moment; it will succeed or fail
StartFetch ==
  /\ ~dropped /\ ~fetching.busy /\ now >= nextTick
  /\ \E lat \in 0..MaxLatency, ok \in BOOLEAN :
       fetching' = [busy |-> TRUE, until |-> now + lat, val |-> upstream, ok |-> ok]
  /\ nextTick' = now + R - (now % R)          \* Skip: next multiple of R after now
  /\ log' = Append(log, [t |-> now, e |-> "fetch"])
  /\ UNCHANGED <<now, upstream, cache, dropped>>

\* the fetch completes: the cache is replaced on success, left alone on failure
EndFetch ==
  /\ fetching.busy /\ now >= fetching.until
  /\ cache' = IF fetching.ok /\ ~dropped THEN fetching.val ELSE cache
  /\ fetching' = Idle
  /\ log' = Append(log, [t |-> now, e |-> IF fetching.ok THEN "ok" ELSE "err"])
  /\ UNCHANGED <<now, upstream, nextTick, dropped>>

Drop == /\ ~dropped /\ dropped' = TRUE /\ UNCHANGED <<now, upstream, cache, nextTick, fetching, log>>

Tick == /\ now < MaxNow
        /\ ~(fetching.busy /\ now >= fetching.until)            \* a completed fetch is applied first
        /\ ~(~dropped /\ ~fetching.busy /\ now >= nextTick)     \* a due refresh starts first
        /\ now' = now + 1
        /\ UNCHANGED <<upstream, cache, nextTick, fetching, dropped, log>>

Next == Change \/ StartFetch \/ EndFetch \/ Drop \/ Tick
Spec == Init /\ [][Next]_vars

---------------------------------------------------------------------------
\* the cache only ever holds a value that was upstream at some fetch (never invented), or nothing
CacheIsFetched == cache = None \/ cache \in Values
\* a failed fetch never changes what readers see
FailureKeepsCache == [][(fetching.busy /\ ~fetching.ok /\ fetching' = Idle) => cache' = cache]_vars
\* no fetch starts after the adapter was dropped
NoFetchAfterDrop == [][dropped => ~(fetching' # fetching /\ fetching'.busy)]_vars
\* fetches are never more frequent than once per period, and one starts at creation
FetchTimes == {log[i].t : i \in {j \in 1..Len(log) : log[j].e = "fetch"}}
AtMostOncePerPeriod == \A a, b \in FetchTimes : a # b => (a \div R) # (b \div R) \/ a = b
FirstFetchAtOnce == (log # <<>>) => log[1] = [t |-> 0, e |-> "fetch"]
Safety == CacheIsFetched /\ AtMostOncePerPeriod /\ FirstFetchAtOnce
=============================================================================
