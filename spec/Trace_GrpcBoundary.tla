------------------------ MODULE Trace_GrpcBoundary ------------------------
(* Trace validation, code -> spec, for C19: every exchange recorded from the REAL gRPC adapters by             *)
(* harness/hx-grpc (NDJSON file named by the TRACE environment variable; one record per exchange:              *)
(* [script |-> what TLC exported, obs |-> [result, seen, panic] what the adapter returned and the mock service  *)
(* received, opaque strings already replaced by their labels]) is taken as given and the property-level        *)
(* clauses of GrpcBoundary.tla are evaluated on it.  One state per record; the failing clauses of a record are *)
(* reported on a FAIL line (C19_... clauses are verdicts, N_... clauses are model-drift notes).                *)
EXTENDS Integers, Sequences, TLC, Json, IOUtils

\* the state machine of GrpcBoundary is not run here: its constants and variables are bound to dummies
B == INSTANCE GrpcBoundary WITH DiscoverReplies <- {}, SelectCases <- {}, StatusCalls <- {}, RouterMetas <- {}, WireMetas <- {},
                                phase <- "trace", call <- <<>>, replies <- {}, reply <- <<>>, onwire <- <<>>, result <- <<>>

Recs == ndJsonDeserialize(IOEnv.TRACE)

VARIABLE n
Init == n = 0
Next == n < Len(Recs) /\ n' = n + 1
Spec == Init /\ [][Next]_n

\* script.fault = "unavailable-once": the service answered the FIRST call of the exchange with status UNAVAILABLE.  The adapter may give
\* up (an error is then what the router must get) or ask again -- then the request that was answered (the last one seen) and the result
\* are judged like any other; the precise-design notes do not apply
Faulty(r) == "fault" \in DOMAIN r.script /\ r.script.fault # "none"
Failing(r) == LET X == B!MkExchange(r.script, r.obs)
              IN {c \in B!ClauseNames \cup (IF Faulty(r) THEN {} ELSE B!NoteNames) :
                     ~(B!Clause(c, X, r.script.expect.result) \/ (Faulty(r) /\ c = "C19_ValidAccepted" /\ B!Rejected(X)))}

\* always TRUE; prints the failing clauses of record n
Judge == n >= 1 =>
           LET bad == Failing(Recs[n]) IN
           bad = {} \/ PrintT(<<"FAIL", ToJson([line |-> n, clauses |-> bad])>>)

AllConsumed == TLCGet("stats").diameter = Len(Recs) + 1 \/ PrintT(<<"NOTCONSUMED", ToJson([d |-> TLCGet("stats").diameter])>>)
=============================================================================
