--------------------------- MODULE Trace_Refresher ---------------------------
(* Observations of the real HttpStatusAdapter (periodic refresh into a shared cache, real time, period 1 s) judged against    *)
(* the design of Refresher.tla.  A record: periodMs, reqs = requests the upstream saw [t, kind = "ok:<label>" | "err", done], *)
(* seen = change points of what readers of the cache saw [t, label], dropAt, reqsAfterDrop.  Tolerances: 25 ms polling.       *)
EXTENDS Integers, Sequences, FiniteSets, Json, IOUtils, TLC

Recs == ndJsonDeserialize(IOEnv.TRACE)
VARIABLE n
Init == n = 0
Next == n < Len(Recs) /\ n' = n + 1
Spec == Init /\ [][Next]_n

IsOk(q) == q.kind # "err"
LabelOf(q) == IF q.kind = "ok:none" THEN "none" ELSE SubSeq(q.kind, 4, Len(q.kind))
\* what readers saw at time t
CurAt(r, t) == LET I == {i \in 1..Len(r.seen) : r.seen[i].t <= t} IN
               IF I = {} THEN "none" ELSE r.seen[CHOOSE i \in I : \A j \in I : j <= i].label

\* a fetch starts at creation
R_FirstFetchAtOnce(r) == Len(r.reqs) >= 1 /\ r.reqs[1].t <= 300
\* never two fetches in the same period slot (interval with MissedTickBehavior::Skip: at most one per multiple of the period)
R_AtMostOncePerPeriod(r) == \A i, j \in 1..Len(r.reqs) : i # j => (r.reqs[i].t \div r.periodMs) # (r.reqs[j].t \div r.periodMs)
\* it keeps refreshing: no slot without a fetch unless the previous fetch was still running
R_KeepsRefreshing(r) == \A i \in 1..(Len(r.reqs) - 1) :
                          r.reqs[i+1].t - r.reqs[i].t <= (IF r.reqs[i].done - r.reqs[i].t > r.periodMs THEN r.reqs[i].done - r.reqs[i].t ELSE r.periodMs) + 300
\* every change readers see is the value of a fetch that just succeeded (a failed fetch changes nothing, nothing is invented)
R_ChangesComeFromSuccess(r) == \A k \in 2..Len(r.seen) :
                                 \E i \in 1..Len(r.reqs) : IsOk(r.reqs[i]) /\ LabelOf(r.reqs[i]) = r.seen[k].label
                                                           /\ r.reqs[i].done <= r.seen[k].t + 10 /\ r.seen[k].t <= r.reqs[i].done + 120
\* a successful fetch becomes visible (unless superseded at once by a later success)
R_SuccessBecomesVisible(r) == \A i \in 1..Len(r.reqs) :
                                (IsOk(r.reqs[i]) /\ r.reqs[i].done + 150 < r.dropAt
                                   /\ ~(\E j \in 1..Len(r.reqs) : j # i /\ IsOk(r.reqs[j]) /\ r.reqs[j].done > r.reqs[i].done /\ r.reqs[j].done <= r.reqs[i].done + 150))
                                => CurAt(r, r.reqs[i].done + 150) = LabelOf(r.reqs[i])
\* nothing is fetched after the adapter was dropped
R_NoFetchAfterDrop(r) == r.reqsAfterDrop = 0

Names == {"R_FirstFetchAtOnce", "R_AtMostOncePerPeriod", "R_KeepsRefreshing", "R_ChangesComeFromSuccess", "R_SuccessBecomesVisible", "R_NoFetchAfterDrop"}
Clause(c, r) == CASE c = "R_FirstFetchAtOnce" -> R_FirstFetchAtOnce(r) [] c = "R_AtMostOncePerPeriod" -> R_AtMostOncePerPeriod(r)
                  [] c = "R_KeepsRefreshing" -> R_KeepsRefreshing(r) [] c = "R_ChangesComeFromSuccess" -> R_ChangesComeFromSuccess(r)
                  [] c = "R_SuccessBecomesVisible" -> R_SuccessBecomesVisible(r) [] c = "R_NoFetchAfterDrop" -> R_NoFetchAfterDrop(r) [] OTHER -> FALSE
Judge == n >= 1 => LET bad == {c \in Names : ~Clause(c, Recs[n])} IN bad = {} \/ PrintT(<<"FAIL", ToJson([line |-> n, clauses |-> bad])>>)
AllConsumed == TLCGet("stats").diameter = Len(Recs) + 1 \/ PrintT(<<"NOTCONSUMED", ToJson([d |-> TLCGet("stats").diameter])>>)
=============================================================================
