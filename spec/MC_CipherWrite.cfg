\* write side: every Pending / partial-accept pattern, switch at every point
CONSTANTS
  Writes <- MC_WritesW
  SwitchPoints = {0, 1, 2}
  MaxPending = 2
  ReadCaps = {8}
  PreFills = {0}
  PartialAccept = TRUE
  ArriveWhole = TRUE
  CommitOnAccept = TRUE
  MaxAbandon = 1
  Vectored = TRUE
  ReuseStalled = FALSE
SPECIFICATION Spec
INVARIANTS C05 Export
CHECK_DEADLOCK FALSE
