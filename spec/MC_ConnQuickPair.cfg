\* quick two-connection histories (C10)
CONSTANTS
  Secrets = {"none", "S"}
  Intents = {"Login", "Transfer"}
  SessClasses = {"absent", "valid"}
  CookieClasses = {"absent", "fresh"}
  EncClasses = {"honest"}
  AuthVerdicts = {"other"}
  StatusVerdicts = {"some"}
  Pings = {"p0"}
  Discoveries <- MC_DiscoveriesPair
  FilterOuts = {"id"}
  SelectOuts = {"first"}
  Locales = {"en_US"}
  MaxIgnored = 0
  Deviations = FALSE
  MaxRounds = 2
  Reconnects <- MC_ReconnectsQuick
SPECIFICATION Spec
INVARIANTS AllInvariants Export
CHECK_DEADLOCK FALSE
