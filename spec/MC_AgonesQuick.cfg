\* C20 quick: exhaustive check of the event-driven design, 2 GameServers, 3 writes, 1 drop/410 (197 k states, ~7 s)
CONSTANTS
  Names = {"a", "b"}
  Shapes <- MC_ShapesMin
  MaxWrites = 3
  MaxFaults = 1
  MaxBookmarks = 0
  MaxSteps = 5
  AppliedOnly = FALSE
SPECIFICATION Spec
INVARIANTS AllInvariants
VIEW View
CHECK_DEADLOCK FALSE
