INIT Init
NEXT Next
INVARIANT TypeOK
INVARIANT AgreesWithArithmetic
INVARIANT SignIffTopBit
INVARIANT NoLeadingZeros
INVARIANT Alphabet
INVARIANT ReadsBack
INVARIANT Bounded
INVARIANT MostNegativeEdge
INVARIANT ZeroIsZero
CHECK_DEADLOCK FALSE
