SPECIFICATION Spec
INVARIANT Judge
POSTCONDITION AllConsumed
CHECK_DEADLOCK FALSE
