\* the structure of the code as found: expected to FAIL (documents the finding; vacuity guard)
CONSTANTS
  InLens <- MC_InLens
  PrefixLen <- MC_PrefixLen
  OutLens <- MC_OutLens
  MaxCancels = 2
  CancelSafe = FALSE
SPECIFICATION Spec
INVARIANTS C08
CHECK_DEADLOCK FALSE
