-------------------------- MODULE Trace_ConfigLayers --------------------------
(* What the application's own Config::read() resolved (one child process per scenario) judged against ConfigLayers.tla. *)
EXTENDS ConfigLayers, Json, IOUtils
Recs == ndJsonDeserialize(IOEnv.TRACE)
VARIABLE n
Init == n = 0
Next == n < Len(Recs) /\ n' = n + 1
Spec == Init /\ [][Next]_n
ToSet(s) == {s[i] : i \in 1..Len(s)}
Sc(r) == [env |-> ToSet(r.sc.env), secretfile |-> r.sc.secretfile, file |-> ToSet(r.sc.file)]
Bad(r) == {f \in Fields : r.got[f] # Resolve(Sc(r), f)}
Judge == n >= 1 => (Bad(Recs[n]) = {} \/ PrintT(<<"FAIL", ToJson([line |-> n, clauses |-> {"CL_TopmostLayerWins(" \o f \o ")" : f \in Bad(Recs[n])}])>>))
AllConsumed == TLCGet("stats").diameter = Len(Recs) + 1 \/ PrintT(<<"NOTCONSUMED", ToJson([d |-> TLCGet("stats").diameter])>>)
=============================================================================
