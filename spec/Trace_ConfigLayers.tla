-------------------------- MODULE Trace_ConfigLayers --------------------------
(* What the application's own Config::read() resolved (one child process per scenario) judged against ConfigLayers.tla. *)
EXTENDS ConfigLayers, Json, IOUtils
Recs == ndJsonDeserialize(IOEnv.TRACE)
VARIABLE n
Init == n = 0
Next == n < Len(Recs) /\ n' = n + 1
Spec == Init /\ [][Next]_n
ToSet(s) == {s[i] : i \in 1..Len(s)}
Sc(r) == [env |-> ToSet(r.sc.env), secretfile |-> r.sc.secretfile, file |-> ToSet(r.sc.file)]
Bad(r) == {f \in Fields : r.got[f] # Resolve(Sc(r), f)}
\* records of kind "env": one field set from the environment only; what was resolved is compared as text
IsEnvRec(r) == "kind" \in DOMAIN r /\ r.kind = "env"
EnvBad(r) == IF r.field \in EnvFields /\ r.got = EnvResolved(r.field, r.given) THEN {}
             ELSE {IF r.field \in TextFields THEN "CL_EnvTextVerbatim(" \o r.field \o ")" ELSE "CL_EnvReaches(" \o r.field \o ")"}
Judge == n >= 1 => LET r == Recs[n]
                       bad == IF IsEnvRec(r) THEN EnvBad(r) ELSE {"CL_TopmostLayerWins(" \o f \o ")" : f \in Bad(r)} IN
                   (bad = {} \/ PrintT(<<"FAIL", ToJson([line |-> n, clauses |-> bad])>>))
AllConsumed == TLCGet("stats").diameter = Len(Recs) + 1 \/ PrintT(<<"NOTCONSUMED", ToJson([d |-> TLCGet("stats").diameter])>>)
=============================================================================
