------------------------------ MODULE Routing ------------------------------
(***************************************************************************)
(* C18  "Built-in filters and strategies never pick a disqualified target" *)
(*                                                                         *)
(* Which discovered targets a player may be sent to, and which one the     *)
(* built-in strategies may pick.  Written from the property statement and  *)
(* the documented meaning of the configuration (doc comments of the        *)
(* configuration structs, config/example.yaml, docs "Target Strategy"):    *)
(*                                                                         *)
(*  * a metadata rule speaks about ONE metadata key of a target:           *)
(*      equals v      the key is present and its value is v                *)
(*      not_equals v  NOT equals v   (so: holds when the key is missing)   *)
(*      exists        the key is present       not_exists   it is missing  *)
(*      in vs         the key is present and its value is one of vs        *)
(*      not_in vs     NOT in vs      (so: holds when the key is missing)   *)
(*    a metadata filter holds for a target iff all its rules hold;         *)
(*  * an allow list lets a player pass iff the name is listed, or the name *)
(*    pattern is found in the name, or the UUID is listed (an allow list   *)
(*    with nothing configured lets nobody pass: "blocks all if empty");    *)
(*    a block list lets a player pass iff none of the three hits           *)
(*    ("allows all if empty");  names compare exactly, UUIDs by value      *)
(*    whatever textual form the operator wrote;                            *)
(*  * every filter may carry a host-name scope, a pattern searched in the  *)
(*    host name the player connected with; a filter whose scope does not   *)
(*    apply constrains nothing; no scope = applies to every host;          *)
(*  * a target is ELIGIBLE iff every applicable filter of the chain holds; *)
(*  * default strategy ("any"): the first eligible target in discovery     *)
(*    order;  player-fill: an eligible target whose player count is below  *)
(*    max_players such that no eligible target below max_players has a     *)
(*    higher count ("the fullest server below capacity"); ties are free;   *)
(*  * no target ("none") only if no eligible target qualifies.             *)
(*                                                                         *)
(* Player count of a target whose count field is missing or is not a       *)
(* decimal natural number: the statement does not say.  The source treats  *)
(* it as 0 ("empty") while its own comment says "handle invalid metadata   *)
(* as max players" ("full").  Both readings are admitted, but ONE reading  *)
(* for all targets of a decision (CountReadings); nothing is alarmed that  *)
(* is correct under one of them.                                           *)
(*                                                                         *)
(* Layers:  Eligible / EligibleList / the clauses C18_* are the property;  *)
(* FilterOutput (filters applied one after the other) and                  *)
(* AcceptableChoices are the design; the state machine at the end lets TLC *)
(* show, for every scenario of a finite domain, that the design satisfies  *)
(* the clauses.  Trace_Routing.tla evaluates the same clauses on what the  *)
(* real adapters returned.                                                 *)
(*                                                                         *)
(* Data:  option  = sequence of length 0 (absent) or 1 (present)           *)
(*   rule     [key, op, args]          args: <<v>> | <<>> | <<v1, ..>>     *)
(*   filter   [kind : "meta"|"allow"|"block", scope : option(pattern),     *)
(*             rules : Seq(rule), names : option(Seq(name)),               *)
(*             pattern : option(pattern), ids : option(Seq(uuid text))]    *)
(*   strategy [kind : "any"|"player_fill", field, max]                     *)
(*   target   [id, address, meta]   meta: function  present keys -> text   *)
(*   player   [name, uuid]          uuid in canonical text form            *)
(* RoutingData (generated) holds the relations TLA+ cannot compute:        *)
(* pattern search, decimal parsing, UUID text forms.                       *)
(***************************************************************************)
EXTENDS Integers, Sequences, FiniteSets, TLC, RoutingData

Range(s) == {s[i] : i \in 1..Len(s)}
IsSet(opt) == Len(opt) = 1
None == "none"

(***************************************************************************)
(* Tables.  A question outside a table is an error, never FALSE.           *)
(***************************************************************************)
Matches(p, s) == IF <<p, s>> \in MatchDomain THEN <<p, s>> \in MatchPairs
                 ELSE Assert(FALSE, <<"pattern/subject outside RoutingData", p, s>>)
IsCount(v)   == \E c \in CountPairs : c[1] = v
CountOf(v)   == (CHOOSE c \in CountPairs : c[1] = v)[2]
UuidOfText(t) == IF \E u \in UuidPairs : u[1] = t THEN (CHOOSE u \in UuidPairs : u[1] = t)[2]
                 ELSE Assert(FALSE, <<"uuid text outside RoutingData", t>>)

(***************************************************************************)
(* Eligibility (property level)                                            *)
(***************************************************************************)
RuleHolds(rule, target) ==
  LET has == rule.key \in DOMAIN target.meta
      v   == target.meta[rule.key]            \* looked at only when the key is present
  IN CASE rule.op = "equals"     -> has /\ v = rule.args[1]
       [] rule.op = "not_equals" -> ~(has /\ v = rule.args[1])
       [] rule.op = "exists"     -> has
       [] rule.op = "not_exists" -> ~has
       [] rule.op = "in"         -> has /\ v \in Range(rule.args)
       [] rule.op = "not_in"     -> ~(has /\ v \in Range(rule.args))

ScopeApplies(scope, host) == ~IsSet(scope) \/ Matches(scope[1], host)

ListHits(list, player) ==
  \/ IsSet(list.names)   /\ player.name \in Range(list.names[1])
  \/ IsSet(list.pattern) /\ Matches(list.pattern[1], player.name)
  \/ IsSet(list.ids)     /\ player.uuid \in {UuidOfText(x) : x \in Range(list.ids[1])}

AllowPasses(list, player) == ListHits(list, player)
BlockPasses(list, player) == ~ListHits(list, player)

FilterHolds(f, target, player) ==
  CASE f.kind = "meta"  -> \A i \in 1..Len(f.rules) : RuleHolds(f.rules[i], target)
    [] f.kind = "allow" -> AllowPasses(f, player)
    [] f.kind = "block" -> BlockPasses(f, player)

Eligible(chain, target, player, host) ==
  \A i \in 1..Len(chain) : ScopeApplies(chain[i].scope, host) => FilterHolds(chain[i], target, player)

\* the eligible targets in discovery order, duplicates kept
EligibleList(chain, targets, player, host) == SelectSeq(targets, LAMBDA t : Eligible(chain, t, player, host))

IdsOf(list) == [i \in 1..Len(list) |-> list[i].id]

(***************************************************************************)
(* Design: the chain is applied filter by filter; the strategies.          *)
(***************************************************************************)
ApplyFilter(f, list, player, host) ==
  IF ScopeApplies(f.scope, host) THEN SelectSeq(list, LAMBDA t : FilterHolds(f, t, player)) ELSE list

RECURSIVE ApplyChain(_, _, _, _)
ApplyChain(chain, list, player, host) ==
  IF Len(chain) = 0 THEN list
  ELSE ApplyChain(Tail(chain), ApplyFilter(Head(chain), list, player, host), player, host)

FilterOutput(chain, targets, player, host) == ApplyChain(chain, targets, player, host)

CountReadings == {"empty", "full"}      \* what an unreadable player count stands for, see the header
PrimaryReading == "empty"

Players(target, strategy, r) ==
  IF strategy.field \in DOMAIN target.meta /\ IsCount(target.meta[strategy.field])
  THEN CountOf(target.meta[strategy.field])
  ELSE IF r = "empty" THEN 0 ELSE strategy.max

BelowCapacity(target, strategy, r) == Players(target, strategy, r) < strategy.max

AcceptableUnder(strategy, eligibleList, r) ==
  IF strategy.kind = "any"
  THEN IF Len(eligibleList) = 0 THEN {None} ELSE {eligibleList[1].id}
  ELSE LET cand == {i \in 1..Len(eligibleList) : BelowCapacity(eligibleList[i], strategy, r)}
           best == {i \in cand : \A j \in cand : Players(eligibleList[j], strategy, r) <= Players(eligibleList[i], strategy, r)}
       IN IF cand = {} THEN {None} ELSE {eligibleList[i].id : i \in best}

\* a SET: every tie under player-fill is acceptable; exactly one element under the default strategy
AcceptableChoices(strategy, eligibleList) == UNION {AcceptableUnder(strategy, eligibleList, r) : r \in CountReadings}
MayRefuse(strategy, eligibleList) == None \in AcceptableChoices(strategy, eligibleList)

(***************************************************************************)
(* Property clauses over one observed decision                             *)
(*   o = [chain, strategy, targets, player, host,                          *)
(*        filtered : Seq(id)   what the filter chain returned,             *)
(*        chosen   : id | "none"  what the strategy returned]              *)
(* under count reading r.  A decision is fine iff ALL clauses hold under   *)
(* ONE reading.  Each clause takes its precondition from the observation.  *)
(***************************************************************************)
Elig(o) == EligibleList(o.chain, o.targets, o.player, o.host)
Named(o) == {i \in 1..Len(o.targets) : o.targets[i].id = o.chosen}     \* discovered targets with the chosen identifier

\* exactly the eligible targets survive the chain (order is the business of C18_AnyIsFirst and of the drift note)
C18_FilterOutput(o, r) == Range(o.filtered) = Range(IdsOf(Elig(o)))
C18_ChosenIsDiscovered(o, r) == o.chosen # None => Named(o) # {}
C18_ChosenIsEligible(o, r) == o.chosen # None => \A i \in Named(o) : Eligible(o.chain, o.targets[i], o.player, o.host)
C18_PlayerFillBelowCapacity(o, r) ==
  (o.strategy.kind = "player_fill" /\ o.chosen # None) => \A i \in Named(o) : BelowCapacity(o.targets[i], o.strategy, r)
C18_PlayerFillFullest(o, r) ==
  (o.strategy.kind = "player_fill" /\ o.chosen # None) =>
     \A i \in Named(o) : \A j \in 1..Len(Elig(o)) :
        BelowCapacity(Elig(o)[j], o.strategy, r) => Players(Elig(o)[j], o.strategy, r) <= Players(o.targets[i], o.strategy, r)
C18_AnyIsFirst(o, r) ==
  (o.strategy.kind = "any" /\ o.chosen # None) => (Len(Elig(o)) > 0 /\ o.chosen = Elig(o)[1].id)
C18_RefusedOnlyIfNoneQualifies(o, r) ==
  o.chosen = None =>
     IF o.strategy.kind = "any" THEN Len(Elig(o)) = 0
     ELSE \A j \in 1..Len(Elig(o)) : ~BelowCapacity(Elig(o)[j], o.strategy, r)

ClauseNames == {"C18_FilterOutput", "C18_ChosenIsEligible", "C18_ChosenIsDiscovered", "C18_PlayerFillBelowCapacity",
                "C18_PlayerFillFullest", "C18_AnyIsFirst", "C18_RefusedOnlyIfNoneQualifies"}

Clause(n, o, r) ==
  CASE n = "C18_FilterOutput" -> C18_FilterOutput(o, r)
    [] n = "C18_ChosenIsEligible" -> C18_ChosenIsEligible(o, r)
    [] n = "C18_ChosenIsDiscovered" -> C18_ChosenIsDiscovered(o, r)
    [] n = "C18_PlayerFillBelowCapacity" -> C18_PlayerFillBelowCapacity(o, r)
    [] n = "C18_PlayerFillFullest" -> C18_PlayerFillFullest(o, r)
    [] n = "C18_AnyIsFirst" -> C18_AnyIsFirst(o, r)
    [] n = "C18_RefusedOnlyIfNoneQualifies" -> C18_RefusedOnlyIfNoneQualifies(o, r)

HoldsUnder(o, r) == \A n \in ClauseNames : Clause(n, o, r)
Holds(o) == \E r \in CountReadings : HoldsUnder(o, r)
\* the clauses to report for a decision that no reading explains: those failing under the primary reading (never empty then)
Failing(o) == IF Holds(o) THEN {} ELSE {n \in ClauseNames : ~Clause(n, o, PrimaryReading)}
\* the same for an observation that does not include the filter output (application stage: only the Transfer / Disconnect is seen)
ChoiceClauseNames == ClauseNames \ {"C18_FilterOutput"}
HoldsChoice(o) == \E r \in CountReadings : \A n \in ChoiceClauseNames : Clause(n, o, r)
FailingChoice(o) == IF HoldsChoice(o) THEN {} ELSE {n \in ChoiceClauseNames : ~Clause(n, o, PrimaryReading)}
\* difference from the precise design that no clause covers: order / multiplicity of the filter output
FilterDrift(o) == o.filtered # IdsOf(FilterOutput(o.chain, o.targets, o.player, o.host))

(***************************************************************************)
(* State machine: one routing decision per behaviour, for every scenario   *)
(* of a finite domain.   filter --DoFilter--> select --DoSelect--> done    *)
(***************************************************************************)
\* Scenarios: set of [config : [chain, strategy, spelling], targets, player, host]
\* (spelling: how the operator wrote the configuration; no meaning here)
VARIABLES config, targets, player, host, stage, filtered, result
vars == <<config, targets, player, host, stage, filtered, result>>

InitFrom(Scenarios) ==
  \E s \in Scenarios :
     /\ config = s.config /\ targets = s.targets /\ player = s.player /\ host = s.host
     /\ stage = "filter" /\ filtered = <<>> /\ result = "-"

DoFilter == /\ stage = "filter"
            /\ filtered' = FilterOutput(config.chain, targets, player, host)
            /\ stage' = "select"
            /\ UNCHANGED <<config, targets, player, host, result>>

DoSelect == /\ stage = "select"
            /\ result' \in AcceptableChoices(config.strategy, filtered)
            /\ stage' = "done"
            /\ UNCHANGED <<config, targets, player, host, filtered>>

Next == DoFilter \/ DoSelect
SpecFrom(Scenarios) == InitFrom(Scenarios) /\ [][Next]_vars

Decision == [chain |-> config.chain, strategy |-> config.strategy, targets |-> targets, player |-> player, host |-> host,
             filtered |-> IdsOf(filtered), chosen |-> result]

TypeOK == /\ stage \in {"filter", "select", "done"}
          /\ config.strategy.kind \in {"any", "player_fill"}
          /\ \A i \in 1..Len(config.chain) : config.chain[i].kind \in {"meta", "allow", "block"}
          /\ (stage = "done") = (result # "-")

\* applying the filters one after the other yields exactly the eligible targets, in order, duplicates kept
ChainIsConjunction == stage # "filter" => filtered = EligibleList(config.chain, targets, player, host)
\* a decision is always possible; refusing is possible exactly when, under some reading, no eligible target qualifies
ChoiceExists == stage = "select" =>
  /\ AcceptableChoices(config.strategy, filtered) # {}
  /\ MayRefuse(config.strategy, filtered) =
       (\E r \in CountReadings : \A j \in 1..Len(filtered) :
            config.strategy.kind = "player_fill" /\ ~BelowCapacity(filtered[j], config.strategy, r))
\* every decision of the design satisfies every clause of the property under one reading of unreadable counts
DesignSatisfiesProperty == stage = "done" => Holds(Decision) /\ ~FilterDrift(Decision)

\* the property spelled out once more, directly (the statement of C18), for the reading that justified the choice
ChosenIsQualified ==
  stage = "done" =>
    LET E == EligibleList(config.chain, targets, player, host)  st == config.strategy IN
    \E r \in CountReadings :
      IF result = None
      THEN \A j \in 1..Len(E) : st.kind = "player_fill" /\ ~BelowCapacity(E[j], st, r)
      ELSE \E i \in 1..Len(targets) :
             /\ targets[i].id = result /\ Eligible(config.chain, targets[i], player, host)
             /\ st.kind = "any" => result = E[1].id
             /\ st.kind = "player_fill" =>
                  /\ Players(targets[i], st, r) < st.max
                  /\ ~\E j \in 1..Len(E) : Players(E[j], st, r) < st.max /\ Players(E[j], st, r) > Players(targets[i], st, r)
=============================================================================
