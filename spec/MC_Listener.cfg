\* the design that satisfies C14-C17: header and admission inside the task, under the deadline
CONSTANTS
  Clients = {c1, c2, c3}
  Kinds = {"goodA", "goodB", "silent", "badhdr"}
  HeaderInTask = TRUE
  Limit = 1
  Timeout = 2
  MaxNow = 2
SPECIFICATION Spec
INVARIANTS Safety LoopNeverWaitsOnClient
PROPERTIES C16 C17 StopCancelsNothing
CONSTRAINT SortedKinds
CHECK_DEADLOCK FALSE
