---------------------------- MODULE Trace_Cipher ----------------------------
(* Trace validation for C05: one record per schedule replayed against the real CipherStream.  After *)
(* every poll the harness recorded rep (plaintext bytes reported written), acc (bytes the socket    *)
(* accepted), match (length of the longest prefix of the accepted bytes equal to the independent    *)
(* continuous AES-128-CFB8 stream / passthrough of the plaintext) and, for reads, taken / surf /    *)
(* match against the plaintext.  The clauses are Cipher.tla's invariants on those observations.     *)
EXTENDS Integers, Sequences, FiniteSets, Json, IOUtils, TLC

Recs == ndJsonDeserialize(IOEnv.TRACE)
VARIABLE n
Init == n = 0
Next == n < Len(Recs) /\ n' = n + 1
Spec == Init /\ [][Next]_n

\* what the socket accepted is exactly the continuous stream over the plaintext reported as written, after every poll
C05_WriteStream(r) == \A i \in 1..Len(r.w) : r.w[i].acc = r.w[i].rep /\ r.w[i].match = r.w[i].acc
\* every write is eventually reported completely (the schedule accepts everything in the end)
C05_WriteCompletes(r) == Len(r.w) > 0 => r.w[Len(r.w)].rep = r.total
\* what the reader is given is the matching decryption of what the socket produced, after every poll
C05_ReadStream(r) == \A i \in 1..Len(r.r) : r.r[i].surf = r.r[i].taken /\ r.r[i].match = r.r[i].surf
\* bytes already in the caller's buffer are left alone
C05_ReadBufferUntouched(r) == \A i \in 1..Len(r.r) : r.r[i].preIntact
C05_ReadCompletes(r) == Len(r.r) > 0 => r.r[Len(r.r)].taken = r.sentToReader
C05_NoPanic(r) == ~r.panic

Names == {"C05_WriteStream","C05_WriteCompletes","C05_ReadStream","C05_ReadBufferUntouched","C05_ReadCompletes","C05_NoPanic"}
Clause(c, r) == CASE c = "C05_WriteStream" -> C05_WriteStream(r) [] c = "C05_WriteCompletes" -> C05_WriteCompletes(r)
                  [] c = "C05_ReadStream" -> C05_ReadStream(r) [] c = "C05_ReadBufferUntouched" -> C05_ReadBufferUntouched(r)
                  [] c = "C05_ReadCompletes" -> C05_ReadCompletes(r) [] c = "C05_NoPanic" -> C05_NoPanic(r) [] OTHER -> FALSE

Judge == n >= 1 => LET bad == {c \in Names : ~Clause(c, Recs[n])} IN
                   bad = {} \/ PrintT(<<"FAIL", ToJson([line |-> n, clauses |-> bad])>>)
AllConsumed == TLCGet("stats").diameter = Len(Recs) + 1 \/ PrintT(<<"NOTCONSUMED", ToJson([d |-> TLCGet("stats").diameter])>>)
=============================================================================
