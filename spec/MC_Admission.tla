---------------------------- MODULE MC_Admission ----------------------------
(* Random arrival histories for the replay against the real listener (simulation mode). *)
EXTENDS Admission, Json
CONSTANTS MaxLen
VARIABLES cfg, h
Conns(proxy) == IF proxy = "off"
                THEN [peer : {"p1", "p2"}, hdr : {"none"}, src : {"ipA"}, kind : {"status", "glance"}]
                ELSE [peer : {"p1", "p2"}, hdr : {"none", "v1", "v2", "invalid", "garbage", "v1unknown", "v2local", "v2dgram"}, src : {"ipA", "ipA2", "ipB", "ip6", "ip6c", "ip4m", "ip4n"}, kind : {"status", "glance", "login"}]
Init == /\ cfg \in [proxy : {"off", "v1", "v2", "both"}, limit : {0, 1, 2}, secret : {TRUE}, timeoutMs : {2000}] /\ h = <<>>
Next == /\ Len(h) < MaxLen /\ \E c \in Conns(cfg.proxy) : h' = Append(h, c) /\ UNCHANGED cfg
Spec == Init /\ [][Next]_<<cfg, h>>
\* the design-level facts: never more than `limit` served per IP, bad headers consume nothing
LimitHolds == \A n \in 1..Len(h) : LET u == UsedAfter(cfg.proxy, cfg.limit, h, n) IN \A ip \in DOMAIN u : cfg.limit > 0 => u[ip] <= cfg.limit
Export == Len(h) = MaxLen => PrintT(<<"REPLAY", ToJson([family |-> "C15", cfg |-> cfg, conns |-> h,
                                       expect |-> [n \in 1..Len(h) |-> Decision(cfg.proxy, cfg.limit, h, n)]])>>)
=============================================================================
