\* the wrong design that keeps the ciphertext of a stalled attempt: expected to FAIL (vacuity guard for the Abandon action)
CONSTANTS
  Writes <- MC_WritesWQuick
  SwitchPoints = {0}
  MaxPending = 1
  ReadCaps = {8}
  PreFills = {0}
  PartialAccept = TRUE
  ArriveWhole = TRUE
  CommitOnAccept = TRUE
  MaxAbandon = 1
  Vectored = FALSE
  ReuseStalled = TRUE
SPECIFICATION Spec
INVARIANTS C05 Export
CHECK_DEADLOCK FALSE
