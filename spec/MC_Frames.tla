------------------------------ MODULE MC_Frames ------------------------------
EXTENDS Frames, Json
MC_InLens == <<3, 5>>
MC_PrefixLen == <<1, 2>>
MC_OutLens == <<2, 3>>
\* the situations in which a raced future was dropped, one line per distinct set reached at the end of a behaviour
AllDone == pos = InTotal /\ outq = <<>> /\ ~tickDue
Export == AllDone => PrintT(<<"REPLAY", ToJson([situations |-> situations])>>)
\* the history set does not influence behaviour: identify states that differ only in it
View == <<delivered, pos, start, committed, tickDue, served, outq, wpos, client, cancels>>
=============================================================================
