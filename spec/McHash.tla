------------------------------- MODULE McHash -------------------------------
(* C11.  Minecraft's "server hash" notation of a digest.                                                    *)
(*                                                                                                          *)
(* A digest is a non-empty sequence of bytes (integers 0..255), most significant byte first.  It is read as *)
(* a signed big-endian two's-complement number and printed in lower-case hexadecimal without leading zeros, *)
(* with a leading minus sign when negative.  `SignedHex(d)` is that text as a sequence of ASCII codes       *)
(* ("-" = 45, "0".."9" = 48..57, "a".."f" = 97..102) -- the same byte vocabulary SessionUrl.tla uses for a  *)
(* request target, so the hash can be compared with what arrives in the has-joined request.  `Str(cs)`      *)
(* renders such a sequence as a TLA+ string for diagnostics.                                                 *)
(*                                                                                                          *)
(* The definition works on bytes only (no number larger than 511 is ever formed), so it applies to 20-byte  *)
(* SHA-1 digests although TLC's integers have 32 bits.  `ArithSignedHex` is the arithmetic definition       *)
(* (value v as a signed integer; v < 0 => "-" \o Hex(-v)); MC_McHash checks that both agree on ALL 1- and   *)
(* 2-byte digests, and that SignedHex can be read back (`Unsign`) to the digest for every length.           *)
(*                                                                                                          *)
(* SHA-1 itself is not defined here: digests are supplied with the inputs (Python hashlib).                 *)
EXTENDS Integers, Sequences

Minus == 45
HexCode(v) == IF v < 10 THEN 48 + v ELSE 87 + v          \* nibble value 0..15 -> ASCII code of 0-9a-f
IsByte(b) == b \in 0..255
IsDigest(d) == Len(d) >= 1 /\ \A i \in 1..Len(d) : IsByte(d[i])

TopBit(d) == d[1] >= 128

\* two's-complement negation of a byte string: invert every byte, add one from the right
RECURSIVE NegFrom(_, _, _, _)
NegFrom(d, i, carry, acc) ==
    IF i = 0 THEN acc
    ELSE LET v == (255 - d[i]) + carry IN NegFrom(d, i - 1, v \div 256, <<v % 256>> \o acc)
Negate(d) == NegFrom(d, Len(d), 1, <<>>)

\* |value| as an unsigned big-endian byte string (0x80 00..00 negates to itself, which read unsigned is 2^(8n-1): right)
Magnitude(d) == IF TopBit(d) THEN Negate(d) ELSE d

RECURSIVE NibblesFrom(_, _, _)
NibblesFrom(m, i, acc) == IF i > Len(m) THEN acc ELSE NibblesFrom(m, i + 1, acc \o <<m[i] \div 16, m[i] % 16>>)
Nibbles(m) == NibblesFrom(m, 1, <<>>)

\* index of the first non-zero nibble, or the last index when all are zero (the value 0 prints as "0")
RECURSIVE FirstSignificant(_, _)
FirstSignificant(ns, i) == IF i >= Len(ns) \/ ns[i] # 0 THEN i ELSE FirstSignificant(ns, i + 1)

RECURSIVE HexFrom(_, _, _)
HexFrom(ns, i, acc) == IF i > Len(ns) THEN acc ELSE HexFrom(ns, i + 1, Append(acc, HexCode(ns[i])))

SignedHex(d) ==
    LET ns == Nibbles(Magnitude(d))
    IN HexFrom(ns, FirstSignificant(ns, 1), IF TopBit(d) THEN <<Minus>> ELSE <<>>)

-----------------------------------------------------------------------------
(* The arithmetic definition, for digests short enough for TLC's integers (used for 1 and 2 bytes).         *)
RECURSIVE UnsignedFrom(_, _, _)
UnsignedFrom(d, i, acc) == IF i > Len(d) THEN acc ELSE UnsignedFrom(d, i + 1, 256 * acc + d[i])
RECURSIVE Pow2(_)
Pow2(k) == IF k = 0 THEN 1 ELSE 2 * Pow2(k - 1)
SignedValue(d) == LET u == UnsignedFrom(d, 1, 0) IN IF u >= Pow2(8 * Len(d) - 1) THEN u - Pow2(8 * Len(d)) ELSE u
RECURSIVE HexNat(_)
HexNat(v) == IF v < 16 THEN <<HexCode(v)>> ELSE Append(HexNat(v \div 16), HexCode(v % 16))
ArithSignedHex(d) == LET v == SignedValue(d) IN IF v < 0 THEN <<Minus>> \o HexNat(-v) ELSE HexNat(v)

-----------------------------------------------------------------------------
(* Reading the notation back: the digest of n bytes that a text denotes (inverse of SignedHex).              *)
NibbleOf(c) == IF c >= 48 /\ c <= 57 THEN c - 48 ELSE c - 87
RECURSIVE PadNibbles(_, _)
PadNibbles(ns, k) == IF Len(ns) >= k THEN ns ELSE PadNibbles(<<0>> \o ns, k)
RECURSIVE BytesFrom(_, _, _)
BytesFrom(ns, i, acc) == IF i > Len(ns) THEN acc ELSE BytesFrom(ns, i + 2, Append(acc, 16 * ns[i] + ns[i + 1]))
RECURSIVE MapNibble(_, _, _)
MapNibble(cs, i, acc) == IF i > Len(cs) THEN acc ELSE MapNibble(cs, i + 1, Append(acc, NibbleOf(cs[i])))
Unsign(cs, n) ==
    LET neg == cs[1] = Minus
        mag == BytesFrom(PadNibbles(MapNibble(cs, IF neg THEN 2 ELSE 1, <<>>), 2 * n), 1, <<>>)
    IN IF neg THEN Negate(mag) ELSE mag

-----------------------------------------------------------------------------
(* Shape of a text (used both on SignedHex's own output and on what the code produced).                      *)
IsLowerHexCode(c) == (c >= 48 /\ c <= 57) \/ (c >= 97 /\ c <= 102)
HasSign(cs) == Len(cs) >= 1 /\ cs[1] = Minus
Digits(cs) == IF HasSign(cs) THEN SubSeq(cs, 2, Len(cs)) ELSE cs
\* only [0-9a-f] after an optional sign, at least one digit
OnlyLowerHex(cs) == LET ds == Digits(cs) IN Len(ds) >= 1 /\ \A i \in 1..Len(ds) : IsLowerHexCode(ds[i])
\* no leading zero unless the text is exactly "0"
NoLeadingZero(cs) == LET ds == Digits(cs) IN Len(ds) >= 1 /\ (ds[1] = 48 => (Len(ds) = 1 /\ ~HasSign(cs)))

\* for diagnostics: ASCII codes -> TLA+ string
Ch(c) == IF c = 45 THEN "-"
         ELSE IF c >= 48 /\ c <= 57 THEN <<"0", "1", "2", "3", "4", "5", "6", "7", "8", "9">>[c - 47]
         ELSE IF c >= 65 /\ c <= 70 THEN <<"A", "B", "C", "D", "E", "F">>[c - 64]
         ELSE IF c >= 97 /\ c <= 102 THEN <<"a", "b", "c", "d", "e", "f">>[c - 96]
         ELSE "?"
RECURSIVE StrFrom(_, _, _)
StrFrom(cs, i, acc) == IF i > Len(cs) THEN acc ELSE StrFrom(cs, i + 1, acc \o Ch(cs[i]))
Str(cs) == StrFrom(cs, 1, "")
=============================================================================
