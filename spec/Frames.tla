------------------------------- MODULE Frames -------------------------------
(***************************************************************************)
(* Byte transport of one connection under CANCELLATION (C08).              *)
(*                                                                         *)
(* passage-protocol/src/connection.rs reads a frame in several awaits      *)
(* (length VarInt byte by byte, packet id, body) and writes a frame with   *)
(* write_all; these futures are raced by `tokio::select!`                  *)
(*   - against the keep-alive tick   (receive_packet),                     *)
(*   - against each routing call     (`keep_alive()` vs discover / filter  *)
(*                                    / select),                           *)
(* and the losing future is DROPPED.  Whatever progress lives inside the   *)
(* dropped future is lost; progress that lives in the Connection survives. *)
(*                                                                         *)
(* CancelSafe = TRUE  : read progress (bytes of the current frame) and the *)
(*                      unsent rest of a clientbound frame live in the     *)
(*                      connection; a cancel loses nothing; the tick is    *)
(*                      serviced while a frame is half received.           *)
(* CancelSafe = FALSE : the structure of the code as found: progress lives *)
(*                      in the future; the tick is only polled while the   *)
(*                      length prefix is awaited.  TLC returns the         *)
(*                      counterexamples under MC_FramesAsFound.cfg.        *)
(*                                                                         *)
(* The wire is a sequence of tagged bytes <<frame, offset>>; a frame has a *)
(* length prefix of PrefixLen[f] bytes followed by id and body.            *)
(***************************************************************************)
EXTENDS Integers, Sequences, FiniteSets, TLC

CONSTANTS InLens,      \* lengths (in bytes, prefix included) of the serverbound frames the client sends, in order
          PrefixLen,   \* PrefixLen[i] = bytes of the length prefix of serverbound frame i (1 or 2)
          OutLens,     \* lengths of the clientbound frames the server will send (keep-alives, cookies, transfer)
          MaxCancels,  \* how many times a raced future is dropped in one behaviour
          CancelSafe

VARIABLES delivered,  \* serverbound bytes the transport has handed to the socket so far
          pos,        \* bytes the reader has consumed
          start,      \* where the reader believes the current frame starts
          committed,  \* frames handed to the protocol logic, as the positions they were believed to start at
          tickDue,    \* a keep-alive deadline has passed and has not been serviced
          served,     \* ticks serviced
          outq,       \* clientbound frames still to send (indices into OutLens)
          wpos,       \* bytes of the current clientbound frame the transport has accepted
          client,     \* what the client has received: sequence of <<frame, offset>>
          cancels,
          situations  \* history: the situations in which a future was dropped (exported to generate schedules)

vars == <<delivered, pos, start, committed, tickDue, served, outq, wpos, client, cancels, situations>>

Sum(s, n) == LET F[i \in 0..n] == IF i = 0 THEN 0 ELSE F[i-1] + s[i] IN F[n]
InTotal == Sum(InLens, Len(InLens))
Boundary(i) == Sum(InLens, i - 1)                       \* offset at which frame i starts
Boundaries == {Boundary(i) : i \in 1..(Len(InLens) + 1)}
FrameAt(p) == CHOOSE i \in 1..Len(InLens) : Boundary(i) <= p /\ p < Boundary(i + 1)

\* where in its frame the reader stands (relative to the TRUE frame structure)
Where == IF pos = InTotal THEN "idle"
         ELSE LET f == FrameAt(pos)  o == pos - Boundary(f) IN
              IF o = 0 /\ start = pos THEN "idle"
              ELSE IF o < PrefixLen[f] THEN "inPrefix"
              ELSE IF o = PrefixLen[f] THEN "atId" ELSE "inBody"

Init == /\ delivered = 0 /\ pos = 0 /\ start = 0 /\ committed = <<>>
        /\ tickDue = FALSE /\ served = 0
        /\ outq = <<>> /\ wpos = 0 /\ client = <<>> /\ cancels = 0 /\ situations = {}

\* the transport hands over the next n bytes (any segmentation)
Deliver == /\ delivered < InTotal
           /\ \E n \in 1..(InTotal - delivered) : delivered' = delivered + n
           /\ UNCHANGED <<pos, start, committed, tickDue, served, outq, wpos, client, cancels, situations>>

\* the reader consumes one byte; when the frame it believes to be reading is complete it is handed on
ReadStep ==
  /\ pos < delivered
  /\ pos' = pos + 1
  /\ LET f == FrameAt(start)   \* the reader parses the length prefix found at `start`
         len == IF start \in Boundaries THEN InLens[f] ELSE 1   \* a bogus prefix read mid-frame: arbitrary, model as 1
     IN IF pos + 1 - start >= len
        THEN committed' = Append(committed, start) /\ start' = pos + 1
        ELSE UNCHANGED <<committed, start>>
  /\ UNCHANGED <<delivered, tickDue, served, outq, wpos, client, cancels, situations>>

\* a keep-alive deadline passes
TickDue == /\ ~tickDue /\ served < 2 /\ tickDue' = TRUE
           /\ UNCHANGED <<delivered, pos, start, committed, served, outq, wpos, client, cancels, situations>>

\* the tick branch of the select! wins: a keep-alive frame is queued; the raced read future is dropped
\* as found: the tick is only polled while the length prefix is awaited
TickServe ==
  /\ tickDue /\ wpos = 0
  /\ CancelSafe \/ Where \in {"idle", "inPrefix"}
  /\ tickDue' = FALSE /\ served' = served + 1
  /\ outq' = Append(outq, 1 + (served % Len(OutLens)))
  /\ IF Where = "idle" THEN UNCHANGED <<start, cancels, situations>>
     ELSE /\ UNCHANGED cancels
          /\ situations' = situations \cup {[by |-> "tick", where |-> Where, prefix |-> PrefixLen[FrameAt(pos)], writing |-> FALSE]}
          /\ start' = IF CancelSafe THEN start ELSE pos     \* the bytes read so far are forgotten
  /\ UNCHANGED <<delivered, pos, committed, wpos, client>>

\* a routing call completes and wins its select!: the whole keep_alive() future (mid-read and/or mid-write) is dropped
OuterCancel ==
  /\ cancels < MaxCancels /\ (Where # "idle" \/ wpos > 0)
  /\ cancels' = cancels + 1
  /\ situations' = situations \cup {[by |-> "outer", where |-> Where,
                                      prefix |-> IF pos < InTotal THEN PrefixLen[FrameAt(pos)] ELSE 1, writing |-> wpos > 0]}
  /\ start' = IF CancelSafe \/ Where = "idle" THEN start ELSE pos
  \* a half-written clientbound frame: kept and completed first (safe) / abandoned (as found)
  /\ IF wpos > 0 /\ ~CancelSafe THEN outq' = Tail(outq) /\ wpos' = 0 ELSE UNCHANGED <<outq, wpos>>
  /\ UNCHANGED <<delivered, pos, committed, tickDue, served, client>>

\* the transport accepts k more bytes of the current clientbound frame
WriteStep ==
  /\ outq # <<>>
  /\ LET f == Head(outq) IN
     \E k \in 1..(OutLens[f] - wpos) :
        /\ client' = client \o [i \in 1..k |-> <<Len(client) + i, f, wpos + i>>]
        /\ IF wpos + k = OutLens[f] THEN outq' = Tail(outq) /\ wpos' = 0 ELSE outq' = outq /\ wpos' = wpos + k
  /\ UNCHANGED <<delivered, pos, start, committed, tickDue, served, cancels, situations>>

Next == Deliver \/ ReadStep \/ TickDue \/ TickServe \/ OuterCancel \/ WriteStep
Spec == Init /\ [][Next]_vars

---------------------------------------------------------------------------
(* C08 on the design *)
\* every frame the client sends is consumed exactly once, in order: the reader only ever starts a frame at a true boundary
ExactlyOnceInOrder == /\ start \in Boundaries
                      /\ \A i \in 1..Len(committed) : committed[i] = Boundary(i)
\* every frame sent to the client arrives complete and uninterleaved: client = whole frames, then a prefix of one
WholeFrames ==
  \A i \in 1..Len(client) :
     LET f == client[i][2]  o == client[i][3] IN
     /\ (o > 1 => i > 1 /\ client[i-1][2] = f /\ client[i-1][3] = o - 1)
     /\ (o = 1 /\ i > 1 => client[i-1][3] = OutLens[client[i-1][2]])
\* the keep-alive deadline is serviced however the client's bytes are segmented (no state in which a due tick cannot be served
\* because a frame is half received)
TickAlwaysServiceable == (tickDue /\ wpos = 0) => ENABLED TickServe

C08 == ExactlyOnceInOrder /\ WholeFrames /\ TickAlwaysServiceable
=============================================================================
