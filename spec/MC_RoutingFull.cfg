\* C18 full tier: see the header of MC_Routing.tla for the domain
CONSTANTS
  Tier = "full"
INIT MCInit
NEXT Next
INVARIANTS AllInvariants Export
CHECK_DEADLOCK FALSE
