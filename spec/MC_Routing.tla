----------------------------- MODULE MC_Routing -----------------------------
(***************************************************************************)
(* Finite domain, invariants and case export for Routing (C18).            *)
(*                                                                         *)
(* Domain (bounds of DESIGN.md section 5, C18): any subset of the targets  *)
(* t1 t2 t3 in that order (+ optionally the first one discovered a second  *)
(* time), metadata keys k1, k2 and the count                               *)
(* field "players"; k1 in {a, b, missing}, k2 in {a, missing}, count in    *)
(* CountTexts or missing; chains of up to 2 filters out of                 *)
(*   meta filters: 0..2 rules out of {k1,k2} x {equals a, not_equals a,    *)
(*                 exists, not_exists, in <<a,c>>, in <<>>, not_in <<a,c>>,*)
(*                 not_in <<>>},                                           *)
(*   allow / block lists: names (absent, [], 1, 2 names), pattern (absent  *)
(*                 or one of NamePatterns), UUIDs (absent, 1, 2, a         *)
(*                 stranger's) in several textual forms,                   *)
(* each with no scope or one of ScopePatterns; strategies any and          *)
(* player_fill with max_players in {0,1,3,5}; 3 players; 3 host names;     *)
(* canonical or alias spelling of the configuration.                       *)
(*                                                                         *)
(* The full product has about 10^14 scenarios, so TLC explores             *)
(*   StrategyFocus  every list of up to 3 counts x every strategy          *)
(*                  (exhaustive; quick: 5 count texts + missing, full: all  *)
(*                  9 count texts + missing),                              *)
(*   FilterFocus    every single filter x 3 players x 3 hosts on a fixed   *)
(*                  covering target list (full: exhaustive, quick: sample),*)
(*   Sample         a uniform random sample of the full product (quick     *)
(*                  3000, full 130000 draws; RandomSubset, reproducible    *)
(*                  through TLC's -seed).                                  *)
(***************************************************************************)
EXTENDS Routing, Json, Randomization

M == "<missing>"          \* "this metadata key is not present" in a target description (never a metadata value)

\* ---- filters --------------------------------------------------------------------------------------------
RuleKeys == {"k1", "k2"}
Rules == [key : RuleKeys, op : {"equals", "not_equals"}, args : {<<"a">>}]
         \cup [key : RuleKeys, op : {"exists", "not_exists"}, args : {<<>>}]
         \cup [key : RuleKeys, op : {"in", "not_in"}, args : {<<"a", "c">>, <<"b", "a">>, <<>>}]   \* value lists as the operator wrote them, in any order
RuleLists == {<<>>} \cup {<<r>> : r \in Rules} \cup {<<r1, r2>> : r1 \in Rules, r2 \in Rules}
Scopes == {<<>>} \cup {<<p>> : p \in ScopePatterns}

UuidList1 == <<"11111111-1111-4111-8111-111111111111">>
UuidList2 == <<"2222222222224222822222222222ABCD", "{33333333-3333-4333-8333-333333333333}">>
UuidList3 == <<"44444444-4444-4444-8444-444444444444">>
NameOpts == {<<>>, << <<>> >>, << <<"Steve">> >>, << <<"Alex", "xSteve9">> >>}
PatternOpts == {<<>>} \cup {<<p>> : p \in NamePatterns}
IdOpts == {<<>>, <<UuidList1>>, <<UuidList2>>, <<UuidList3>>}

MetaFilters == [kind : {"meta"}, scope : Scopes, rules : RuleLists, names : {<<>>}, pattern : {<<>>}, ids : {<<>>}]
ListFilters == [kind : {"allow", "block"}, scope : Scopes, rules : {<<>>}, names : NameOpts, pattern : PatternOpts, ids : IdOpts]
Filters == MetaFilters \cup ListFilters
NoFilter == [kind |-> "absent", scope |-> <<>>, rules |-> <<>>, names |-> <<>>, pattern |-> <<>>, ids |-> <<>>]

\* ---- targets, strategies, players -----------------------------------------------------------------------
TSpecs(counts) == [k1 : {"a", "b", M}, k2 : {"a", M}, players : counts \cup {M}]
QuickCounts == {"0", "1", "3", "abc", "03"}

MetaOf(ts) == LET ks == {k \in {"k1", "k2", "players"} : ts[k] # M} IN [k \in ks |-> ts[k]]
TargetOf(n, ts) == [id |-> "t" \o ToString(n), address |-> "10.0.0." \o ToString(n) \o ":25565", meta |-> MetaOf(ts)]
\* the targets whose number is in `mask`, in discovery order t1 t2 t3; dup: the first one is discovered a second time
TargetList(t1, t2, t3, mask, dup) ==
  LET all == <<TargetOf(1, t1), TargetOf(2, t2), TargetOf(3, t3)>>
      idx == SelectSeq(<<1, 2, 3>>, LAMBDA i : i \in mask)
      l == [i \in 1..Len(idx) |-> all[idx[i]]]
  IN IF dup /\ Len(l) >= 1 THEN Append(l, l[1]) ELSE l

AnyStrategy == [kind |-> "any", field |-> "", max |-> 0]
Strategies == {AnyStrategy} \cup [kind : {"player_fill"}, field : {"players"}, max : {0, 1, 3, 5}]
AllPlayers == {[name |-> p[1], uuid |-> p[2]] : p \in NameUuid}
Spellings == {"canonical", "alias"}

\* ---- scenarios ------------------------------------------------------------------------------------------
Scenario(p) ==
  [config |-> [chain |-> SelectSeq(<<p.f1, p.f2>>, LAMBDA f : f.kind # "absent"), strategy |-> p.strategy, spelling |-> p.spelling],
   targets |-> TargetList(p.t1, p.t2, p.t3, p.mask, p.dup), player |-> p.player, host |-> p.host]

\* TLCEval: enumerate the component sets once (RandomSubset indexes into them)
FilterOpts == TLCEval(Filters \cup {NoFilter})
TSpecsAll == TLCEval(TSpecs(CountTexts))
Product == [f1 : FilterOpts, f2 : FilterOpts, t1 : TSpecsAll, t2 : TSpecsAll, t3 : TSpecsAll,
            mask : (SUBSET {1, 2, 3}) \ {{}}, dup : BOOLEAN,
            strategy : TLCEval(Strategies), player : TLCEval(AllPlayers), host : Hosts, spelling : Spellings]

CountOnly(counts) == [k1 : {"a"}, k2 : {M}, players : counts \cup {M}]
StrategyFocus(counts) ==
  [f1 : {NoFilter}, f2 : {NoFilter}, t1 : CountOnly(counts), t2 : CountOnly(counts), t3 : CountOnly(counts),
   mask : {{}, {1}, {1, 2}, {1, 2, 3}}, dup : {FALSE},
   strategy : Strategies, player : {[name |-> "Steve", uuid |-> "11111111-1111-4111-8111-111111111111"]},
   host : {"mc.example.net"}, spelling : {"canonical"}]

CoverT1 == [k1 |-> "a", k2 |-> "a", players |-> "1"]
CoverT2 == [k1 |-> "b", k2 |-> M, players |-> "3"]
CoverT3 == [k1 |-> M, k2 |-> M, players |-> M]
FilterFocus ==
  [f1 : TLCEval(Filters), f2 : {NoFilter}, t1 : {CoverT1}, t2 : {CoverT2}, t3 : {CoverT3}, mask : {{1, 2, 3}}, dup : {FALSE},
   strategy : {AnyStrategy}, player : AllPlayers, host : Hosts, spelling : {"canonical"}]

\* an operator with a parameter on purpose: TLC evaluates every parameterless constant definition at start-up, in every
\* configuration and once per worker
ScenariosOf(tier) ==
  IF tier = "quick"
  THEN {Scenario(p) : p \in StrategyFocus(QuickCounts) \cup RandomSubset(1500, FilterFocus) \cup RandomSubset(3000, Product)}
  ELSE {Scenario(p) : p \in StrategyFocus(CountTexts) \cup FilterFocus \cup RandomSubset(130000, Product)}

CONSTANT Tier           \* "quick" | "full"
MCInit == InitFrom(ScenariosOf(Tier))
MCSpec == MCInit /\ [][Next]_vars

AllInvariants == TypeOK /\ ChainIsConjunction /\ ChoiceExists /\ DesignSatisfiesProperty /\ ChosenIsQualified

\* ---- the configuration as the JSON value the configuration loader accepts (serde) ---------------------------
\* JSON written from TLA+ cannot spell an empty object: the string below stands for {} (decoded by the harness).
EmptyObject == "<empty-object>"
Spell(sp, canonical, alias) == IF sp = "alias" THEN alias ELSE canonical
OpJson(sp, op) == CASE op = "not_equals" -> Spell(sp, "not_equals", "notequals")
                    [] op = "not_exists" -> Spell(sp, "not_exists", "notexists")
                    [] op = "not_in"     -> Spell(sp, "not_in", "notin")
                    [] OTHER -> op
RuleJson(sp, r) ==
  LET base == (Spell(sp, "key", "field") :> r.key) @@ ("op" :> OpJson(sp, r.op))
  IN CASE r.op \in {"equals", "not_equals"} -> base @@ ("value" :> r.args[1])
       [] r.op \in {"in", "not_in"}         -> base @@ ("value" :> r.args)
       [] OTHER -> base
ListBodyJson(f) ==
  LET present == {k \in {"names", "pattern", "ids"} : IsSet(f[k])}
      field(k) == CASE k = "names" -> "usernames" [] k = "pattern" -> "username" [] k = "ids" -> "ids"
  IN IF present = {} THEN EmptyObject
     ELSE [x \in {field(k) : k \in present} |->
             CASE x = "usernames" -> f.names[1] [] x = "username" -> f.pattern[1] [] x = "ids" -> f.ids[1]]
FilterJson(sp, f) ==
  LET body == CASE f.kind = "meta"  -> Spell(sp, "meta", "fixed") :> [rules |-> [i \in 1..Len(f.rules) |-> RuleJson(sp, f.rules[i])]]
                [] f.kind = "allow" -> Spell(sp, "player_allow", "playerallow") :> ListBodyJson(f)
                [] f.kind = "block" -> Spell(sp, "player_block", "playerblock") :> ListBodyJson(f)
  IN IF IsSet(f.scope) THEN ("hostname" :> f.scope[1]) @@ body ELSE body
StrategyJson(sp, st) ==
  IF st.kind = "any" THEN Spell(sp, "any", "fixed")
  ELSE Spell(sp, "player_fill", "playerfill") :> [field |-> st.field, max_players |-> st.max]

PairsOfMeta(m) == LET ks == SelectSeq(MetaKeyOrder, LAMBDA k : k \in DOMAIN m) IN [i \in 1..Len(ks) |-> <<ks[i], m[ks[i]]>>]
TargetJson(t) == [identifier |-> t.id, address |-> t.address, meta |-> PairsOfMeta(t.meta)]

\* one line per scenario (the initial state of its behaviour).  `abs` is the configuration in the vocabulary of Routing.tla; it
\* is handed back to TLC together with targets, player, host and the observation (Trace_Routing), which recomputes eligibility.
Export == stage = "filter" =>
  LET E == FilterOutput(config.chain, targets, player, host) IN
  PrintT(<<"REPLAY", ToJson(
     [filters  |-> [i \in 1..Len(config.chain) |-> FilterJson(config.spelling, config.chain[i])],
      strategy |-> StrategyJson(config.spelling, config.strategy),
      targets  |-> [i \in 1..Len(targets) |-> TargetJson(targets[i])],
      player   |-> player,
      host     |-> host,
      expectFilter |-> IdsOf(E),
      acceptable   |-> AcceptableChoices(config.strategy, E),
      abs |-> [chain |-> config.chain, strategy |-> config.strategy, spelling |-> config.spelling]])>>)
=============================================================================
