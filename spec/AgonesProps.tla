----------------------------- MODULE AgonesProps -----------------------------
(***************************************************************************)
(* Property-level layer of C20 "Agones discovery offers exactly the        *)
(* currently ready game servers": the vocabulary of GameServer objects,    *)
(* the API-server object map as a function of the API-level steps, the set *)
(* that has to be offered (ReadySetOf) and the property written as NAMED   *)
(* CLAUSES over an observable history.  No constants, no variables.  Used  *)
(* twice:                                                                  *)
(*  (a) Agones.tla (the design: watch protocol, watcher, handler, cache)   *)
(*      builds its API server from ApiApply and states its invariant with  *)
(*      ReadySetOf -- TLC shows the design satisfies the property;         *)
(*  (b) Trace_Agones.tla evaluates the clauses on the histories recorded   *)
(*      from the real AgonesDiscoveryAdapter by harness/hx-agones.  Only   *)
(*      (b) yields VIOLATION.                                              *)
(*                                                                         *)
(* A GameServer object is a record                                         *)
(*   [state |-> "Creating" | "Scheduled" | "Ready" | "Allocated" |         *)
(*              "Reserved" | "Shutdown" | "Unhealthy"     status.state,    *)
(*    addr  |-> "A1" | "A2" | "A6"   parseable IP addresses (A6 is IPv6),  *)
(*              "bad"                a host name (not an IP address),      *)
(*              "none"               the empty string (not yet scheduled), *)
(*    ports |-> sequence of port numbers (status.ports, in order; the      *)
(*              empty one is sent as null / missing key / [] depending on  *)
(*              the state, see the harness),                               *)
(*    meta  |-> "m1" | "m2"          version of everything else the        *)
(*                                   adapter exposes: counters, lists,     *)
(*                                   labels, annotations]                  *)
(* The harness owns the table label <-> concrete value (ABSTRACTION in     *)
(* harness/hx-agones/src/main.rs); an observed value without a label is    *)
(* recorded as "other:<value>" and therefore never equals an expectation.  *)
(*                                                                         *)
(* Modelling decisions (from /repo/passage-adapters/agones/src/lib.rs):    *)
(*  * identifier = metadata.name; address = status.address parsed as an IP *)
(*    address; port = FIRST entry of status.ports;                         *)
(*  * "cannot be converted" = address is not an IP address, or no ports;   *)
(*  * metadata = one string map: "state" -> status.state, counter name ->  *)
(*    count, list name -> values joined by ",", every label, every         *)
(*    annotation.  The routing filters (C18) address these keys, so the    *)
(*    exact map is part of the contract; "m1"/"m2" stand for two complete  *)
(*    maps with disjoint values.                                           *)
(*                                                                         *)
(* An API-level step is [k, n, o]:                                         *)
(*   k = "create" | "modify"  object n now has description o               *)
(*   k = "delete"             object n is gone (o = None)                  *)
(*   k = "list"               the pending LIST request is answered (n="-") *)
(*   k = "drop"               the watch connection dies; n = "reset" (TCP  *)
(*                            reset, the watcher backs off) | "eof" (the   *)
(*                            server ends the stream, e.g. its timeout)    *)
(*   k = "gone"               the watch is answered 410 Gone: re-list      *)
(*   k = "bookmark"           BOOKMARK event at a fresh resourceVersion    *)
(*   k = "errevent"           ERROR event with a code other than 410 behind *)
(*                            the previous event: nothing changes          *)
(*   k = "churn"              thousands of metadata-only updates of an     *)
(*                            offered object n in a row, ending in o       *)
(*   k = "listpart"           the pending LIST is answered in pages (one   *)
(*                            object per page) and only the FIRST page    *)
(*                            arrives: the next page request fails         *)
(*   k = "listfail"           the pending LIST request is answered with a  *)
(*                            server error: the client asks again later    *)
(***************************************************************************)
EXTENDS Integers, Sequences, FiniteSets

ReadyStates == {"Ready", "Allocated"}
GoodAddrs   == {"A1", "A2", "A6"}

None == [state |-> "none", addr |-> "none", ports |-> <<>>, meta |-> "none"]
Exists(o)      == o.state # "none"
Convertible(o) == o.addr \in GoodAddrs /\ Len(o.ports) >= 1
Offerable(o)   == Exists(o) /\ o.state \in ReadyStates /\ Convertible(o)

\* what discovery has to offer for object n with description o
Offer(n, o) == [id |-> n, ip |-> o.addr, port |-> o.ports[1], state |-> o.state, meta |-> o.meta]

\* THE set of the property: O is the API-server object map (name -> description | None)
ReadySetOf(O) == {Offer(n, O[n]) : n \in {m \in DOMAIN O : Offerable(O[m])}}

\* the order in which the API server lists objects (by name)
NameSeq == <<"a", "b", "c">>
FirstIn(O) == LET I == {i \in 1..Len(NameSeq) : NameSeq[i] \in DOMAIN O /\ Exists(O[NameSeq[i]])} IN
              NameSeq[CHOOSE i \in I : \A j \in I : i <= j]

IsWrite(s) == s.k \in {"create", "modify", "churn", "delete"}

\* the API-server object map after step s
ApiApply(O, s) ==
  CASE s.k \in {"create", "modify", "churn"} -> [O EXCEPT ![s.n] = s.o]
    [] s.k = "delete"               -> [O EXCEPT ![s.n] = None]
    [] OTHER                        -> O

(***************************************************************************)
(* Histories.  steps = sequence of API-level steps; the functions below    *)
(* are indexed 0..Len(steps) ("after step i").                             *)
(***************************************************************************)
NamesIn(steps) == {steps[j].n : j \in {i \in 1..Len(steps) : IsWrite(steps[i])}}

ObjsSeq(steps) ==
  LET N == NamesIn(steps)
      f[i \in 0..Len(steps)] == IF i = 0 THEN [n \in N |-> None] ELSE ApiApply(f[i-1], steps[i])
  IN f

\* A LIST is outstanding (initially, and after every 410 until it is answered): the client cannot
\* have observed the current objects, "once quiescent" is not reachable, nothing is judged.
PendingSeq(steps) ==
  LET p[i \in 0..Len(steps)] ==
        IF i = 0 THEN TRUE
        ELSE IF steps[i].k = "list" THEN FALSE
        ELSE IF steps[i].k = "gone" THEN TRUE
        ELSE p[i-1]
  IN p

Judged(steps, i)   == ~PendingSeq(steps)[i]
Expected(steps, i) == ReadySetOf(ObjsSeq(steps)[i])

(***************************************************************************)
(* Clauses.  offered[i] = what discover() returned once it had settled     *)
(* after step i: a sequence of records [id, ip, port, state, meta].        *)
(***************************************************************************)
OfferedSet(offered, i) == {offered[i][j] : j \in 1..Len(offered[i])}
Ids(S) == {e.id : e \in S}
ExpOf(steps, i, id) == CHOOSE x \in Expected(steps, i) : x.id = id
ObjOf(steps, i, id) == LET O == ObjsSeq(steps)[i] IN IF id \in DOMAIN O THEN O[id] ELSE None

\* no stale server (changed to another state, deleted, never existed), none missing, none twice
C20_OffersExactlyReady(steps, offered, i) ==
  /\ Ids(OfferedSet(offered, i)) = Ids(Expected(steps, i))
  /\ Cardinality(Ids(OfferedSet(offered, i))) = Len(offered[i])

\* every rightly offered server carries its CURRENT address and the FIRST of its current ports
C20_CurrentAddressPort(steps, offered, i) ==
  \A e \in OfferedSet(offered, i) : e.id \in Ids(Expected(steps, i)) =>
      /\ e.ip = ExpOf(steps, i, e.id).ip
      /\ e.port = ExpOf(steps, i, e.id).port

\* ... and its current state and metadata
C20_CurrentMetadata(steps, offered, i) ==
  \A e \in OfferedSet(offered, i) : e.id \in Ids(Expected(steps, i)) =>
      /\ e.state = ExpOf(steps, i, e.id).state
      /\ e.meta = ExpOf(steps, i, e.id).meta

\* an offered server exists on the API server
C20_DeletedNotOffered(steps, offered, i) ==
  \A e \in OfferedSet(offered, i) : Exists(ObjOf(steps, i, e.id))

\* an offered server that exists can be converted in its current description
C20_UnconvertibleNotOffered(steps, offered, i) ==
  \A e \in OfferedSet(offered, i) : Exists(ObjOf(steps, i, e.id)) => Convertible(ObjOf(steps, i, e.id))

\* "at all times": while a (re-)LIST is outstanding the client has observed nothing new, so what it offers is still exactly
\* what it had to offer when it last was in step with the API server: just before the 410 that made it re-list (nothing
\* before the first LIST).  held[i] = what discover() returned at a "list" step after the LIST request had arrived (so the
\* watcher had announced the re-list) and before it was answered.
LastObserved(steps, i) == LET G == {g \in 1..(i-1) : steps[g].k = "gone"}
                          IN IF G = {} THEN 0 ELSE (CHOOSE g \in G : \A h \in G : h <= g) - 1
\* ... brought up to date, object by object, by the pages of LISTs that were answered only in part since then (step "listpart":
\* the first object in listing order was observed as it was at that moment)
RECURSIVE PartsApplied(_, _, _, _)
PartsApplied(steps, from, upto, V) ==
  IF from > upto THEN V
  ELSE IF steps[from].k = "listpart"
       THEN LET O == ObjsSeq(steps)[from]  f == FirstIn(O) IN PartsApplied(steps, from + 1, upto, [V EXCEPT ![f] = O[f]])
       ELSE PartsApplied(steps, from + 1, upto, V)
\* what the client has observed by step i while a LIST is (still) outstanding
\* (i = the step in question, upto = the last step whose pages count)
ObservedWhilePending(steps, i, upto) == PartsApplied(steps, LastObserved(steps, i) + 1, upto, ObjsSeq(steps)[LastObserved(steps, i)])
C20_KeptWhileRelisting(steps, held, i) ==
  steps[i].k = "list" =>
     /\ OfferedSet(held, i) = ReadySetOf(ObservedWhilePending(steps, i, i - 1))
     /\ Cardinality(OfferedSet(held, i)) = Len(held[i])
\* a page of a LIST is applied when it arrives, not when (and if) the whole LIST is complete: right after a "listpart" step the
\* objects of the page that arrived are offered / no longer offered according to what the page showed
C20_PageAppliedOnArrival(steps, offered, i) ==
  steps[i].k = "listpart" =>
     /\ OfferedSet(offered, i) = ReadySetOf(ObservedWhilePending(steps, i, i))
     /\ Cardinality(OfferedSet(offered, i)) = Len(offered[i])

\* "for every sequence of watch events including reconnects and re-lists": the client keeps following the API server -- it asks for
\* the LIST again after a failed one (R.gaveUp: it never did within the harness's patience, at the step the record ends with)
C20_KeepsFollowing(R, i) == ~(R.gaveUp /\ i = Len(R.offered))

\* "at all times": while a server is being updated without ever ceasing to be offerable, no reader finds it missing
\* (R.flicker[i] = number of discover() calls, made from another thread during step i, that did not contain it)
\* -- judged when the server was being offered when the updates began (a client that has not yet learnt of it cannot offer it)
C20_NeverMissingWhileReady(R, i) ==
  (R.steps[i].k = "churn" /\ i > 1 /\ Judged(R.steps, i - 1) /\ R.steps[i].n \in Ids(OfferedSet(R.offered, i - 1))) => R.flicker[i] = 0

ClauseNames(p) ==
  CASE p = "C20" -> {"C20_PageAppliedOnArrival", "C20_NeverMissingWhileReady", "C20_KeepsFollowing", "C20_OffersExactlyReady", "C20_CurrentAddressPort", "C20_CurrentMetadata",
                     "C20_DeletedNotOffered", "C20_UnconvertibleNotOffered", "C20_KeptWhileRelisting"}
    [] OTHER -> {}

\* R = one recorded history [steps, offered, held, ...], i = a judged step
Clause(n, R, i) ==
  CASE n = "C20_OffersExactlyReady"      -> C20_OffersExactlyReady(R.steps, R.offered, i)
    [] n = "C20_CurrentAddressPort"      -> C20_CurrentAddressPort(R.steps, R.offered, i)
    [] n = "C20_CurrentMetadata"         -> C20_CurrentMetadata(R.steps, R.offered, i)
    [] n = "C20_DeletedNotOffered"       -> C20_DeletedNotOffered(R.steps, R.offered, i)
    [] n = "C20_UnconvertibleNotOffered" -> C20_UnconvertibleNotOffered(R.steps, R.offered, i)
    [] n = "C20_KeptWhileRelisting"      -> C20_KeptWhileRelisting(R.steps, R.held, i)
    [] n = "C20_KeepsFollowing"          -> C20_KeepsFollowing(R, i)
    [] n = "C20_NeverMissingWhileReady"  -> C20_NeverMissingWhileReady(R, i)
    [] n = "C20_PageAppliedOnArrival"    -> C20_PageAppliedOnArrival(R.steps, R.offered, i)
=============================================================================
