---------------------------- MODULE Trace_Builtins ----------------------------
(* Observations of the real FixedStatusAdapter / FixedLocalizationAdapter judged against Builtins.tla. *)
EXTENDS Builtins, Json, IOUtils
Recs == ndJsonDeserialize(IOEnv.TRACE)
VARIABLE n
Init == n = 0
Next == n < Len(Recs) /\ n' = n + 1
Spec == Init /\ [][Next]_n
TablesOf(S) == [t \in S |-> IF t[1] = "de" THEN {"k1", "k2"} ELSE {"k1"}]
ToSet(s) == {s[i] : i \in 1..Len(s)}
B_StatusProtocol(r) == LET c == r.case  a == StatusAnswer(c.configured, c.preferred, c.min, c.max, c.client) IN
                       r.got.some = a.some /\ (a.some => r.got.protocol = a.protocol)
B_LocalizedFromTable(r) == LET c == r.case  a == Localize(TablesOf(ToSet(c.tables)), c.requested, c.default, c.key) IN
                           r.got.from = a.from /\ r.got.text = a.text
Judge == n >= 1 => LET r == Recs[n]
                       ok == IF r.kind = "status" THEN B_StatusProtocol(r) ELSE B_LocalizedFromTable(r) IN
                   ok \/ PrintT(<<"FAIL", ToJson([line |-> n, clauses |-> {IF r.kind = "status" THEN "B_StatusProtocol" ELSE "B_LocalizedFromTable"}])>>)
AllConsumed == TLCGet("stats").diameter = Len(Recs) + 1 \/ PrintT(<<"NOTCONSUMED", ToJson([d |-> TLCGet("stats").diameter])>>)
=============================================================================
