---------------------------- MODULE Trace_Builtins ----------------------------
(* Observations of the real FixedStatusAdapter / FixedLocalizationAdapter judged against Builtins.tla. *)
EXTENDS Builtins, Json, IOUtils
Recs == ndJsonDeserialize(IOEnv.TRACE)
VARIABLE n
Init == n = 0
Next == n < Len(Recs) /\ n' = n + 1
Spec == Init /\ [][Next]_n
TablesOf(S) == [t \in S |-> IF t[1] = "de" THEN {"k1", "k2"} ELSE {"k1"}]
ToSet(s) == {s[i] : i \in 1..Len(s)}
B_StatusProtocol(r) == LET c == r.case  a == StatusAnswer(c.configured, c.preferred, c.min, c.max, c.client) IN
                       r.got.some = a.some /\ (a.some => r.got.protocol = a.protocol)
B_LocalizedFromTable(r) == LET c == r.case  a == Localize(TablesOf(ToSet(c.tables)), c.requested, c.default, c.key) IN
                           r.got.from = a.from /\ r.got.text = a.text
B_AuthIdentity(r) == LET c == r.case  a == AuthAnswer(c.kind, c.claimed, c.fixed) IN r.got.ok /\ r.got.who = a.who /\ r.got.props = a.props
\* got.lists: what each of the c.calls calls returned
B_DiscoveryList(r) == LET c == r.case IN Len(r.got.lists) = c.calls /\ \A k \in 1..c.calls : r.got.lists[k] = DiscoverAnswer(c.targets, k)
ClauseOf(r) == CASE r.kind = "status" -> "B_StatusProtocol" [] r.kind = "auth" -> "B_AuthIdentity" [] r.kind = "discover" -> "B_DiscoveryList" [] OTHER -> "B_LocalizedFromTable"
Judge == n >= 1 => LET r == Recs[n]
                       ok == CASE r.kind = "status" -> B_StatusProtocol(r) [] r.kind = "auth" -> B_AuthIdentity(r)
                               [] r.kind = "discover" -> B_DiscoveryList(r) [] OTHER -> B_LocalizedFromTable(r) IN
                   ok \/ PrintT(<<"FAIL", ToJson([line |-> n, clauses |-> {ClauseOf(r)}])>>)
AllConsumed == TLCGet("stats").diameter = Len(Recs) + 1 \/ PrintT(<<"NOTCONSUMED", ToJson([d |-> TLCGet("stats").diameter])>>)
=============================================================================
