\* two-connection histories (C10): honest first connection, then reconnect with what was stored
CONSTANTS
  Secrets = {"none", "S"}
  Intents = {"Login", "Transfer"}
  SessClasses = {"absent", "valid"}
  CookieClasses = {"absent", "fresh"}
  EncClasses = {"honest"}
  AuthVerdicts = {"same", "other"}
  StatusVerdicts = {"some"}
  Pings = {"p0"}
  Discoveries <- MC_DiscoveriesPair
  FilterOuts = {"id"}
  SelectOuts = {"first", "last"}
  Locales = {"en_US"}
  MaxIgnored = 0
  Deviations = FALSE
  MaxRounds = 2
  Reconnects <- MC_ReconnectsFull
SPECIFICATION Spec
INVARIANTS AllInvariants Export
CHECK_DEADLOCK FALSE
