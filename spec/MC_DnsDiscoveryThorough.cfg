CONSTANT Tier = "thorough"
SPECIFICATION Spec
INVARIANTS Facts Export
CHECK_DEADLOCK FALSE
