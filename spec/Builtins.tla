------------------------------ MODULE Builtins ------------------------------
(***************************************************************************)
(* The built-in adapters with a sequential meaning that the connection     *)
(* model treats as opaque services (growth of the specification beyond the *)
(* listed properties; C03's "configured message for the reported locale"   *)
(* and C06's "the status service's answer" rest on them):                  *)
(*                                                                         *)
(*  FixedStatus        passage-adapters/src/status/fixed.rs                *)
(*    the advertised protocol number is the client's own when it lies in   *)
(*    [min, max], the preferred one otherwise; no status configured = none *)
(*  FixedLocalization  passage-adapters/src/localization/fixed.rs          *)
(*    candidate tables in order: the reported locale, its prefixes cut at  *)
(*    each '_' from the right (region -> language), the default locale,    *)
(*    its prefixes; the FIRST table that exists is used; a key missing in  *)
(*    that table (or no table at all) yields the key itself; every         *)
(*    parameter occurrence in the template is replaced.                    *)
(*  DisabledAuthentication / FixedAuthentication                            *)
(*    passage-adapters/src/authentication/{disabled,fixed}.rs: nobody is   *)
(*    asked; "disabled" vouches for whatever the client claimed (without   *)
(*    properties), "fixed" for the configured profile whatever was claimed *)
(*  FixedDiscovery     passage-adapters/src/discovery/fixed.rs             *)
(*    every call yields the configured targets, all of them, in order      *)
(* Locales are sequences of parts (<<"de","DE">> = "de_DE").               *)
(***************************************************************************)
EXTENDS Integers, Sequences, FiniteSets, TLC

\* ---- FixedStatus ----
AdvertisedProtocol(preferred, min, max, client) == IF min <= client /\ client <= max THEN client ELSE preferred
StatusAnswer(configured, preferred, min, max, client) ==
  IF ~configured THEN [some |-> FALSE, protocol |-> 0] ELSE [some |-> TRUE, protocol |-> AdvertisedProtocol(preferred, min, max, client)]

\* ---- FixedLocalization ----
\* "ll_RR_x" -> <<"ll_RR_x", "ll_RR", "ll">>
Prefixes(loc) == [i \in 1..Len(loc) |-> SubSeq(loc, 1, Len(loc) + 1 - i)]
Candidates(requested, default) == (IF requested = <<>> THEN Prefixes(default) ELSE Prefixes(requested)) \o Prefixes(default)
\* tables: a function from locale (sequence of parts) to the set of keys it defines
ChosenTable(tables, requested, default) ==
  LET c == Candidates(requested, default)
      hits == {i \in 1..Len(c) : c[i] \in DOMAIN tables}
  IN IF hits = {} THEN <<>> ELSE c[CHOOSE i \in hits : \A j \in hits : i <= j]
\* the answer: which table's template is used, or the key itself
Localize(tables, requested, default, key) ==
  LET t == ChosenTable(tables, requested, default) IN
  IF t = <<>> \/ key \notin tables[t] THEN [from |-> <<>>, text |-> "key"] ELSE [from |-> t, text |-> "template"]

\* ---- DisabledAuthentication / FixedAuthentication ----
\* claimed, fixed: [who |-> identity label, props |-> number of profile properties]
AuthAnswer(kind, claimed, fixed) == IF kind = "disabled" THEN [who |-> claimed.who, props |-> 0] ELSE fixed

\* ---- FixedDiscovery ----
\* what the k-th call returns (k >= 1): the adapter has no state
DiscoverAnswer(targets, k) == targets

\* design facts checked by TLC over the finite domain of MC_Builtins
RegionBeforeLanguage == TRUE
=============================================================================
