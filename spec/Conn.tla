------------------------------- MODULE Conn -------------------------------
(***************************************************************************)
(* One client connection of passage (passage-protocol/src/connection.rs,   *)
(* Connection::listen), untimed part: handshake -> status | login ->       *)
(* configuration -> routing -> transfer.                                   *)
(*                                                                         *)
(* ONE ACTION PER AWAIT of listen(): each `match_packet!` (a frame is      *)
(* received and dispatched on its wire id) and each adapter call.  The     *)
(* environment (next client frame, cookie contents, adapter verdicts) is   *)
(* chosen nondeterministically inside each action; the reaction of the     *)
(* server is deterministic.  Everything observable is appended to the      *)
(* lock-step history (the `obs` of the current round in `hist`):           *)
(*    [e |-> "rx",   f |-> frame the client sends]                         *)
(*    [e |-> "call", c |-> adapter call: arguments it must receive, value  *)
(*                         it returns]                                     *)
(*    [e |-> "tx",   p |-> clientbound packet with the fields the          *)
(*                         properties talk about]                          *)
(*    [e |-> "reconnect", ...]  the client opens its next connection       *)
(* and the outcome of listen() is `c.result` / `c.why`.                    *)
(*                                                                         *)
(* A complete behaviour (c.pc = "Done") is exported by MC_Conn*.cfg and    *)
(* replayed into the real Connection by harness/hx-core (`hx conn`).       *)
(*                                                                         *)
(* Time is absent here on purpose: in this tier every adapter answers at   *)
(* once and the client answers within one virtual millisecond, so no       *)
(* keep-alive deadline is ever reached.  The timed behaviour of the        *)
(* configuration phase is ConnTimed.tla; byte-level segmentation is        *)
(* Frames.tla.                                                             *)
(*                                                                         *)
(* The model is the PROPERTY-SATISFYING design.  Known deviations of the   *)
(* code are findings, not modelling choices (DESIGN.md section 6).         *)
(***************************************************************************)
EXTENDS ConnProps, TLC

CONSTANTS
  Secrets,         \* subset of {"none","S"}: auth secret configured or not
  Intents,         \* handshake next-state values: {"Status","Login","Transfer","next0","next4"}
  SessClasses,     \* session cookie presented: {"absent","valid","badjson"}
  CookieClasses,   \* authentication cookie presented on the first connection
  EncClasses,      \* encryption response classes
  AuthVerdicts,    \* authentication service: {"same","other","err"}
  StatusVerdicts,  \* status service: {"some","null","err"}
  Pings,           \* ping payload labels
  Discoveries,     \* set of sequences of target labels, or <<"ERR">>
  FilterOuts,      \* {"id","tail","rev","none","err"}
  SelectOuts,      \* {"first","last","outside","none","err"}
  Locales,         \* locale labels the client may report
  MaxIgnored,      \* how many ignorable configuration packets before Client Information
  Deviations,      \* BOOLEAN: explore unexpected / malformed frames at every step
  MaxRounds,       \* 1: single connection; 2: reconnect with the stored cookies (C10)
  Reconnects       \* set of [ip, age, secret] records describing what changed in between

VARIABLES
  c,      \* connection-local state (record, reset on reconnect)
  hist,   \* observable history: one round record per connection (shape: see ConnProps.tla)
  cfg,    \* server configuration in force: [secret |-> "none" | "S" | "S2"]
  jar,    \* cookies the client has stored: [auth |-> record (present, who, props, secret), sess |-> "none" | "stored"]
  round   \* 1 or 2

vars == <<c, hist, cfg, jar, round>>

Rx(f)   == [e |-> "rx", f |-> f]
Tx(p)   == [e |-> "tx", p |-> p]
Call(a) == [e |-> "call", c |-> a]

(***************************************************************************)
(* Wire ids.  The same id means different packets in different phases, and *)
(* the code dispatches on the id only, so "unexpected" is decided by id.   *)
(***************************************************************************)
WireId == [ Handshake |-> 0,
            StatusRequest |-> 0, Ping |-> 1,
            LoginStart |-> 0, EncryptionResponse |-> 1, LoginPluginResponse |-> 2,
            LoginAck |-> 3, LoginCookieResponse |-> 4,
            ClientInfo |-> 0, CfgCookieResponse |-> 1, PluginMessage |-> 2, AckFinish |-> 3,
            KeepAlive |-> 4, Pong |-> 5, ResourcePackResponse |-> 6, KnownPacks |-> 7,
            UnknownId |-> 127 ]
Kinds == DOMAIN WireId
UnexpectedKinds(ids) == {k \in Kinds : WireId[k] \notin ids}

\* ids accepted at each await
AcceptedIds(pc) ==
  CASE pc \in {"Handshake","StatusRequest","LoginStart"} -> {0}
    [] pc \in {"Ping","EncResp"}                        -> {1}
    [] pc \in {"SessCookie","AuthCookie"}               -> {4}
    [] pc = "LoginAck"                                  -> {3}
    [] pc = "Config"                                    -> {0, 1, 2, 4, 6}
    [] OTHER                                            -> {}

(***************************************************************************)
(* Malformed frames (C04).  Outer classes attack the frame length prefix,  *)
(* inner classes the first variable-length field of the packet expected at *)
(* this step.  For the length-refusal classes only the offending prefix is *)
(* sent and the stream stays open.                                         *)
(***************************************************************************)
OuterMalformed == {"lenNeg","lenZero","lenTooBig","lenMaxInt","lenOverlong","truncEOF","eof"}
InnerMalformed(pc) ==
  CASE pc \in {"Handshake","LoginStart","SessCookie","AuthCookie","EncResp","Config"}
            -> {"innerNeg","innerHuge","innerBeyond","badUtf8","shortBody"}
    [] pc = "Ping" -> {"shortBody"}
    [] OTHER -> {}
Malformed(pc) == OuterMalformed \cup InnerMalformed(pc)
                 \cup (IF pc = "Config" THEN {"badOrdinal"} ELSE {})

Fresh == [ pc |-> "Handshake", intent |-> "none", sess |-> "unset",
           shouldAuth |-> TRUE,
           ident |-> "none",      \* identity in use: none | claimed | other | cookie
           props |-> "none",      \* profile properties in use: none | vouched | cookie
           vouched |-> "none",    \* ghost: identity vouched for on THIS connection (verdict or cookie)
           enc |-> FALSE, ignored |-> 0, locale |-> "unset",
           disc |-> <<>>, filt |-> <<>>, chosen |-> "none",
           result |-> "running", why |-> "" ]

NewRound(sec, rc) == [secret |-> sec, rc |-> rc, obs |-> <<>>, result |-> "running",
                      panic |-> FALSE, hang |-> FALSE, ranAfterEof |-> FALSE, maxAlloc |-> 0, maxLen |-> 10000]
Cur == hist[Len(hist)].obs
Emit(evs, res) == hist' = [hist EXCEPT ![Len(hist)].obs = @ \o evs, ![Len(hist)].result = res]

NoAuthCookie == [present |-> FALSE, who |-> "none", props |-> "none", secret |-> "none"]

Init ==
  /\ c = Fresh /\ round = 1
  /\ \E s \in Secrets : /\ cfg = [secret |-> s]
                         /\ hist = <<NewRound(s, [ip |-> "first", age |-> "first", secret |-> "first"])>>
  /\ jar = [auth |-> NoAuthCookie, sess |-> "none"]

End(res, why, evs) ==
  /\ c' = [c EXCEPT !.pc = "Done", !.result = res, !.why = why]
  /\ Emit(evs, res)
  /\ UNCHANGED <<cfg, jar, round>>

Step(newc, evs) == c' = newc /\ Emit(evs, "running") /\ UNCHANGED <<cfg, jar, round>>

\* a frame other than the expected one(s), or a malformed one: connection ends, nothing is sent
Deviate ==
  /\ Deviations
  /\ \/ \E k \in UnexpectedKinds(AcceptedIds(c.pc)) : End("Err", "UnexpectedPacketId", <<Rx([k |-> k, unexpected |-> TRUE])>>)
     \/ \E m \in Malformed(c.pc) : End("Err", "Malformed", <<Rx([k |-> "Malformed", class |-> m])>>)

RxHandshake ==
  /\ c.pc = "Handshake"
  /\ \/ \E n \in Intents \cap {"Status","Login","Transfer"} :
          Step([c EXCEPT !.intent = n, !.pc = IF n = "Status" THEN "StatusRequest" ELSE "LoginStart"],
               <<Rx([k |-> "Handshake", next |-> n])>>)
     \/ \E n \in Intents \cap {"next0","next4"} :
          End("Err", "IllegalEnumValue", <<Rx([k |-> "Handshake", next |-> n])>>)
     \/ Deviate

RxStatusRequest ==
  /\ c.pc = "StatusRequest"
  /\ \/ \E st \in StatusVerdicts :
          IF st = "err"
          THEN End("Err", "AdapterError", <<Rx([k |-> "StatusRequest"]), Call([a |-> "status", args |-> TRUE, ret |-> "err"])>>)
          ELSE Step([c EXCEPT !.pc = "Ping"],
                    <<Rx([k |-> "StatusRequest"]), Call([a |-> "status", args |-> TRUE, ret |-> st]),
                      Tx([k |-> "StatusResponse", body |-> st])>>)
     \/ Deviate

RxPing ==
  /\ c.pc = "Ping"
  /\ \/ \E pl \in Pings : End("Ok", "", <<Rx([k |-> "Ping", payload |-> pl]), Tx([k |-> "Pong", payload |-> pl])>>)
     \/ Deviate

RxLoginStart ==
  /\ c.pc = "LoginStart"
  /\ \/ Step([c EXCEPT !.ident = "claimed", !.pc = "SessCookie"],
             <<Rx([k |-> "LoginStart", who |-> "claimed"]), Tx([k |-> "CookieRequest", key |-> "session"])>>)
     \/ Deviate

EncReq(auth) == Tx([k |-> "EncryptionRequest", auth |-> auth, pub |-> "server"])

\* which session cookie values the client may present in this round
SessOffered == IF round = 1 THEN SessClasses ELSE {IF jar.sess = "stored" THEN "jar" ELSE "absent"}

RxSessCookie ==
  /\ c.pc = "SessCookie"
  /\ \/ \E s \in SessOffered \ {"badjson"} :
          LET rx == Rx([k |-> "LoginCookieResponse", which |-> "session", v |-> s]) IN
          IF c.intent = "Transfer" /\ cfg.secret # "none"
          THEN Step([c EXCEPT !.sess = s, !.pc = "AuthCookie"], <<rx, Tx([k |-> "CookieRequest", key |-> "auth"])>>)
          ELSE Step([c EXCEPT !.sess = s, !.pc = "EncResp"], <<rx, EncReq(TRUE)>>)
     \/ /\ "badjson" \in SessOffered
        /\ End("Err", "Json", <<Rx([k |-> "LoginCookieResponse", which |-> "session", v |-> "badjson"])>>)
     \/ Deviate

(***************************************************************************)
(* Authentication cookie classes (C02).  Only "fresh" and "justInside"     *)
(* (first connection, made by the harness with the configured secret, the  *)
(* client's IP and an age inside the expiry) and "jar" under an unchanged   *)
(* environment (second connection) are acceptable.  Every other class      *)
(* falls back to authentication -- including a validly tagged cookie whose *)
(* body does not parse ("nonJson","truncJson","missingField").             *)
(***************************************************************************)
CookieOffered == IF round = 1 THEN CookieClasses ELSE {IF jar.auth.present THEN "jar" ELSE "absent"}

JarOk(rc) == /\ jar.auth.present /\ rc.ip = "same" /\ rc.age = "within"
                     /\ cfg.secret = jar.auth.secret

LastReconnect == hist[Len(hist)].rc

CookieAccepted(cl) ==
  CASE cl \in {"fresh","justInside","otherPort"} -> TRUE
    [] cl = "jar" -> JarOk(LastReconnect)
    [] OTHER -> FALSE

CkIdent(cl) == IF cl = "jar" THEN jar.auth.who ELSE "cookie"
CkProps(cl) == IF cl = "jar" THEN jar.auth.props ELSE "cookie"

RxAuthCookie ==
  /\ c.pc = "AuthCookie"
  /\ \/ \E cl \in CookieOffered :
          LET acc == CookieAccepted(cl)
              rx  == Rx([k |-> "LoginCookieResponse", which |-> "auth", v |-> cl]) IN
          Step([c EXCEPT !.shouldAuth = ~acc,
                         !.ident   = IF acc THEN CkIdent(cl) ELSE @,
                         !.props   = IF acc THEN CkProps(cl) ELSE @,
                         !.vouched = IF acc THEN CkIdent(cl) ELSE @,
                         !.pc = "EncResp"],
               <<rx, EncReq(~acc)>>)
     \/ Deviate

(***************************************************************************)
(* Encryption response (C01).  Order in the code: decrypt secret, decrypt  *)
(* token, compare token, ask the authentication service (if required),     *)
(* create the cipher (fails for a secret that is not 16 bytes), send Login *)
(* Success under the new cipher.                                           *)
(***************************************************************************)
AuthCall(ret) == Call([a |-> "auth", who |-> "claimed", secretOk |-> TRUE, pubOk |-> TRUE, args |-> TRUE, ret |-> ret])

RxEncResponse ==
  /\ c.pc = "EncResp"
  /\ \/ \E cl \in EncClasses :
          LET rx == Rx([k |-> "EncryptionResponse", c |-> cl]) IN
          CASE cl = "honest" /\ c.shouldAuth ->
                 \E v \in AuthVerdicts :
                   IF v = "err" THEN End("Err", "AdapterError", <<rx, AuthCall("err")>>)
                   ELSE LET id == IF v = "same" THEN "claimed" ELSE "other" IN
                        Step([c EXCEPT !.ident = id, !.props = "vouched", !.vouched = id, !.enc = TRUE, !.pc = "LoginAck"],
                             <<rx, AuthCall(v), Tx([k |-> "LoginSuccess", who |-> id])>>)
            [] cl = "honest" /\ ~c.shouldAuth ->
                 Step([c EXCEPT !.enc = TRUE, !.pc = "LoginAck"], <<rx, Tx([k |-> "LoginSuccess", who |-> c.ident])>>)
            [] cl = "badSecretLen" /\ c.shouldAuth ->
                 \* the service is consulted before the cipher is created; whatever it says, nothing is granted
                 \E v \in AuthVerdicts :
                   End("Err", IF v = "err" THEN "AdapterError" ELSE "CryptographyFailed", <<rx, AuthCall(v)>>)
            [] cl = "badSecretLen" /\ ~c.shouldAuth -> End("Err", "CryptographyFailed", <<rx>>)
            \* a token that is not exactly the one issued on this connection: altered, from another connection, empty, or only a prefix of it
            [] cl \in {"wrongToken","staleToken","emptyToken","prefixToken"} -> End("Err", "InvalidVerifyToken", <<rx>>)
            [] OTHER -> End("Err", "CryptographyFailed", <<rx>>)   \* otherKey, garbage
     \/ Deviate

RxLoginAck ==
  /\ c.pc = "LoginAck"
  /\ \/ Step([c EXCEPT !.pc = "Config"], <<Rx([k |-> "LoginAck"])>>)
     \/ Deviate

(***************************************************************************)
(* Configuration phase: ignorable packets, then Client Information, then   *)
(* the three routing calls, then cookies and Transfer or Disconnect.       *)
(***************************************************************************)
Ignorable == {"PluginMessage","ResourcePackResponse","CfgCookieResponse","KeepAlive"}

RevSeq(s) == [i \in 1..Len(s) |-> s[Len(s) + 1 - i]]
FilterResult(fo, d) == CASE fo = "id" -> d
                         [] fo = "tail" -> IF Len(d) > 0 THEN Tail(d) ELSE d
                         [] fo = "rev" -> RevSeq(d)
                         [] OTHER -> <<>>
Pick(so, l) == CASE so = "first" /\ Len(l) > 0 -> l[1]
                 [] so = "last" /\ Len(l) > 0  -> l[Len(l)]
                 [] so = "outside"             -> "t9"     \* a target that was not among the candidates
                 [] OTHER -> "none"

RxClientInfo(l) ==
  LET rx == Rx([k |-> "ClientInfo", locale |-> l]) IN
  \E d \in Discoveries :
    IF d = <<"ERR">> THEN End("Err", "AdapterError", <<rx, Call([a |-> "discover", ret |-> <<"ERR">>])>>)
    ELSE \E fo \in FilterOuts :
      LET fout == FilterResult(fo, d)
          pre  == <<rx, Call([a |-> "discover", ret |-> d]),
                    Call([a |-> "filter", who |-> c.ident, in |-> d, args |-> TRUE, ret |-> IF fo = "err" THEN <<"ERR">> ELSE fout])>> IN
      IF fo = "err" THEN End("Err", "AdapterError", pre)
      ELSE \E so \in SelectOuts :
        LET pick == Pick(so, fout)
            pre2 == pre \o <<Call([a |-> "select", who |-> c.ident, in |-> fout, args |-> TRUE, ret |-> IF so = "err" THEN "err" ELSE pick])>>
            c2   == [c EXCEPT !.locale = l, !.disc = d, !.filt = fout, !.chosen = pick] IN
        IF so = "err" THEN End("Err", "AdapterError", pre2)
        ELSE IF pick = "none"
        THEN /\ c' = [c2 EXCEPT !.pc = "Done", !.result = "NoTargetFound", !.why = "NoTargetFound"]
             /\ Emit(pre2 \o <<Call([a |-> "localize", loc |-> l, key |-> "disconnect_no_target"]),
                              Tx([k |-> "Disconnect", msg |-> Msg("disconnect_no_target", l)])>>, "NoTargetFound")
             /\ UNCHANGED <<cfg, jar, round>>
        ELSE LET issueAuth == c.shouldAuth /\ cfg.secret # "none"
                 issueSess == c.sess = "absent"
                 authCk == [k |-> "StoreCookie", key |-> "auth", who |-> c.ident, props |-> c.props,
                            target |-> pick, addr |-> "client", tagOk |-> TRUE, timeOk |-> TRUE]
                 sessCk == [k |-> "StoreCookie", key |-> "session", host |-> "handshake", fresh |-> TRUE] IN
             /\ c' = [c2 EXCEPT !.pc = "Done", !.result = "Ok", !.why = ""]
             /\ Emit(pre2 \o (IF issueAuth THEN <<Tx(authCk)>> ELSE <<>>)
                          \o (IF issueSess THEN <<Tx(sessCk)>> ELSE <<>>)
                          \o <<Tx([k |-> "Transfer", target |-> pick])>>, "Ok")
             /\ jar' = [auth |-> IF issueAuth THEN [present |-> TRUE, who |-> c.ident, props |-> c.props, secret |-> cfg.secret] ELSE jar.auth,
                        sess |-> IF issueSess THEN "stored" ELSE jar.sess]
             /\ UNCHANGED <<cfg, round>>

RxConfig ==
  /\ c.pc = "Config"
  /\ \/ /\ c.ignored < MaxIgnored
        /\ \E g \in Ignorable : Step([c EXCEPT !.ignored = @ + 1], <<Rx([k |-> g])>>)
     \/ \E l \in Locales : RxClientInfo(l)
     \/ Deviate

(***************************************************************************)
(* Second connection (C10): the client reconnects with intent Transfer and *)
(* presents exactly what it stored.  What may have changed in between: its *)
(* IP, the age of the cookie relative to the expiry, the server's secret.  *)
(***************************************************************************)
Reconnect ==
  /\ round < MaxRounds /\ c.pc = "Done" /\ c.result = "Ok" /\ c.intent # "Status"
  /\ \E rc \in Reconnects :
       /\ rc.secret = "rotated" => cfg.secret # "none"
       /\ LET sec == CASE rc.secret = "rotated" -> "S2" [] rc.secret = "removed" -> "none" [] OTHER -> cfg.secret IN
          /\ cfg' = [secret |-> sec]
          /\ hist' = Append(hist, NewRound(sec, rc))
  /\ c' = Fresh /\ round' = round + 1 /\ UNCHANGED jar

Next == RxHandshake \/ RxStatusRequest \/ RxPing \/ RxLoginStart \/ RxSessCookie \/ RxAuthCookie
        \/ RxEncResponse \/ RxLoginAck \/ RxConfig \/ Reconnect

Spec == Init /\ [][Next]_vars

---------------------------------------------------------------------------
(* The listed properties: the predicates of ConnProps.tla on the model's own history. *)
PropsHold == AllConnProps(hist, Len(hist))

\* design-level facts the predicates rely on
TypeOK == /\ c.pc \in {"Handshake","StatusRequest","Ping","LoginStart","SessCookie","AuthCookie","EncResp","LoginAck","Config","Done"}
          /\ c.result \in {"running","Ok","NoTargetFound","Err"} /\ (c.pc = "Done" <=> c.result # "running")
          /\ hist[Len(hist)].result = c.result /\ Len(hist) = round
VouchedConsistent == c.vouched # "none" => c.ident = c.vouched
=============================================================================
