\* thorough tier of the untimed connection model: all classes
CONSTANTS
  Secrets = {"none", "S"}
  Intents = {"Status", "Login", "Transfer", "next0", "next4"}
  SessClasses = {"absent", "valid", "badjson"}
  CookieClasses = {"absent", "empty", "short", "tagOnly", "tagFlip", "bodyFlip", "otherSecret", "otherIp", "expired", "nonJson", "truncJson", "missingField", "fresh", "justInside", "otherPort"}
  EncClasses = {"honest", "wrongToken", "staleToken", "emptyToken", "prefixToken", "otherKey", "garbage", "badSecretLen"}
  AuthVerdicts = {"same", "other", "err"}
  StatusVerdicts = {"some", "null", "err"}
  Pings = {"p0", "pMax"}
  Discoveries <- MC_DiscoveriesFull
  FilterOuts = {"id", "tail", "rev", "none", "err"}
  SelectOuts = {"first", "last", "outside", "none", "err"}
  Locales = {"de_DE", "fr_CA", "xx_YY", "en_US"}
  MaxIgnored = 1
  Deviations = TRUE
  MaxRounds = 1
  Reconnects <- MC_ReconnectsNone
SPECIFICATION Spec
INVARIANTS AllInvariants Export
CHECK_DEADLOCK FALSE
