---------------------------- MODULE MC_GrpcStatus ----------------------------
EXTENDS GrpcStatus, Json
VARIABLE done
Versions == {[some |-> FALSE, name |-> "", protocol |-> 0], [some |-> TRUE, name |-> "1.21.4", protocol |-> 769], [some |-> TRUE, name |-> "", protocol |-> -1]}
PlayersS == {[some |-> FALSE, online |-> 0, max |-> 0, samples |-> <<>>], [some |-> TRUE, online |-> 3, max |-> 20, samples |-> <<>>],
             [some |-> TRUE, online |-> 0, max |-> 0, samples |-> <<[name |-> "Steve", id |-> "u-1"], [name |-> "Alex", id |-> "u-2"]>>]}
Descrs == {Absent, "object", "string", "notjson", "empty"}
Favicons == {Absent, "utf8", "notutf8"}
Secures == {Absent, "yes", "no"}
Datas == [version : Versions, players : PlayersS, descr : Descrs, favicon : Favicons, secure : Secures]
Cases == {[has |-> FALSE, d |-> NoStatus]} \cup {[has |-> TRUE, d |-> d] : d \in Datas}
Init == done = FALSE
Next == done = FALSE /\ done' = TRUE
Spec == Init /\ [][Next]_done
Facts == \A c \in Cases : NothingInvented(c.has, c.d) /\ ErrorsRelayNothing(c.has, c.d)
Export == done => \A c \in Cases : PrintT(<<"REPLAY", ToJson([kind |-> "statusdata", has |-> c.has, d |-> c.d])>>)
=============================================================================
