------------------------------ MODULE ConnTimed ------------------------------
(***************************************************************************)
(* The configuration phase of a connection WITH TIME (C07):                *)
(* passage-protocol/src/connection.rs, receive_packet(keep_alive = true),  *)
(* keep_alive(), and the three `select!`s that race routing against it.    *)
(*                                                                         *)
(* Time is discrete (seconds).  The keep-alive timer is tokio's interval   *)
(* with period P created when the connection is created, with              *)
(* MissedTickBehavior::Skip: deadlines are the multiples of P since        *)
(* creation; a deadline that passes while nobody polls the interval fires  *)
(* late, once, and the next deadline is the next multiple of P.            *)
(*                                                                         *)
(* Actions: TickFire (the interval branch of the select!), Ack (Login      *)
(* Acknowledged arrives), Info (Client Information arrives, discovery is   *)
(* called), StageDone (discovery / filter / selection returns, the next is *)
(* called or the Transfer is sent), Echo (a serverbound Keep Alive         *)
(* arrives), Advance (time passes to the next due event).                  *)
(*                                                                         *)
(* Environment: authentication latency, arrival of Login Acknowledged and  *)
(* Client Information, one latency per routing stage, and the client's     *)
(* echo policy.  Environment events are placed on ODD seconds, deadlines   *)
(* are even, so nothing coincides with a tick in this tier.                *)
(***************************************************************************)
EXTENDS Integers, Sequences, FiniteSets, TLC

CONSTANTS P,            \* keep-alive period in seconds (16)
          AuthLats,     \* latency of the authentication service (a late first tick when > P)
          AckDelays,    \* Login Acknowledged arrives this long after Login Success
          InfoDelays,   \* Client Information arrives this long after Login Acknowledged
          Lats,         \* latencies of discovery / filter / selection
          Policies      \* client echo policies

VARIABLES now, nextTick, pc, sched, stageEnd, kaOut, kaSeq, echoes, tl, result
vars == <<now, nextTick, pc, sched, stageEnd, kaOut, kaSeq, echoes, tl, result>>

Waiting == pc \in {"config", "s1", "s2", "s3"}
MinOfSet(S) == CHOOSE x \in S : \A y \in S : x <= y

\* when (relative to the Keep Alive) the client echoes, and with which id; -1 = never
EchoDelay(p) == CASE p = "prompt" -> 3 [] p = "slow" -> P - 1 [] p = "late" -> P + 1 [] p = "wrong" -> 3
                  [] p = "dup" -> 3 [] p = "unsolicited" -> 3 [] OTHER -> -1

Ev(t, k) == [t |-> t, k |-> k]

Init ==
  /\ now = 0 /\ nextTick = 0 /\ pc = "login"
  /\ \E a \in AuthLats, ad \in AckDelays, idl \in InfoDelays, l \in [1..3 -> Lats], pol \in Policies :
       sched = [auth |-> a, ackAt |-> a + ad, infoAt |-> a + ad + idl, lat |-> l, policy |-> pol]
  /\ stageEnd = -1 /\ kaOut = 0 /\ kaSeq = 0 /\ echoes = {} /\ tl = <<>> /\ result = "running"

\* is somebody polling the interval?  not while the handler awaits the authentication service
Polling == ~(pc = "login" /\ now < sched.auth)

\* Skip: the next deadline is the next multiple of P after now
NextDeadline == now + P - (now % P)

TickFire ==
  /\ pc # "done" /\ Polling /\ now >= nextTick
  /\ nextTick' = NextDeadline
  /\ IF pc = "login" THEN UNCHANGED <<pc, kaOut, kaSeq, echoes, tl, result>>
     ELSE IF kaOut # 0
          THEN /\ tl' = Append(tl, Ev(now, "Disconnect")) /\ result' = "MissedKeepAlive" /\ pc' = "done"
               /\ UNCHANGED <<kaOut, kaSeq, echoes>>
          ELSE /\ kaSeq' = kaSeq + 1 /\ kaOut' = kaSeq + 1 /\ tl' = Append(tl, Ev(now, "KeepAlive"))
               /\ echoes' = echoes \cup
                    (IF EchoDelay(sched.policy) < 0 THEN {}
                     ELSE {[at |-> now + EchoDelay(sched.policy), id |-> IF sched.policy = "wrong" THEN -1 ELSE kaSeq + 1]})
                    \cup (IF sched.policy = "dup" THEN {[at |-> now + EchoDelay(sched.policy) + 2, id |-> kaSeq + 1]} ELSE {})
                    \cup (IF sched.policy = "unsolicited" THEN {[at |-> now + 7, id |-> -2]} ELSE {})
               /\ UNCHANGED <<pc, result>>
  /\ UNCHANGED <<now, sched, stageEnd>>

Ack == /\ pc = "login" /\ now = sched.ackAt /\ pc' = "config"
       /\ UNCHANGED <<now, nextTick, sched, stageEnd, kaOut, kaSeq, echoes, tl, result>>
Info == /\ pc = "config" /\ now = sched.infoAt /\ pc' = "s1" /\ stageEnd' = now + sched.lat[1]
        /\ UNCHANGED <<now, nextTick, sched, kaOut, kaSeq, echoes, tl, result>>
StageDone ==
  /\ pc \in {"s1", "s2", "s3"} /\ now = stageEnd
  /\ IF pc = "s3" THEN /\ pc' = "done" /\ result' = "Ok" /\ tl' = Append(tl, Ev(now, "Transfer")) /\ UNCHANGED stageEnd
     ELSE /\ pc' = (IF pc = "s1" THEN "s2" ELSE "s3") /\ stageEnd' = now + sched.lat[IF pc = "s1" THEN 2 ELSE 3]
          /\ UNCHANGED <<tl, result>>
  /\ UNCHANGED <<now, nextTick, sched, kaOut, kaSeq, echoes>>
Echo == \E e \in echoes :
          /\ e.at = now /\ Waiting
          /\ echoes' = echoes \ {e} /\ kaOut' = IF kaOut = e.id THEN 0 ELSE kaOut
          /\ UNCHANGED <<now, nextTick, pc, sched, stageEnd, kaSeq, tl, result>>

Due == (IF Polling THEN {nextTick} ELSE {sched.auth})
       \cup (IF pc = "login" THEN {sched.ackAt} ELSE {}) \cup (IF pc = "config" THEN {sched.infoAt} ELSE {})
       \cup (IF pc \in {"s1", "s2", "s3"} THEN {stageEnd} ELSE {}) \cup {e.at : e \in echoes}
Urgent == \E t \in Due : t <= now /\ (t = nextTick => Polling)
Advance == /\ pc # "done" /\ ~Urgent /\ now' = MinOfSet({t \in Due : t > now})
           /\ UNCHANGED <<nextTick, pc, sched, stageEnd, kaOut, kaSeq, echoes, tl, result>>

\* zero-latency stages complete in the same instant they start
Next == TickFire \/ Ack \/ Info \/ StageDone \/ Echo \/ Advance
Spec == Init /\ [][Next]_vars

Done == pc = "done"
RoutingEnd == sched.infoAt + sched.lat[1] + sched.lat[2] + sched.lat[3]

---------------------------------------------------------------------------
(* C07 on the design *)
KaTimes == {tl[i].t : i \in {j \in 1..Len(tl) : tl[j].k = "KeepAlive"}}
LastKaOrEntry == IF KaTimes = {} \/ (CHOOSE m \in KaTimes : \A x \in KaTimes : x <= m) < sched.ackAt THEN sched.ackAt
                 ELSE CHOOSE m \in KaTimes : \A x \in KaTimes : x <= m
\* (a) while waiting, never more than P seconds without a Keep Alive
Gap == Waiting => now - LastKaOrEntry <= P
\* (b) never a second Keep Alive while one is outstanding: kaOut is set only when it was 0 (by construction) and
\*     consecutive Keep Alives are at least one echo apart
OneOutstanding == \A i, j \in 1..Len(tl) : (i < j /\ tl[i].k = "KeepAlive" /\ tl[j].k = "KeepAlive") => tl[j].t - tl[i].t >= P
\* (c) a client that echoes each one before the next is due is not dropped, and is transferred the moment routing completes
PromptSurvives == sched.policy \in {"prompt", "slow", "dup", "unsolicited"} => result # "MissedKeepAlive"
TransferOnTime == result = "Ok" => tl[Len(tl)] = Ev(RoutingEnd, "Transfer")
\* (d) an unechoed or wrongly echoed Keep Alive leads to the timeout no later than P after it, and nothing follows
TimeoutWithinP == result = "MissedKeepAlive" =>
                    /\ tl[Len(tl)].k = "Disconnect" /\ Len(tl) >= 2 /\ tl[Len(tl) - 1].k = "KeepAlive"
                    /\ tl[Len(tl)].t - tl[Len(tl) - 1].t <= P
SilentDropped == (Done /\ sched.policy \in {"never", "wrong", "late"} /\ RoutingEnd > sched.ackAt + 2 * P) => result = "MissedKeepAlive"
C07 == Gap /\ OneOutstanding /\ PromptSurvives /\ TransferOnTime /\ TimeoutWithinP /\ SilentDropped
=============================================================================
