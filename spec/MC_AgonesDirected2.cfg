\* C20 history export, EXHAUSTIVE: two GameServers that are offerable or not, every history of six API-level steps with up to two faults
\* (paged LISTs of which only the first page arrives need two objects)
CONSTANTS
  Names = {"a", "b"}
  Shapes <- MC_ShapesPair
  MaxWrites = 3
  MaxFaults = 2
  MaxBookmarks = 0
  MaxSteps = 6
  AppliedOnly = FALSE
SPECIFICATION Spec
INVARIANTS AllInvariants Export
CONSTRAINT ExportConstraint
CHECK_DEADLOCK FALSE
