--------------------------- MODULE Trace_Listener ---------------------------
(* Trace validation for the listener-level properties (C14 C15 C16 C17): records written by harness/hx-core `listener` *)
(* and harness/hx-app `serve` (real listener, real TCP, real time) judged against Admission.tla / Listener.tla.      *)
EXTENDS Admission, Json, IOUtils

Recs == ndJsonDeserialize(IOEnv.TRACE)
Prop == IOEnv.PROP
VARIABLE n
Init == n = 0
Next == n < Len(Recs) /\ n' = n + 1
Spec == Init /\ [][Next]_n

Slack == 700        \* ms; real time, the failure modes are unbounded waits or whole-timeout differences

(* ---- C15: admission on the effective address, before any protocol work ---- *)
\* rd: the reading of address-less headers (Admission.tla); a history is fine if ONE reading explains all of it
D(r, i, rd) == DecisionR(r.cfg.proxy, r.cfg.limit, r.conns, i, rd)
Eff(r, i, rd) == EffLabelR(r.cfg.proxy, r.conns[i], rd)
C15R_ServedIffAdmitted(r, rd) == \A i \in 1..Len(r.conns) : (r.conns[i].outcome = "served") <=> (D(r, i, rd) = "serve")
C15R_RefusedGetsNothing(r, rd) == \A i \in 1..Len(r.conns) : D(r, i, rd) # "serve" => (r.conns[i].bytes = 0 /\ r.conns[i].outcome = "closed")
C15R_NoBackendForUnserved(r, rd) == \A i \in 1..Len(r.conns) : D(r, i, rd) # "serve" => r.conns[i].adapterCalls = 0
C15R_BackendSeesEffective(r, rd) == \A i \in 1..Len(r.conns) : r.conns[i].adapterCalls > 0 => r.conns[i].adapterAddr = Eff(r, i, rd)
C15R_CookieBoundToEffective(r, rd) == \A i \in 1..Len(r.conns) : r.conns[i].cookieAddr # "none" => r.conns[i].cookieAddr = Eff(r, i, rd)
C15R_LoginGetsCookie(r, rd) == \A i \in 1..Len(r.conns) : (r.conns[i].kind = "login" /\ D(r, i, rd) = "serve" /\ r.cfg.secret) => r.conns[i].cookieAddr # "none"
C15All(r, rd) == /\ C15R_ServedIffAdmitted(r, rd) /\ C15R_RefusedGetsNothing(r, rd) /\ C15R_NoBackendForUnserved(r, rd)
                 /\ C15R_BackendSeesEffective(r, rd) /\ C15R_CookieBoundToEffective(r, rd) /\ C15R_LoginGetsCookie(r, rd)
\* a clause is reported as failing only if NO reading explains the whole history; then under the reading the code follows
OkSomeReading(r) == \E rd \in Readings : C15All(r, rd)
C15_ServedIffAdmitted(r) == OkSomeReading(r) \/ C15R_ServedIffAdmitted(r, "peer")
C15_RefusedGetsNothing(r) == OkSomeReading(r) \/ C15R_RefusedGetsNothing(r, "peer")
C15_NoBackendForUnserved(r) == OkSomeReading(r) \/ C15R_NoBackendForUnserved(r, "peer")
C15_BackendSeesEffective(r) == OkSomeReading(r) \/ C15R_BackendSeesEffective(r, "peer")
C15_CookieBoundToEffective(r) == \E rd \in Readings : C15R_CookieBoundToEffective(r, rd)
C15_LoginGetsCookie(r) == \E rd \in Readings : C15R_LoginGetsCookie(r, rd)

\* application level: the configured PROXY versions and the limiter as wired by passage::start. `expect` is computed here:
\* a header of a disabled version is closed unserved and consumes no budget; enabled versions are served up to `limit` per source IP
AppHeaderOk(r, c) == (c.hdr = "v1" /\ r.allowV1) \/ (c.hdr = "v2" /\ r.allowV2)
AppAdmittedBefore(r, i) == Cardinality({j \in 1..(i-1) : AppHeaderOk(r, r.results[j]) /\ r.results[j].src = r.results[i].src /\ r.results[j].outcome = "served"})
C15_ApplicationWiring(r) ==
  \A i \in 1..Len(r.results) :
     LET c == r.results[i] IN
     IF AppHeaderOk(r, c) /\ AppAdmittedBefore(r, i) < r.limit THEN c.outcome = "served" ELSE (c.outcome = "closed" /\ c.bytes = 0)

\* n connections from one address decided at the same moment: exactly `limit` of them are served, the others get nothing
C15_ConcurrentAdmissions(r) == /\ r.served = (IF r.n < r.cfg.limit THEN r.n ELSE r.cfg.limit)
                               /\ \A i \in 1..Len(r.results) : r.results[i].outcome # "served" => (r.results[i].outcome = "closed" /\ r.results[i].bytes = 0)

(* ---- C16: one stalled or hostile client never delays another ---- *)
C16_GoodServedPromptly(r) == r.goodOutcome = "served" /\ r.goodLatencyMs <= 2000
\* ... and neither is a client that arrives after a quiet period in which the server gave up on the stalled ones
C16_GoodServedAfterQuiet(r) == r.quietOutcome = "served" /\ r.quietLatencyMs <= 2000

(* ---- C17: shutdown drains in-flight connections and serves no new ones ---- *)
C17_StopsDespiteHostile(r) == r.returnedAfterStop /\ r.returnMs <= r.cfg.timeoutMs + Slack
C17_ReturnsAfterAllFinished(r) == r.returnedMs >= 0 /\ \A i \in 1..Len(r.inflight) : r.inflight[i].closed /\ r.inflight[i].endMs <= r.returnedMs + 150
C17_WithinTimeout(r) == r.returnedMs >= 0 /\ r.returnedMs <= r.timeoutMs + Slack
C17_InFlightCompletes(r) == \A i \in 1..Len(r.inflight) : r.inflight[i].cooperating => r.inflight[i].end = "transfer"
C17_LateNotServed(r) == \A i \in 1..Len(r.late) : r.late[i].bytes = 0 /\ r.late[i].outcome # "served"
\* it does not return early either: not before the last in-flight connection finished (minus scheduling noise)
C17_NotBeforeInFlight(r) == \A i \in 1..Len(r.inflight) : r.returnedMs + 150 >= r.inflight[i].endMs

\* application level (passage::start interrupted by the operator): the in-flight exchange completes, start() returns only afterwards,
\* a connection arriving after the interrupt gets nothing
C17_ApplicationDrains(r) == r.gotStatus /\ r.pong /\ ~r.returnedBeforeInFlightDone /\ r.returned /\ r.lateBytes = 0 /\ r.lateOutcome # "served"

(* ---- C13 at application level: the window and the limit the operator configured (seconds, connections) govern ---- *)
\* sound for every limiter that satisfies C13: the first `limit` connections of a fresh address are admitted; never more than 2*limit within
\* one configured duration; after more than two idle durations the address is admitted again
AppServedWithin(r, i, ms) == Cardinality({j \in 1..(i-1) : r.results[j].outcome = "served" /\ r.results[i].atMs - r.results[j].atMs < ms})
C13_AppFirstAdmitted(r) == \A i \in 1..Len(r.results) : i <= r.limit => r.results[i].outcome = "served"
C13_AppTwoLimit(r) == \A i \in 1..Len(r.results) : r.results[i].outcome = "served" => AppServedWithin(r, i, r.durationS * 1000 - 150) < 2 * r.limit
C13_AppIdleReadmit(r) == \A i \in 2..Len(r.results) : (r.results[i].atMs - r.results[i-1].atMs > 2 * r.durationS * 1000 + 300) => r.results[i].outcome = "served"

(* ---- C14: operator-configured limits and the deadline ---- *)
C14_MaxLength(r) == (r.outcome = "served") <=> (r.sentLen <= r.maxLen)
\* the age that counts is the age when the cookie is PRESENTED (a client may idle inside the connection before it answers the request)
C14_CookieAcceptance(r) == LET age == r.age + r.stallS IN
                           r.encReqAuth = ~(age + 2 <= r.expiry /\ r.secretMatches /\ r.ipMatches) \/ (age > r.expiry - 2 /\ age < r.expiry + 2)
\* closed at the deadline, and for good: not merely half-closed with the handler still reading what the client sends
C14_Deadline(r) == r.closed /\ r.closedAfterMs <= r.timeoutMs + 1000 /\ r.closedForGood
\* a frame whose length prefix never ends within five bytes is refused at once, not buffered until the deadline
C14_OverlongRefused(r) == r.behaviour \in {"overlong-prefix", "negative-prefix"} => (r.closed /\ r.closedAfterMs <= 1500)

\* the same observation under the cookie properties: the address a cookie records (C10) and is bound to (C02: "same IP") is the
\* client's effective address -- behind a balancer the PROXY-announced source, never the balancer's
C10_RecordsEffectiveAddress(r) == C15_CookieBoundToEffective(r) /\ C15_LoginGetsCookie(r)
C02_BoundToEffectiveAddress(r) == C15_CookieBoundToEffective(r)

\* C02: "not older than the configured expiry" is judged when the cookie is PRESENTED, not when the connection began
C02_ExpiryJudgedAtPresentation(r) == C14_CookieAcceptance(r)
\* C06: a client that stops at any point of the script gets nothing more until the server closes the connection at its deadline
\* (no packet of another phase, no farewell): lateBytes = bytes received after the replies to what the client did send had arrived
C06_SilentUntilDeadlineClose(r) == r.closed /\ r.lateBytes = 0
\* C08: how the client's bytes are cut into segments does not matter, the PROXY header included: header and first frames in one
\* segment, the header in two pieces, or everything separately -- a well-formed client is served in all cases
C08_HeaderSegmentationIrrelevant(r) == \A i \in 1..Len(r.results) : r.results[i].outcome = "served"

Names(fam) == CASE fam = "C15" /\ Prop = "C04" -> {}      \* C04 only looks at the final record: did a connection task panic?
                [] fam = "panicked" -> {"L_NoPanicInConnectionTasks"}   \* the record exists only if at least one did
                [] fam = "C15" /\ Prop = "C10" -> {"C10_RecordsEffectiveAddress"} [] fam = "C15" /\ Prop = "C02" -> {"C02_BoundToEffectiveAddress"}
                [] fam = "C15" -> {"C15_ServedIffAdmitted", "C15_RefusedGetsNothing", "C15_NoBackendForUnserved", "C15_BackendSeesEffective", "C15_CookieBoundToEffective", "C15_LoginGetsCookie"}
                [] fam = "C16" -> IF Prop = "C17" THEN {"C17_StopsDespiteHostile"} ELSE {"C16_GoodServedPromptly", "C16_GoodServedAfterQuiet"}
                [] fam = "C17" -> {"C17_ReturnsAfterAllFinished", "C17_WithinTimeout", "C17_InFlightCompletes", "C17_LateNotServed", "C17_NotBeforeInFlight"}
                [] fam = "C17app" -> {"C17_ApplicationDrains"} [] fam = "C15app" -> {"C15_ApplicationWiring"} [] fam = "C15race" -> {"C15_ConcurrentAdmissions"}
                [] fam = "C13app" -> {"C13_AppFirstAdmitted", "C13_AppTwoLimit", "C13_AppIdleReadmit"}
                [] fam = "C14len" /\ Prop = "C04" -> {"C04_ConfiguredMaximumGoverns"}
                [] fam = "C14cookie" /\ Prop = "C02" -> {"C02_ExpiryJudgedAtPresentation"}
                [] fam = "C06deadline" -> {"C06_SilentUntilDeadlineClose"} [] fam = "C08hdr" -> {"C08_HeaderSegmentationIrrelevant"}
                [] fam = "C14reissue" -> {"C14_ExpiryWherePresented"}
                [] fam = "C14lenAt" -> {"C14_MaxLengthEverywhere"} [] fam = "C03len" -> {"C03_FinalPacketWhateverItsSize"}
                [] fam = "C14len" -> {"C14_MaxLength"} [] fam = "C14cookie" -> {"C14_CookieAcceptance"} [] fam = "C14deadline" -> {"C14_Deadline", "C14_OverlongRefused"}
                \* listen() returned although nobody had asked it to stop (the record exists only then): whatever the scenario was about, nobody is served
                [] fam = "returned-early" -> {"L_ListensUntilStopRequested"}
                [] OTHER -> {}
Clause(c, r) ==
  CASE c = "C15_ServedIffAdmitted" -> C15_ServedIffAdmitted(r) [] c = "C15_RefusedGetsNothing" -> C15_RefusedGetsNothing(r)
    [] c = "C15_NoBackendForUnserved" -> C15_NoBackendForUnserved(r) [] c = "C15_BackendSeesEffective" -> C15_BackendSeesEffective(r)
    [] c = "C15_CookieBoundToEffective" -> C15_CookieBoundToEffective(r) [] c = "C15_LoginGetsCookie" -> C15_LoginGetsCookie(r)
    [] c = "C16_GoodServedPromptly" -> C16_GoodServedPromptly(r) [] c = "C16_GoodServedAfterQuiet" -> C16_GoodServedAfterQuiet(r) [] c = "C17_StopsDespiteHostile" -> C17_StopsDespiteHostile(r)
    [] c = "C17_ReturnsAfterAllFinished" -> C17_ReturnsAfterAllFinished(r) [] c = "C17_WithinTimeout" -> C17_WithinTimeout(r)
    [] c = "C17_InFlightCompletes" -> C17_InFlightCompletes(r) [] c = "C17_LateNotServed" -> C17_LateNotServed(r)
    [] c = "C17_NotBeforeInFlight" -> C17_NotBeforeInFlight(r)
    [] c = "C17_ApplicationDrains" -> C17_ApplicationDrains(r) [] c = "C15_ApplicationWiring" -> C15_ApplicationWiring(r) [] c = "C15_ConcurrentAdmissions" -> C15_ConcurrentAdmissions(r)
    [] c = "C10_RecordsEffectiveAddress" -> C10_RecordsEffectiveAddress(r) [] c = "C02_BoundToEffectiveAddress" -> C02_BoundToEffectiveAddress(r)
    [] c = "C13_AppFirstAdmitted" -> C13_AppFirstAdmitted(r) [] c = "C13_AppTwoLimit" -> C13_AppTwoLimit(r) [] c = "C13_AppIdleReadmit" -> C13_AppIdleReadmit(r)
    [] c = "C04_ConfiguredMaximumGoverns" -> C14_MaxLength(r)
    [] c = "C02_ExpiryJudgedAtPresentation" -> C02_ExpiryJudgedAtPresentation(r) [] c = "C06_SilentUntilDeadlineClose" -> C06_SilentUntilDeadlineClose(r)
    [] c = "C08_HeaderSegmentationIrrelevant" -> C08_HeaderSegmentationIrrelevant(r)
    [] c = "C14_MaxLengthEverywhere" -> C14_MaxLength(r)
    \* a cookie issued elsewhere (another instance, an earlier configuration) under a longer expiry: what counts is the expiry configured here
    [] c = "C14_ExpiryWherePresented" -> r.issued /\ C14_CookieAcceptance(r)
    \* C03: the player gets the Transfer (after the cookies) or the configured Disconnect text whatever their size -- the configured maximum
    \* frame length limits what the client may send, not what the server has to say
    [] c = "C03_FinalPacketWhateverItsSize" -> r.end = r.expectEnd /\ (r.expectEnd = "transfer" => r.cookieBytes > r.maxLen) /\ (r.expectEnd = "disconnect" => r.reasonLen > r.maxLen)
    [] c = "C14_MaxLength" -> C14_MaxLength(r) [] c = "C14_CookieAcceptance" -> C14_CookieAcceptance(r) [] c = "C14_Deadline" -> C14_Deadline(r) [] c = "C14_OverlongRefused" -> C14_OverlongRefused(r)
    [] OTHER -> FALSE

Judge == n >= 1 => LET r == Recs[n]  bad == {c \in Names(r.family) : ~Clause(c, r)} IN
                   bad = {} \/ PrintT(<<"FAIL", ToJson([line |-> n, clauses |-> bad])>>)
AllConsumed == TLCGet("stats").diameter = Len(Recs) + 1 \/ PrintT(<<"NOTCONSUMED", ToJson([d |-> TLCGet("stats").diameter])>>)
=============================================================================
