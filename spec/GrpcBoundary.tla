---------------------------- MODULE GrpcBoundary ----------------------------
(***************************************************************************)
(* C19  "Targets cross the gRPC adapter boundary unchanged".               *)
(*                                                                         *)
(* The boundary between the router and the gRPC discovery / strategy /     *)
(* status services (passage-adapters/grpc: proto.rs, *_adapter.rs and      *)
(* proto/adapter/*.proto) as a specification:                              *)
(*                                                                         *)
(*  1. the two representations of a target and the conversions             *)
(*       ToWire   : Target -> WireTarget        (router  -> service)       *)
(*       FromWire : WireTarget -> Ok(Target) | Err(reason)                 *)
(*     with  FromWire(ToWire(t)) = Ok(t)  (RoundTrip) and the error cases  *)
(*     (ErrorCases);                                                       *)
(*  2. one exchange as a small state machine (RouterCalls, ServiceReplies, *)
(*     RouterReceives);                                                    *)
(*  3. the property as NAMED CLAUSES over one observable exchange          *)
(*     (C19_...), used twice: as invariants of the machine (the design     *)
(*     satisfies the property) and by Trace_GrpcBoundary.tla on exchanges  *)
(*     recorded from the real adapters (only that yields VIOLATION).       *)
(*                                                                         *)
(* ROUTER SIDE   Target == [identifier, family, ip, port, meta]            *)
(*   identifier : label of an opaque string (GrpcData!IdLabels)            *)
(*   ip         : the address, named by its canonical text (GrpcData!      *)
(*                CanonIps; what std::net::IpAddr prints), family "v4"/"v6"*)
(*   port       : 0..65535                                                 *)
(*   meta       : a MAP key -> value (HashMap in the code), written as a   *)
(*                sequence of <<key, value>> with pairwise distinct keys   *)
(*                whose order carries no meaning.                          *)
(* WIRE SIDE     WireTarget == [identifier, hasaddr, host, port, meta]     *)
(*   hasaddr    : the optional `Address address = 2` is present            *)
(*   host       : the TEXT in Address.hostname                             *)
(*   port       : decimal text of the uint32 (GrpcData!PortLabels; a text  *)
(*                because 2^32-1 exceeds TLC's integers)                   *)
(*   meta       : `repeated MetaEntry`: a SEQUENCE, keys may repeat.       *)
(*                                                                         *)
(* MODELLING DECISIONS (each keeps the check sound: no alarm where the     *)
(* property as stated holds)                                               *)
(*  D-a  "same metadata" with duplicate keys on the wire.  `repeated       *)
(*       MetaEntry{key=1,value=2}` is wire-compatible with                 *)
(*       `map<string,string>`, for which protobuf prescribes "last one     *)
(*       wins"; the precise design below (Dedup) does that.  The CLAUSES   *)
(*       demand less: the router's map has exactly the keys sent, and each *)
(*       key carries ONE OF the values sent for it (MetaCarried).  For     *)
(*       distinct keys this is equality.                                   *)
(*  D-b  Which host texts must be accepted.  The proto file carries no     *)
(*       comment; the reference documentation calls the field "Hostname or *)
(*       IP address".  The router-side Target holds a SocketAddr, so:      *)
(*       IP literals (dotted IPv4; IPv6 compressed, full length, upper     *)
(*       case, IPv4-mapped, ...) MUST be accepted and denote that address  *)
(*       (class "ip");  DNS names, zone ids and inet_aton spellings are    *)
(*       NOT JUDGED (class "free": resolving and rejecting are both        *)
(*       legitimate);  a bracketed IPv6 literal may be rejected, but if    *)
(*       accepted must denote that address (class "either");  everything   *)
(*       else is malformed and MUST be an error (class "invalid").         *)
(*       The precise design accepts class "ip" only.                       *)
(*  D-c  An IPv4-mapped IPv6 address may reach the router as itself or as  *)
(*       the IPv4 address it maps (GrpcData: ips has both); the design     *)
(*       keeps it as it is.                                                *)
(*  D-d  A port above 65535 is malformed whatever the host text is.        *)
(*  D-e  Discovery: the statement says "every target returned ... reaches  *)
(*       the router", not in which order: the clauses match result and     *)
(*       reply as multisets; the design keeps the order (N_Precise).       *)
(*       A reply with a malformed target must fail as a whole ("rejected   *)
(*       with an error").                                                  *)
(*  D-f  Strategy: the statement covers "the target picked FROM THE        *)
(*       CANDIDATES".  A well-formed pick that is not among the candidates *)
(*       is not judged (a router may pass it on or refuse it); the design  *)
(*       passes it on (N_ForeignChoice is a drift note, not a verdict).    *)
(*       "No pick" must come back as "no choice", not as an error.         *)
(*  D-g  Request: candidates in the order given, each with identifier,     *)
(*       a host text that denotes the same IP, the port, and the same set  *)
(*       of metadata entries (a map has no order); user name verbatim;     *)
(*       user id any textual form of the same UUID; client address same IP *)
(*       and port; server address verbatim host text (never parsed) and    *)
(*       port.  The protocol number and the status service are not part of *)
(*       the statement: drift notes only (N_Protocol, N_StatusRequest).    *)
(*       With an empty candidate list a router may skip the call.          *)
(***************************************************************************)
EXTENDS Integers, Sequences, FiniteSets, TLC, GrpcData

Range(s) == {s[i] : i \in DOMAIN s}
Inj(A, B) == {f \in [A -> B] : \A x, y \in A : x # y => f[x] # f[y]}

---------------------------------------------------------------------------
(* Address texts                                                           *)
UnknownForm == [text |-> "?", class |-> "unknown", canon |-> "none", ips |-> {}]
Parse(txt) == IF \E l \in HostLabels : HostTable[l].text = txt
              THEN HostTable[CHOOSE l \in HostLabels : HostTable[l].text = txt]
              ELSE UnknownForm
PortText(n) == CHOOSE l \in PortLabels : PortTable[l].num = n
ValidPortNums == {PortTable[l].num : l \in {x \in PortLabels : PortTable[x].ok}}

(* Metadata                                                                *)
Keys(m) == {m[i][1] : i \in DOMAIN m}
UniqueKeys(m) == Len(m) = Cardinality(Keys(m))
\* the survivors of "last one wins", in wire order
Dedup(m) ==
  LET I == {i \in DOMAIN m : \A j \in DOMAIN m : j > i => m[j][1] # m[i][1]}
      at(k) == CHOOSE i \in I : Cardinality({j \in I : j < i}) = k - 1
  IN [k \in 1..Cardinality(I) |-> m[at(k)]]

---------------------------------------------------------------------------
(* The conversions (precise design)                                        *)
NoTarget == [identifier |-> "", family |-> "none", ip |-> "", port |-> -1, meta |-> <<>>]
Err(why) == [ok |-> FALSE, why |-> why, t |-> NoTarget]
Ok(t)    == [ok |-> TRUE, why |-> "", t |-> t]

ToWire(t) == [identifier |-> t.identifier, hasaddr |-> TRUE, host |-> t.ip, port |-> PortText(t.port), meta |-> t.meta]

FromWire(w) ==
  IF ~w.hasaddr THEN Err("missing-address")
  ELSE LET h == Parse(w.host) IN
       IF h.class # "ip" THEN Err("bad-host")
       ELSE IF ~PortTable[w.port].ok THEN Err("bad-port")
       ELSE Ok([identifier |-> w.identifier, family |-> IpFamily[h.canon], ip |-> h.canon,
                port |-> PortTable[w.port].num, meta |-> Dedup(w.meta)])

\* what a recording service sees of a wire target: the port as a number, and (harness only) `hostip`, the canonical
\* text of the IP the host text denotes according to std::net (covers spellings that the table does not list)
SeenShape(w) == [identifier |-> w.identifier, hasaddr |-> w.hasaddr, host |-> w.host, hostip |-> Parse(w.host).canon,
                 port |-> PortTable[w.port].num, meta |-> w.meta]
SeenAddr(ip, port) == [hasaddr |-> TRUE, host |-> ip, hostip |-> ip, port |-> port]
NoSeenAddr == [hasaddr |-> FALSE, host |-> "", hostip |-> "other", port |-> 0]

---------------------------------------------------------------------------
(* Property level: predicates over ONE exchange E                          *)
(*  E == [kind, reply |-> [mode, idx, targets], candidates, player, client,*)
(*        server, protocol,                    -- the script               *)
(*        result |-> [ok, targets], seen, panic]   -- what happened        *)
(*  reply.mode: "targets" (discover), "echo" (the service picks the idx-th *)
(*  candidate exactly as it received it), "target" (the service picks      *)
(*  reply.targets[1]), "none".  result.targets: the discovered list, or    *)
(*  <<>> / <<choice>> for select.                                          *)
Verdict(w) ==
  IF ~w.hasaddr \/ ~PortTable[w.port].ok THEN "invalid"
  ELSE LET c == Parse(w.host).class IN
       IF c = "ip" THEN "valid" ELSE IF c = "unknown" THEN "free" ELSE c

\* D-a
MetaCarried(tm, wm) == Keys(tm) = Keys(wm) /\ UniqueKeys(tm) /\ Range(tm) \subseteq Range(wm)

\* the router-side target t is what the wire target w says
Carries(t, w) ==
  /\ t.identifier = w.identifier
  /\ t.port = PortTable[w.port].num
  /\ MetaCarried(t.meta, w.meta)
  /\ \/ Parse(w.host).class \in {"free", "unknown"}
     \/ (t.ip \in Parse(w.host).ips /\ t.family = IpFamily[t.ip])

\* the router-side target t is the candidate c (D-c)
SameTarget(t, c) ==
  /\ t.identifier = c.identifier /\ t.port = c.port
  /\ t.ip \in Parse(c.ip).ips /\ t.family = IpFamily[t.ip]
  /\ UniqueKeys(t.meta) /\ Range(t.meta) = Range(c.meta)

\* the wire target w names the candidate c
Names(w, c) ==
  /\ w.hasaddr /\ w.identifier = c.identifier /\ PortTable[w.port].num = c.port
  /\ c.ip \in Parse(w.host).ips /\ Range(w.meta) = Range(c.meta)
IsCandidate(E, w) == \E i \in DOMAIN E.candidates : Names(w, E.candidates[i])

Rejected(E) == ~E.result.ok /\ ~E.panic
Accepted(E) == E.result.ok /\ ~E.panic

C19_DiscoveredUnchanged(E) ==
  (E.kind = "discover" /\ E.result.ok) =>
    LET W == E.reply.targets
        R == E.result.targets
        Good == {j \in DOMAIN W : Verdict(W[j]) = "valid"}
        NonBad == {j \in DOMAIN W : Verdict(W[j]) # "invalid"}
    IN \* every well-formed target reaches the router, unchanged
       /\ \E g \in Inj(Good, DOMAIN R) : \A j \in Good : Carries(R[g[j]], W[j])
       \* and nothing else does (a reply with a malformed target is C19_MalformedRejected's business)
       /\ NonBad = DOMAIN W => \E h \in Inj(DOMAIN R, NonBad) : \A i \in DOMAIN R : Carries(R[i], W[h[i]])

C19_ChoiceUnchanged(E) ==
  (E.kind = "select" /\ E.result.ok) =>
    LET R == E.result.targets IN
    CASE E.reply.mode = "none" -> R = <<>>
      [] E.reply.mode = "echo" /\ E.reply.idx \in DOMAIN E.candidates ->
           Len(R) = 1 /\ SameTarget(R[1], E.candidates[E.reply.idx])
      [] E.reply.mode = "target" ->
           LET w == E.reply.targets[1] IN
           (Verdict(w) # "invalid" /\ IsCandidate(E, w)) => (Len(R) = 1 /\ Carries(R[1], w))
      [] OTHER -> TRUE

SeenIs(s, c) ==
  /\ s.identifier = c.identifier
  /\ s.hasaddr /\ (c.ip \in Parse(s.host).ips \/ s.hostip = c.ip) /\ s.port = c.port
  /\ Len(s.meta) = Len(c.meta) /\ Range(s.meta) = Range(c.meta)
SeenAddrIs(s, ip, port) == s.hasaddr /\ (ip \in Parse(s.host).ips \/ s.hostip = ip) /\ s.port = port

C19_RequestUnaltered(E) ==
  (E.kind = "select" /\ (E.seen.count >= 1 \/ Len(E.candidates) > 0)) =>
    /\ E.seen.count >= 1
    /\ Len(E.seen.candidates) = Len(E.candidates)
    /\ \A i \in DOMAIN E.candidates : i \in DOMAIN E.seen.candidates /\ SeenIs(E.seen.candidates[i], E.candidates[i])
    /\ E.seen.username = E.player.name
    /\ E.player.uuid \in UuidLabels /\ E.seen.user_id \in UuidForms[E.player.uuid]
    /\ SeenAddrIs(E.seen.client, E.client.ip, E.client.port)
    /\ E.seen.server.hasaddr /\ E.seen.server.host = E.server.host /\ E.seen.server.port = E.server.port

C19_MalformedRejected(E) ==
  CASE E.kind = "discover" -> (\E j \in DOMAIN E.reply.targets : Verdict(E.reply.targets[j]) = "invalid") => Rejected(E)
    [] E.kind = "select" /\ E.reply.mode = "target" -> Verdict(E.reply.targets[1]) = "invalid" => Rejected(E)
    [] OTHER -> TRUE

C19_ValidAccepted(E) ==
  CASE E.kind = "discover" -> (\A j \in DOMAIN E.reply.targets : Verdict(E.reply.targets[j]) = "valid") => Accepted(E)
    [] E.kind = "select" /\ E.reply.mode = "none" -> Accepted(E)
    [] E.kind = "select" /\ E.reply.mode = "echo" -> E.reply.idx \in DOMAIN E.candidates => Accepted(E)
    [] E.kind = "select" /\ E.reply.mode = "target" ->
         (Verdict(E.reply.targets[1]) = "valid" /\ IsCandidate(E, E.reply.targets[1])) => Accepted(E)
    [] OTHER -> TRUE

(* Drift notes: the precise design, beyond what the statement demands (never a VIOLATION) *)
ExactTarget(a, b) == a.identifier = b.identifier /\ a.family = b.family /\ a.ip = b.ip /\ a.port = b.port
                     /\ Len(a.meta) = Len(b.meta) /\ Range(a.meta) = Range(b.meta)
N_Precise(E, expect) ==
  /\ E.result.ok = expect.ok /\ ~E.panic
  /\ Len(E.result.targets) = Len(expect.targets)
  /\ \A i \in DOMAIN expect.targets : i \in DOMAIN E.result.targets /\ ExactTarget(E.result.targets[i], expect.targets[i])
N_ForeignChoice(E) ==
  (E.kind = "select" /\ E.reply.mode = "target" /\ Verdict(E.reply.targets[1]) = "valid" /\ ~IsCandidate(E, E.reply.targets[1])) =>
     (Accepted(E) /\ Len(E.result.targets) = 1 /\ Carries(E.result.targets[1], E.reply.targets[1]))
N_Protocol(E) == (E.kind \in {"select", "status"} /\ E.seen.count >= 1) => E.seen.protocol = E.protocol
N_StatusRequest(E) ==
  E.kind = "status" =>
    /\ E.seen.count = 1 /\ Accepted(E)
    /\ SeenAddrIs(E.seen.client, E.client.ip, E.client.port)
    /\ E.seen.server.hasaddr /\ E.seen.server.host = E.server.host /\ E.seen.server.port = E.server.port

ClauseNames == {"C19_DiscoveredUnchanged", "C19_ChoiceUnchanged", "C19_RequestUnaltered", "C19_MalformedRejected", "C19_ValidAccepted"}
NoteNames == {"N_Precise", "N_ForeignChoice", "N_Protocol", "N_StatusRequest"}
Clause(n, E, expect) ==
  CASE n = "C19_DiscoveredUnchanged" -> C19_DiscoveredUnchanged(E)
    [] n = "C19_ChoiceUnchanged" -> C19_ChoiceUnchanged(E)
    [] n = "C19_RequestUnaltered" -> C19_RequestUnaltered(E)
    [] n = "C19_MalformedRejected" -> C19_MalformedRejected(E)
    [] n = "C19_ValidAccepted" -> C19_ValidAccepted(E)
    [] n = "N_Precise" -> N_Precise(E, expect)
    [] n = "N_ForeignChoice" -> N_ForeignChoice(E)
    [] n = "N_Protocol" -> N_Protocol(E)
    [] n = "N_StatusRequest" -> N_StatusRequest(E)

---------------------------------------------------------------------------
(* The exchange as a state machine                                         *)
CONSTANTS DiscoverReplies,  \* set of sequences of wire targets a discovery service may send
          SelectCases,      \* set of [call |-> Call, replies |-> set of Reply]: what the router asks, what the service may answer
          StatusCalls,      \* set of Call
          RouterMetas,      \* metadata maps of the finite target domain (RoundTrip)
          WireMetas         \* metadata sequences of the finite wire domain (ErrorCases)

VARIABLES phase,    \* "idle" -> "called" -> "replied" -> "done"
          call,     \* [kind, candidates, player, client, server, protocol]: what the router passes to the adapter
          replies,  \* the answers the service may give to this call
          reply,    \* [mode, idx, targets]: what the service answers
          onwire,   \* the candidates as the service received them (sequence of wire targets)
          result    \* [ok, targets]: what the adapter hands back to the router
vars == <<phase, call, replies, reply, onwire, result>>

NoPlayer == [name |-> "n:steve", uuid |-> "u:nil"]
NoClient == [ip |-> "10.0.0.1", port |-> 1]
NoServer == [host |-> "s:fqdn", port |-> 25565]
DiscoverCall == [kind |-> "discover", candidates |-> <<>>, player |-> NoPlayer, client |-> NoClient, server |-> NoServer, protocol |-> 0]
NoReply == [mode |-> "none", idx |-> 0, targets |-> <<>>]
NoResult == [ok |-> FALSE, targets |-> <<>>]

Init == phase = "idle" /\ call = DiscoverCall /\ replies = {} /\ reply = NoReply /\ onwire = <<>> /\ result = NoResult

RouterCalls ==
  /\ phase = "idle" /\ phase' = "called"
  /\ \/ call' = DiscoverCall /\ replies' = {[mode |-> "targets", idx |-> 0, targets |-> ts] : ts \in DiscoverReplies}
     \/ \E c \in SelectCases : call' = c.call /\ replies' = c.replies
     \/ \E c \in StatusCalls : call' = c /\ replies' = {NoReply}
  /\ UNCHANGED <<reply, onwire, result>>

\* the request crosses the boundary (ToWire on every candidate), the service records it and answers
ServiceReplies ==
  /\ phase = "called" /\ phase' = "replied"
  /\ onwire' = [i \in DOMAIN call.candidates |-> ToWire(call.candidates[i])]
  /\ reply' \in replies
  /\ UNCHANGED <<call, replies, result>>

OfOne(r) == IF r.ok THEN [ok |-> TRUE, targets |-> <<r.t>>] ELSE NoResult
Receive ==
  CASE call.kind = "discover" ->
         LET rs == [i \in DOMAIN reply.targets |-> FromWire(reply.targets[i])] IN
         IF \E i \in DOMAIN rs : ~rs[i].ok THEN NoResult ELSE [ok |-> TRUE, targets |-> [i \in DOMAIN rs |-> rs[i].t]]
    [] call.kind = "select" /\ reply.mode = "echo" /\ reply.idx \in DOMAIN onwire -> OfOne(FromWire(onwire[reply.idx]))
    [] call.kind = "select" /\ reply.mode = "target" -> OfOne(FromWire(reply.targets[1]))
    [] OTHER -> [ok |-> TRUE, targets |-> <<>>]

RouterReceives ==
  /\ phase = "replied" /\ phase' = "done"
  /\ result' = Receive
  /\ UNCHANGED <<call, replies, reply, onwire>>

Next == RouterCalls \/ ServiceReplies \/ RouterReceives
Spec == Init /\ [][Next]_vars

\* what the recording service saw, in the vocabulary of the observations
Seen ==
  [count |-> 1,
   candidates |-> IF call.kind = "select" THEN [i \in DOMAIN onwire |-> SeenShape(onwire[i])] ELSE <<>>,
   username |-> IF call.kind = "select" THEN call.player.name ELSE "",
   user_id |-> IF call.kind = "select" THEN (CHOOSE f \in UuidForms[call.player.uuid] : f = UuidCanon[call.player.uuid]) ELSE "",
   client |-> IF call.kind = "discover" THEN NoSeenAddr ELSE SeenAddr(call.client.ip, call.client.port),
   server |-> IF call.kind = "discover" THEN NoSeenAddr ELSE [hasaddr |-> TRUE, host |-> call.server.host, hostip |-> "other", port |-> call.server.port],
   protocol |-> IF call.kind = "discover" THEN 0 ELSE call.protocol]

Exchange == [kind |-> call.kind, reply |-> reply, candidates |-> call.candidates, player |-> call.player, client |-> call.client,
             server |-> call.server, protocol |-> call.protocol, result |-> result, seen |-> Seen, panic |-> FALSE]

\* observation + script -> exchange (Trace_GrpcBoundary)
MkExchange(s, o) == [kind |-> s.kind, reply |-> s.reply, candidates |-> s.candidates, player |-> s.player, client |-> s.client,
                     server |-> s.server, protocol |-> s.protocol, result |-> o.result, seen |-> o.seen, panic |-> o.panic]

---------------------------------------------------------------------------
(* Invariants                                                              *)
\* the design satisfies the property and agrees with itself
PropsHold == phase = "done" => \A n \in ClauseNames \cup NoteNames : Clause(n, Exchange, result)

TargetDomain == {[identifier |-> id, family |-> IpFamily[ip], ip |-> ip, port |-> p, meta |-> m] :
                   id \in IdLabels, ip \in CanonIps, p \in ValidPortNums, m \in RouterMetas}
WireDomain == {[identifier |-> id, hasaddr |-> a, host |-> HostTable[h].text, port |-> p, meta |-> m] :
                   id \in {"id:hub", "id:uni"}, a \in BOOLEAN, h \in HostLabels, p \in PortLabels, m \in WireMetas}

\* FromWire(ToWire(t)) = t for every target of the finite domain (evaluated once, in the initial state)
RoundTrip == phase = "idle" => \A t \in TargetDomain : FromWire(ToWire(t)) = Ok(t)

\* missing address / malformed host / port > 65535 are errors; every well-formed wire target is accepted and carried;
\* what is accepted at all is carried (nothing is silently altered)
ErrorCases == phase = "idle" =>
  \A w \in WireDomain :
    LET r == FromWire(w) IN
    /\ Verdict(w) = "invalid" => ~r.ok
    /\ Verdict(w) = "valid" => r.ok
    /\ r.ok => Carries(r.t, w)

TypeOK == /\ phase \in {"idle", "called", "replied", "done"}
          /\ call.kind \in {"discover", "select", "status"}
          /\ reply.mode \in {"targets", "echo", "target", "none"}
          /\ result.ok \in BOOLEAN
          /\ \A i \in DOMAIN result.targets : result.targets[i].ip \in CanonIps /\ result.targets[i].port \in 0..65535
=============================================================================
