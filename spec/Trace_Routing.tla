--------------------------- MODULE Trace_Routing ---------------------------
(* Trace validation, code -> spec, for C18.  Every record of the NDJSON file named by the TRACE       *)
(* environment variable is one routing decision of the real adapters (harness `hx-app routing`):       *)
(*   [line, abs |-> [chain, strategy, spelling], targets, player, host   the scenario given to the code, *)
(*    obs |-> [filtered, chosen, error, panic]]                          what filter(..) / select(..) did *)
(* Eligibility and the acceptable choices are recomputed HERE from the scenario with the operators of   *)
(* Routing.tla; nothing exported earlier is trusted.  One state per record; failing clauses are printed *)
(* on a FAIL line, a filter output that differs from the precise design only in order / multiplicity on  *)
(* a DRIFT line.  A construction error or panic is an observation "nothing filtered, nobody sent".       *)
EXTENDS Integers, Sequences, Json, IOUtils, TLC

\* only the constant-level operators of Routing are used here; its state machine is not run, so its variables are bound to dummies
R == INSTANCE Routing WITH config <- 0, targets <- 0, player <- 0, host <- 0, stage <- 0, filtered <- 0, result <- 0

Recs == ndJsonDeserialize(IOEnv.TRACE)

MetaFromPairs(ps) == [k \in {ps[i][1] : i \in 1..Len(ps)} |-> ps[CHOOSE i \in 1..Len(ps) : ps[i][1] = k][2]]
TargetFromJson(t) == [id |-> t.identifier, address |-> t.address, meta |-> MetaFromPairs(t.meta)]

DecisionOf(rec) ==
  [chain |-> rec.abs.chain, strategy |-> rec.abs.strategy,
   targets |-> [i \in 1..Len(rec.targets) |-> TargetFromJson(rec.targets[i])],
   player |-> rec.player, host |-> rec.host,
   filtered |-> rec.obs.filtered, chosen |-> rec.obs.chosen]

VARIABLE n
Init == n = 0
Next == n < Len(Recs) /\ n' = n + 1
Spec == Init /\ [][Next]_n

\* always TRUE; prints the failing clauses of record n
\* records with stage = "app" come from the whole application (passage::start on loopback, a real login): the filter output is not
\* observable there (obs.filtered is <<>>), only where the player was sent
IsApp(rec) == "stage" \in DOMAIN rec /\ rec.stage = "app"
Judge == n >= 1 =>
  LET o == DecisionOf(Recs[n])  bad == IF IsApp(Recs[n]) THEN R!FailingChoice(o) ELSE R!Failing(o) IN
  /\ (bad = {} \/ PrintT(<<"FAIL", ToJson([line |-> n, clauses |-> bad])>>))
  /\ (bad # {} \/ IsApp(Recs[n]) \/ ~R!FilterDrift(o) \/ PrintT(<<"DRIFT", ToJson([line |-> n])>>))

AllConsumed == TLCGet("stats").diameter = Len(Recs) + 1 \/ PrintT(<<"NOTCONSUMED", ToJson([d |-> TLCGet("stats").diameter])>>)
=============================================================================
