--------------------------- MODULE MC_GrpcBoundary ---------------------------
(* Model-checking / script-export wrapper for GrpcBoundary (C19): the finite domains that TLC's cfg syntax     *)
(* cannot express, and the export of one script per complete exchange.                                         *)
(*   Quick: a star design (one dimension varied at a time around a base target / call), about 250 exchanges.   *)
(*   Full : products (every host form x every port x metadata x identifiers; candidate lists up to 3 from a    *)
(*          pool; every host form x port as the strategy's pick), about 5k exchanges.                          *)
EXTENDS GrpcBoundary, Json

KV(k, v) == <<k, v>>
BM == <<KV("k:type", "v:hub")>>
M2 == <<KV("k:type", "v:hub"), KV("k:players", "v:num")>>
MUni == <<KV("k:uni", "v:uni"), KV("k:empty", "v:empty")>>
MOdd == <<KV("k:eq", "v:nl"), KV("k:players", "v:space")>>
MDup == <<KV("k:type", "v:hub"), KV("k:type", "v:survival")>>
MDupSame == <<KV("k:type", "v:hub"), KV("k:players", "v:num"), KV("k:type", "v:hub")>>

MC_RouterMetas == {<<>>, BM, M2, MUni, MOdd}
MC_WireMetas == MC_RouterMetas \cup {MDup, MDupSame}

W(id, h, p, m) == [identifier |-> id, hasaddr |-> TRUE, host |-> HostTable[h].text, port |-> p, meta |-> m]
NoAddrW(id, m) == [identifier |-> id, hasaddr |-> FALSE, host |-> "", port |-> "0", meta |-> m]
T(id, ip, p, m) == [identifier |-> id, family |-> IpFamily[ip], ip |-> ip, port |-> p, meta |-> m]

A4 == W("id:hub", "v4-dotted", "25565", BM)
A6 == W("id:other", "v6-compressed", "25565", M2)
A6b == W("id:uni", "v6-mapped", "1", MUni)
ABadHost == W("id:hub", "bad-octet", "25565", BM)
ABadPort == W("id:hub", "v4-dotted", "65536", BM)
AFree == W("id:hub", "host-fqdn", "25565", BM)
AEither == W("id:hub", "v6-bracketed", "25565", BM)
ANoAddr == NoAddrW("id:hub", BM)

TwoHosts == {"v4-dotted", "v6-compressed"}

MC_QuickDiscover ==
     {<<W("id:hub", h, "25565", BM)>> : h \in HostLabels}
  \cup {<<W("id:hub", h, p, BM)>> : h \in TwoHosts, p \in PortLabels}
  \cup {<<W("id:hub", h, "25565", m)>> : h \in TwoHosts, m \in MC_WireMetas}
  \cup {<<W(id, h, "25565", BM)>> : h \in TwoHosts, id \in IdLabels}
  \cup {<<>>, <<ANoAddr>>, <<A4, A6>>, <<A6, A4, A6b>>, <<A4, A4>>, <<A4, ABadHost>>, <<ABadPort, A6>>, <<A4, ANoAddr>>,
        <<A4, AFree>>, <<AEither, A4>>, <<A6, AFree, ABadHost>>}

RepHosts == {"v4-dotted", "v4-unspecified", "v6-compressed", "v6-full", "v6-upper", "v6-mapped", "v6-bracketed", "host-fqdn", "bad-octet", "bad-empty"}
Reps == {A4, A6, A6b, ABadHost, ABadPort, AFree, AEither, ANoAddr}
MC_FullDiscover ==
     MC_QuickDiscover
  \cup {<<W(id, h, p, m)>> : id \in {"id:hub", "id:uni"}, h \in HostLabels, p \in PortLabels, m \in {BM, MDup, MUni}}
  \cup {<<W(id, h, "25565", m)>> : id \in IdLabels, h \in RepHosts, m \in MC_WireMetas}
  \cup {<<a, b>> : a \in Reps, b \in Reps}
  \cup {<<a, b, c>> : a \in {A4, A6, ABadPort, AFree}, b \in {A4, A6b}, c \in {A6, ABadHost, AEither, ANoAddr}}

---------------------------------------------------------------------------
BasePlayer == [name |-> "n:steve", uuid |-> "u:v4"]
BaseClient == [ip |-> "192.168.1.100", port |-> 25565]
BaseServer == [host |-> "s:fqdn", port |-> 25565]
Sel(cs, pl, cl, sv, pr) == [kind |-> "select", candidates |-> cs, player |-> pl, client |-> cl, server |-> sv, protocol |-> pr]
BaseSel(cs) == Sel(cs, BasePlayer, BaseClient, BaseServer, 770)

T4 == T("id:hub", "10.0.0.1", 25565, BM)
T6 == T("id:other", "2001:db8::1", 25565, M2)
T6m == T("id:uni", "::ffff:10.0.0.1", 1, MUni)
T4b == T("id:hub", "10.0.0.1", 65535, MOdd)      \* same identifier and IP as T4: told apart by port and metadata
T6l == T("id:long", "::1", 0, <<>>)

Echo(i) == [mode |-> "echo", idx |-> i, targets |-> <<>>]
Pick(w) == [mode |-> "target", idx |-> 0, targets |-> <<w>>]
None == NoReply

\* every textual form that denotes the candidate c (the service re-spells the address of its pick)
Respelled(c) == {Pick(W(c.identifier, h, PortText(c.port), c.meta)) : h \in {x \in HostLabels : c.ip \in HostTable[x].ips}}
\* the pick re-written with a duplicated metadata entry (same map)
Doubled(c) == IF c.meta = <<>> THEN {} ELSE {Pick([ToWire(c) EXCEPT !.meta = c.meta \o <<c.meta[1]>>])}
Foreign == {Pick(W("id:other", "v4-private", "25565", BM)), Pick(W("id:hub", "v6-linklocal", "25565", <<>>))}
Malformed(c) == {Pick(NoAddrW(c.identifier, c.meta)), Pick([ToWire(c) EXCEPT !.host = HostTable["bad-octet"].text]),
                 Pick([ToWire(c) EXCEPT !.port = "65536"]), Pick([ToWire(c) EXCEPT !.port = "91101"]),
                 Pick([ToWire(c) EXCEPT !.host = HostTable["host-fqdn"].text])}
AllReplies(cs) == {Echo(i) : i \in DOMAIN cs} \cup {None} \cup Foreign
                  \cup (IF cs = <<>> THEN {} ELSE Respelled(cs[1]) \cup Doubled(cs[1]) \cup Malformed(cs[1]))
Case(c, rs) == [call |-> c, replies |-> rs]

ValidPorts == {0, 1, 25565, 65535}
T4c == T("id:hub", "2001:db8::1", 25565, M2)     \* same identifier as T4, another address family and metadata
\* candidates that share an identifier: the pick must come back as the one the service chose, not as its namesake
MC_Namesakes == {Case(BaseSel(cs), {Echo(i) : i \in DOMAIN cs}) : cs \in {<<T4, T4b>>, <<T4, T4c>>, <<T4c, T6, T4>>, <<T4b, T4c, T4>>}}
MC_QuickSelect ==
     MC_Namesakes
  \cup {Case(BaseSel(cs), AllReplies(cs)) : cs \in {<<>>, <<T4>>, <<T6>>, <<T4, T6>>, <<T6m, T4b, T6>>}}
  \cup {Case(BaseSel(<<T("id:hub", ip, p, BM)>>), {Echo(1)}) : ip \in CanonIps, p \in {0, 25565, 65535}}
  \cup {Case(BaseSel(<<T("id:hub", ip, 25565, m)>>), {Echo(1)}) : ip \in {"10.0.0.1", "2001:db8::1"}, m \in MC_RouterMetas}
  \cup {Case(BaseSel(<<T(id, ip, 25565, BM)>>), {Echo(1)}) : ip \in {"10.0.0.1", "2001:db8::1"}, id \in IdLabels}
  \cup {Case(Sel(<<T4>>, [name |-> n, uuid |-> "u:v4"], BaseClient, BaseServer, 770), {None}) : n \in NameLabels}
  \cup {Case(Sel(<<T4>>, [name |-> "n:steve", uuid |-> u], BaseClient, BaseServer, 770), {None}) : u \in UuidLabels}
  \cup {Case(Sel(<<T4>>, BasePlayer, [ip |-> ip, port |-> 25565], BaseServer, 770), {None}) : ip \in CanonIps}
  \cup {Case(Sel(<<T4>>, BasePlayer, [ip |-> ip, port |-> p], BaseServer, 770), {None}) : ip \in {"10.0.0.1", "2001:db8::1"}, p \in ValidPorts}
  \cup {Case(Sel(<<T4>>, BasePlayer, BaseClient, [host |-> h, port |-> 25565], 770), {None}) : h \in SrvHostLabels}
  \cup {Case(Sel(<<T4>>, BasePlayer, BaseClient, [host |-> "s:fqdn", port |-> p], 770), {None}) : p \in ValidPorts}
  \cup {Case(Sel(<<T4>>, BasePlayer, BaseClient, BaseServer, pr), {None}) : pr \in {0, 47, 2147483647}}

Pool == {T4, T6, T6m, T4b, T6l}
Lists3 == {<<>>} \cup {<<a>> : a \in Pool} \cup {<<a, b>> : a \in Pool, b \in Pool} \cup {<<a, b, c>> : a \in Pool, b \in Pool, c \in Pool}
MC_FullSelect ==
     MC_QuickSelect
  \cup {Case(BaseSel(cs), {Echo(i) : i \in DOMAIN cs} \cup {None}) : cs \in Lists3}
  \cup {Case(BaseSel(<<c>>), AllReplies(<<c>>)) : c \in Pool}
  \cup {Case(BaseSel(<<c>>), {Pick(W(c.identifier, h, p, c.meta)) : h \in HostLabels, p \in PortLabels}) : c \in {T4, T6}}
  \cup {Case(BaseSel(<<T(id, ip, p, m)>>), {Echo(1)}) : id \in {"id:hub", "id:uni"}, ip \in CanonIps, p \in ValidPorts, m \in MC_RouterMetas}
  \cup {Case(Sel(<<T6>>, [name |-> n, uuid |-> u], BaseClient, BaseServer, 770), {None, Echo(1)}) : n \in NameLabels, u \in UuidLabels}
  \cup {Case(Sel(<<T4>>, BasePlayer, [ip |-> ip, port |-> p], BaseServer, 770), {None}) : ip \in CanonIps, p \in ValidPorts}
  \cup {Case(Sel(<<T4>>, BasePlayer, BaseClient, [host |-> h, port |-> p], 770), {None}) : h \in SrvHostLabels, p \in ValidPorts}
  \cup {Case(Sel(<<T6, T4>>, [name |-> n, uuid |-> "u:v3"], [ip |-> ip, port |-> 1], [host |-> h, port |-> 65535], 47), {Echo(2)}) :
          n \in {"n:uni", "n:empty"}, ip \in {"::1", "255.255.255.255", "::ffff:10.0.0.1"}, h \in {"s:fml", "s:ip6", "s:empty"}}

Stat(cl, sv, pr) == [kind |-> "status", candidates |-> <<>>, player |-> NoPlayer, client |-> cl, server |-> sv, protocol |-> pr]
MC_QuickStatus == {Stat(BaseClient, BaseServer, 770), Stat([ip |-> "2001:db8::1", port |-> 1], [host |-> "s:fml", port |-> 65535], 47),
                   Stat([ip |-> "::ffff:10.0.0.1", port |-> 0], [host |-> "s:empty", port |-> 0], 0)}
MC_FullStatus == MC_QuickStatus \cup {Stat([ip |-> ip, port |-> 25565], [host |-> h, port |-> 25565], 770) : ip \in CanonIps, h \in SrvHostLabels}

---------------------------------------------------------------------------
AllInvariants == TypeOK /\ RoundTrip /\ ErrorCases /\ PropsHold

\* one line per complete exchange: what the mock service must send, what the router passes in, what the design expects
Export == phase = "done" =>
  PrintT(<<"REPLAY", ToJson([kind |-> call.kind, reply |-> reply, candidates |-> call.candidates, player |-> call.player,
                             client |-> call.client, server |-> call.server, protocol |-> call.protocol,
                             expect |-> [result |-> result, seen |-> Seen]])>>)
=============================================================================
