------------------------------- MODULE Wire -------------------------------
(* C09: the Minecraft Java wire format as a reference codec, evaluable by TLC.                                *)
(*                                                                                                            *)
(* A byte is an integer 0..255, an encoding is a sequence of bytes.  TLC integers are 32-bit signed, so      *)
(*   - a 32-bit quantity (VarInt, Int) is a TLC integer whose BIT PATTERN is handled as two 16-bit limbs,    *)
(*   - a 64-bit quantity (VarLong, Long, the u64 of the crate) is four 16-bit limbs, LEAST significant first *)
(*     <<l0,l1,l2,l3>>, denoting  l0 + l1*2^16 + l2*2^32 + l3*2^48  (two's complement when read as signed),  *)
(*   - a UUID is its 16 bytes in textual order, a string is the sequence of its UTF-8 bytes.                 *)
(*                                                                                                            *)
(* Encode(key, value) gives the BODY of a packet (the fields after the packet id), Decode(key, bytes) is its  *)
(* inverse and must consume every byte.  The packet table gives, per packet struct of passage-packets,       *)
(* the id the protocol assigns and the field list in protocol order.                                          *)
(*                                                                                                            *)
(* MODELLING DECISIONS                                                                                        *)
(*  D-a  Placeholder packets.  Many structs of the crate are unit structs ("(Placeholder)"): the router       *)
(*       never sends or inspects their bodies.  They are modelled as id + EMPTY body, i.e. the property      *)
(*       checked for them is the id and that an empty body encodes/decodes to the unit value.  The real      *)
(*       protocol gives most of them fields; that is outside what the crate claims.                          *)
(*  D-b  Login Success carries a property array which the crate's struct does not have; the crate always     *)
(*       writes an empty array.  Field type "noprops": value <<>>, encoding VarInt 0, any other count is     *)
(*       outside the model (Decode rejects).                                                                 *)
(*  D-c  Encryption Request verify_token is [u8; 32] in the crate (the protocol allows any length): field    *)
(*       type "bytes32", values of exactly 32 bytes.                                                         *)
(*  D-d  Text components (configuration Disconnect, Add Resource Pack prompt) are network NBT.  Two forms    *)
(*       are modelled: TAG_String (0x08, u16 length, bytes) and a flat TAG_Compound with ONE TAG_String      *)
(*       entry (0x0a, {0x08, u16 name length, name, u16 length, bytes}, 0x00).  NBT strings are MODIFIED     *)
(*       UTF-8 (java.io.DataOutput.writeUTF): U+0000 is C0 80 and a supplementary character is the two       *)
(*       3-byte encodings of its UTF-16 surrogates; lengths count those bytes.  The crate's String holds     *)
(*       either plain text (TAG_String form) or, when it starts with "{", JSON text that is converted by      *)
(*       fastnbt.  JSON formatting (key order, white space, numbers/booleans) is not wire layout; compounds  *)
(*       with several entries or non-string values are outside the model (their JSON text does not survive   *)
(*       a round trip character by character although the component is the same).  Hence the "string" form   *)
(*       ranges over texts NOT starting with "{", the "compound" form over one key / one JSON-escape-free    *)
(*       string value.                                                                                       *)
(*  D-e  Protocol limits: a String(n) field holds at most n UTF-16 code units (Units); values above the      *)
(*       limit are outside the quantifier of C09 ("within protocol limits") and Decode rejects them.         *)
(*  D-f  Decoding inputs that no encoder produces (over-long VarInt, bool byte 2, invalid UTF-8) is not      *)
(*       part of C09.  DecVar rejects a VarInt/VarLong whose 5th/10th byte still has the continuation bit    *)
(*       (as Minecraft does); MC_Wire exports such inputs as kind "overlong", judged by a Drift_ clause      *)
(*       which is reported as model drift, never as a C09 violation.                                         *)
(*                                                                                                            *)
(* TLC NOTES (measured)                                                                                      *)
(*  - No operator parameter here may carry the name of a VARIABLE of a module that extends this one (MC_Wire: *)
(*    cur, Trace_Wire: idx): TLC then takes the constant definitions using that operator for state-level and  *)
(*    re-evaluates the whole vector table in every state instead of once.                                    *)
(*  - Recursion over long byte sequences is done by halving (CatRange, HexOf): linear recursion over a        *)
(*    255-byte string overflows TLC's stack during constant pre-evaluation.                                   *)
(*  - x + y % z and x + y \div z need parentheses (precedence conflict, SANY then fails with a format error). *)
EXTENDS Integers, Sequences, FiniteSets, TLC

P2 == <<1,2,4,8,16,32,64,128,256,512,1024,2048,4096,8192,16384,32768,65536>>
Pow2(i) == P2[i + 1]
SetMax(S) == CHOOSE x \in S : \A y \in S : y <= x
SetMin(S) == CHOOSE x \in S : \A y \in S : x <= y
RECURSIVE SumSeq(_)
SumSeq(s) == IF s = <<>> THEN 0 ELSE Head(s) + SumSeq(Tail(s))
Rep(b, k) == [i \in 1..k |-> b]

(* ---------------------------------------------------------------------------------------------------- *)
(* bit patterns as 16-bit limbs                                                                           *)
(* ---------------------------------------------------------------------------------------------------- *)
LimbsOfInt(v) == <<v % 65536, (v \div 65536) % 65536>>             \* two's complement pattern of a 32-bit integer
IntOfLimbs(l) == (IF l[2] >= 32768 THEN l[2] - 65536 ELSE l[2]) * 65536 + l[1]
LimbAt(l, j)  == IF j <= Len(l) THEN l[j] ELSE 0
IsLimbs(l, k) == Len(l) = k /\ \A j \in 1..k : l[j] \in 0..65535

\* l + d (mod 2^(16*Len(l))) for a small signed d
RECURSIVE AddFrom(_, _, _)
AddFrom(l, j, c) == IF j > Len(l) \/ c = 0 THEN l
                    ELSE LET s == l[j] + c IN AddFrom([l EXCEPT ![j] = s % 65536], j + 1, s \div 65536)
AddSmall(l, d) == AddFrom(l, 1, d)
NotL(l) == [j \in 1..Len(l) |-> 65535 - l[j]]
NegL(l) == AddSmall(NotL(l), 1)
PowL(k, nl) == [j \in 1..nl |-> IF j - 1 = k \div 16 THEN Pow2(k % 16) ELSE 0]     \* 2^k

(* ---------------------------------------------------------------------------------------------------- *)
(* VarInt / VarLong: 7-bit groups, least significant first, bit 7 set on every byte but the last;       *)
(* the value is taken as an unsigned 32-/64-bit pattern, so negative numbers always need 5 / 10 bytes.  *)
(* ---------------------------------------------------------------------------------------------------- *)
MaxGroups(l) == IF Len(l) = 2 THEN 5 ELSE 10
\* bits 7k .. 7k+6 of the pattern
Group(l, k) == LET lo == 7 * k  a == lo \div 16  o == lo % 16
               IN ((LimbAt(l, a + 1) \div Pow2(o)) + (LimbAt(l, a + 2) % 128) * Pow2(16 - o)) % 128
NGroups(l) == LET nz == {k \in 0..(MaxGroups(l) - 1) : Group(l, k) # 0} IN IF nz = {} THEN 1 ELSE SetMax(nz) + 1
EncVar(l) == LET g == NGroups(l) IN [k \in 1..g |-> Group(l, k - 1) + (IF k < g THEN 128 ELSE 0)]
EncVarInt(v) == EncVar(LimbsOfInt(v))
EncVarLong(l) == EncVar(l)

\* limb j (0-based) of the pattern whose 7-bit groups are g (bits beyond the width are dropped)
LimbOfGroups(g, j) == SumSeq([k \in 1..Len(g) |->
                         LET s == 7 * (k - 1) - 16 * j IN
                         IF s > 15 \/ s < -6 THEN 0 ELSE IF s >= 0 THEN (g[k] * Pow2(s)) % 65536 ELSE g[k] \div Pow2(-s)])
Fail(pos) == [ok |-> FALSE, v |-> 0, pos |-> pos]
\* reads a VarInt (max = 5) / VarLong (max = 10) at bs[pos]; result limbs and the next position
DecVar(bs, pos, max) ==
    LET last == {j \in pos..(IF pos + max - 1 < Len(bs) THEN pos + max - 1 ELSE Len(bs)) : bs[j] < 128} IN
    IF last = {} THEN Fail(pos)                       \* truncated, or continuation bit on the 5th / 10th byte
    ELSE LET e == SetMin(last)
             g == [k \in 1..(e - pos + 1) |-> bs[pos + k - 1] % 128]
         IN [ok |-> TRUE, v |-> [j \in 1..(IF max = 5 THEN 2 ELSE 4) |-> LimbOfGroups(g, j - 1)], pos |-> e + 1]
DecVarInt(bs, pos) == LET r == DecVar(bs, pos, 5) IN IF r.ok THEN [r EXCEPT !.v = IntOfLimbs(r.v)] ELSE r

(* ---------------------------------------------------------------------------------------------------- *)
(* fixed-width big-endian numbers, bool, UUID                                                             *)
(* ---------------------------------------------------------------------------------------------------- *)
BE16(x)  == <<x \div 256, x % 256>>
BE32(l)  == BE16(l[2]) \o BE16(l[1])
BE64(l)  == BE16(l[4]) \o BE16(l[3]) \o BE16(l[2]) \o BE16(l[1])
Has(bs, pos, k) == pos + k - 1 <= Len(bs)
U16At(bs, pos) == bs[pos] * 256 + bs[pos + 1]

(* ---------------------------------------------------------------------------------------------------- *)
(* strings                                                                                                *)
(* ---------------------------------------------------------------------------------------------------- *)
\* UTF-16 code units of a UTF-8 byte sequence: one per character, two per 4-byte sequence
Units(s) == Cardinality({i \in DOMAIN s : s[i] < 128 \/ s[i] >= 192}) + Cardinality({i \in DOMAIN s : s[i] >= 240})

\* UTF-8 -> Java modified UTF-8 and back (NBT strings).  Both work chunk by chunk (what the byte at index i
\* contributes) and concatenate by halving, so that TLC's evaluation depth stays logarithmic in the length.
RECURSIVE CatRange(_, _, _, _)
CatRange(Chunk(_, _), s, a, b) == IF a > b THEN <<>> ELSE IF a = b THEN Chunk(s, a)
                                  ELSE LET m == (a + b) \div 2 IN CatRange(Chunk, s, a, m) \o CatRange(Chunk, s, m + 1, b)
Sur(u) == <<237, 128 + ((u \div 64) % 64), 128 + (u % 64)>>
\* is s[i] a continuation byte of a 4-byte sequence
InFour(s, i) == \E j \in 1..3 : i - j >= 1 /\ s[i - j] >= 240
MChunk(s, i) == IF s[i] = 0 THEN <<192, 128>>
                ELSE IF s[i] >= 240 THEN LET c == (s[i] % 8) * 262144 + (s[i + 1] % 64) * 4096 + (s[i + 2] % 64) * 64 + (s[i + 3] % 64) - 65536
                                         IN Sur(55296 + (c \div 1024)) \o Sur(56320 + (c % 1024))
                ELSE IF s[i] >= 128 /\ s[i] < 192 /\ InFour(s, i) THEN <<>>
                ELSE <<s[i]>>
MUtf8(s) == CatRange(MChunk, s, 1, Len(s))
\* does a surrogate pair (ED A0..AF xx ED B0..BF xx) start at m[i]
PairAt(m, i) == i >= 1 /\ i + 5 <= Len(m) /\ m[i] = 237 /\ m[i + 1] >= 160 /\ m[i + 1] < 176 /\ m[i + 3] = 237 /\ m[i + 4] >= 176
UChunk(m, i) == IF PairAt(m, i) THEN LET hi == 53248 + (m[i + 1] % 64) * 64 + (m[i + 2] % 64)
                                         lo == 53248 + (m[i + 4] % 64) * 64 + (m[i + 5] % 64)
                                         cp == 65536 + (hi - 55296) * 1024 + (lo - 56320)
                                     IN <<240 + (cp \div 262144), 128 + ((cp \div 4096) % 64), 128 + ((cp \div 64) % 64), 128 + (cp % 64)>>
                ELSE IF \E j \in 1..5 : PairAt(m, i - j) THEN <<>>
                ELSE IF m[i] = 192 /\ i < Len(m) /\ m[i + 1] = 128 THEN <<0>>
                ELSE IF m[i] = 128 /\ i > 1 /\ m[i - 1] = 192 THEN <<>>
                ELSE <<m[i]>>
UnMUtf8(m) == CatRange(UChunk, m, 1, Len(m))

EncPrefixed(s) == EncVarInt(Len(s)) \o s             \* String and prefixed byte array: VarInt BYTE length, then the bytes
DecPrefixed(bs, pos) == LET r == DecVarInt(bs, pos) IN
                        IF ~r.ok \/ r.v < 0 \/ ~Has(bs, r.pos, r.v) THEN Fail(pos)
                        ELSE [ok |-> TRUE, v |-> SubSeq(bs, r.pos, r.pos + r.v - 1), pos |-> r.pos + r.v]

(* text component, decision D-d *)
NbtStr(s) == LET m == MUtf8(s) IN BE16(Len(m)) \o m
DecNbtStr(bs, pos) == IF ~Has(bs, pos, 2) \/ ~Has(bs, pos + 2, U16At(bs, pos)) THEN Fail(pos)
                      ELSE LET k == U16At(bs, pos) IN [ok |-> TRUE, v |-> UnMUtf8(SubSeq(bs, pos + 2, pos + 1 + k)), pos |-> pos + 2 + k]
EncText(t) == IF t.form = "string" THEN <<8>> \o NbtStr(t.s)
              ELSE <<10, 8>> \o NbtStr(t.k) \o NbtStr(t.v) \o <<0>>
DecText(bs, pos) ==
    IF ~Has(bs, pos, 1) THEN Fail(pos)
    ELSE IF bs[pos] = 8 THEN LET r == DecNbtStr(bs, pos + 1) IN
                             IF r.ok THEN [r EXCEPT !.v = [form |-> "string", s |-> r.v]] ELSE r
    ELSE IF bs[pos] = 10 /\ Has(bs, pos, 2) /\ bs[pos + 1] = 8 THEN
         LET rk == DecNbtStr(bs, pos + 2) IN IF ~rk.ok THEN rk ELSE
         LET rv == DecNbtStr(bs, rk.pos) IN IF ~rv.ok THEN rv ELSE
         IF ~Has(bs, rv.pos, 1) \/ bs[rv.pos] # 0 THEN Fail(pos)
         ELSE [ok |-> TRUE, v |-> [form |-> "compound", k |-> rk.v, v |-> rv.v], pos |-> rv.pos + 1]
    ELSE Fail(pos)
\* the text held by the crate's String for a text component (what the harness builds the Rust value from):
\* plain text, or the compact JSON object {"k":"v"} (k, v free of JSON escapes)
TextIsModelled(t) == IF t.form = "string" THEN (t.s = <<>> \/ t.s[1] # 123) /\ Len(MUtf8(t.s)) <= 65535
                     ELSE \A i \in DOMAIN (t.k \o t.v) : (t.k \o t.v)[i] >= 32 /\ (t.k \o t.v)[i] \notin {34, 92}

(* ---------------------------------------------------------------------------------------------------- *)
(* enum ordinal tables                                                                                    *)
(* ---------------------------------------------------------------------------------------------------- *)
Enums == [State              |-> [base |-> 1, labels |-> <<"Status", "Login", "Transfer">>],
          ChatMode           |-> [base |-> 0, labels |-> <<"Enabled", "CommandsOnly", "Hidden">>],
          MainHand           |-> [base |-> 0, labels |-> <<"Left", "Right">>],
          ParticleStatus     |-> [base |-> 0, labels |-> <<"All", "Decreased", "Minimal">>],
          ResourcePackResult |-> [base |-> 0, labels |-> <<"Success", "Declined", "DownloadFailed", "Accepted", "Downloaded",
                                                            "InvalidUrl", "ReloadFailed", "Discorded">>]]
Ordinals(e)  == Enums[e].base .. (Enums[e].base + Len(Enums[e].labels) - 1)
Ordinal(e, label) == Enums[e].base - 1 + CHOOSE i \in DOMAIN Enums[e].labels : Enums[e].labels[i] = label
LabelOf(e, o) == Enums[e].labels[o - Enums[e].base + 1]
\* the ordinals just outside each table (and -1, which is 5 bytes on the wire)
OutsideOrdinals(e) == {Enums[e].base - 1, Enums[e].base + Len(Enums[e].labels), -1, -2, 0 - Len(Enums[e].labels)} \ Ordinals(e)

(* ---------------------------------------------------------------------------------------------------- *)
(* field types.  A field is [n |-> name, t |-> type, e |-> enum name or "", lim |-> UTF-16 unit limit]    *)
(*   varint  32-bit integer as VarInt            port    0..65535 as VarInt (Transfer)                   *)
(*   string  String(lim)    ident  Identifier (a String(32767))                                           *)
(*   u16 u8 i8 i32  big-endian integers          u64     four limbs, 8 bytes big-endian                   *)
(*   bool    one byte 0/1                        uuid    16 bytes                                         *)
(*   bytes   prefixed byte array                 bytes32 prefixed byte array of exactly 32 bytes (D-c)    *)
(*   optbytes / opttext   presence flag (bool), then the value if present; [some |-> FALSE] / [some |-> TRUE, v |-> x] *)
(*   text    text component (D-d)                enum    VarInt ordinal of the label                      *)
(*   noprops the empty property array of Login Success (D-b)                                              *)
(* ---------------------------------------------------------------------------------------------------- *)
Fld(nm, ty)   == [n |-> nm, t |-> ty, e |-> "", lim |-> 32767]
StrF(nm, max) == [n |-> nm, t |-> "string", e |-> "", lim |-> max]
EnumF(nm, en) == [n |-> nm, t |-> "enum", e |-> en, lim |-> 0]

EncField(f, v) ==
    CASE f.t = "varint"  -> EncVarInt(v)
      [] f.t = "port"    -> EncVarInt(v)
      [] f.t = "string"  -> EncPrefixed(v)
      [] f.t = "ident"   -> EncPrefixed(v)
      [] f.t = "u16"     -> BE16(v)
      [] f.t = "u8"      -> <<v>>
      [] f.t = "i8"      -> <<v % 256>>
      [] f.t = "i32"     -> BE32(LimbsOfInt(v))
      [] f.t = "u64"     -> BE64(v)
      [] f.t = "bool"    -> <<IF v THEN 1 ELSE 0>>
      [] f.t = "uuid"    -> v
      [] f.t = "bytes"   -> EncPrefixed(v)
      [] f.t = "bytes32" -> EncPrefixed(v)
      [] f.t = "optbytes" -> IF v.some THEN <<1>> \o EncPrefixed(v.v) ELSE <<0>>
      [] f.t = "text"    -> EncText(v)
      [] f.t = "opttext" -> IF v.some THEN <<1>> \o EncText(v.v) ELSE <<0>>
      [] f.t = "enum"    -> EncVarInt(Ordinal(f.e, v))
      [] f.t = "noprops" -> EncVarInt(0)

Opt(r) == IF r.ok THEN [r EXCEPT !.v = [some |-> TRUE, v |-> r.v]] ELSE r
DecField(f, bs, pos) ==
    CASE f.t = "varint"  -> DecVarInt(bs, pos)
      [] f.t = "port"    -> LET r == DecVarInt(bs, pos) IN IF r.ok /\ r.v \notin 0..65535 THEN Fail(pos) ELSE r
      [] f.t \in {"string", "ident"} -> LET r == DecPrefixed(bs, pos) IN IF r.ok /\ Units(r.v) > f.lim THEN Fail(pos) ELSE r
      [] f.t = "u16"     -> IF Has(bs, pos, 2) THEN [ok |-> TRUE, v |-> U16At(bs, pos), pos |-> pos + 2] ELSE Fail(pos)
      [] f.t = "u8"      -> IF Has(bs, pos, 1) THEN [ok |-> TRUE, v |-> bs[pos], pos |-> pos + 1] ELSE Fail(pos)
      [] f.t = "i8"      -> IF Has(bs, pos, 1) THEN [ok |-> TRUE, v |-> IF bs[pos] >= 128 THEN bs[pos] - 256 ELSE bs[pos], pos |-> pos + 1] ELSE Fail(pos)
      [] f.t = "i32"     -> IF Has(bs, pos, 4) THEN [ok |-> TRUE, v |-> IntOfLimbs(<<U16At(bs, pos + 2), U16At(bs, pos)>>), pos |-> pos + 4] ELSE Fail(pos)
      [] f.t = "u64"     -> IF Has(bs, pos, 8) THEN [ok |-> TRUE, v |-> <<U16At(bs, pos + 6), U16At(bs, pos + 4), U16At(bs, pos + 2), U16At(bs, pos)>>, pos |-> pos + 8] ELSE Fail(pos)
      [] f.t = "bool"    -> IF Has(bs, pos, 1) THEN [ok |-> TRUE, v |-> bs[pos] # 0, pos |-> pos + 1] ELSE Fail(pos)
      [] f.t = "uuid"    -> IF Has(bs, pos, 16) THEN [ok |-> TRUE, v |-> SubSeq(bs, pos, pos + 15), pos |-> pos + 16] ELSE Fail(pos)
      [] f.t = "bytes"   -> DecPrefixed(bs, pos)
      [] f.t = "bytes32" -> LET r == DecPrefixed(bs, pos) IN IF r.ok /\ Len(r.v) # 32 THEN Fail(pos) ELSE r
      [] f.t = "optbytes" -> IF ~Has(bs, pos, 1) THEN Fail(pos) ELSE IF bs[pos] = 0 THEN [ok |-> TRUE, v |-> [some |-> FALSE], pos |-> pos + 1]
                             ELSE Opt(DecPrefixed(bs, pos + 1))
      [] f.t = "text"    -> DecText(bs, pos)
      [] f.t = "opttext" -> IF ~Has(bs, pos, 1) THEN Fail(pos) ELSE IF bs[pos] = 0 THEN [ok |-> TRUE, v |-> [some |-> FALSE], pos |-> pos + 1]
                             ELSE Opt(DecText(bs, pos + 1))
      [] f.t = "enum"    -> LET r == DecVarInt(bs, pos) IN
                            IF ~r.ok \/ r.v \notin Ordinals(f.e) THEN Fail(pos) ELSE [r EXCEPT !.v = LabelOf(f.e, r.v)]
      [] f.t = "noprops" -> LET r == DecVarInt(bs, pos) IN IF ~r.ok \/ r.v # 0 THEN Fail(pos) ELSE [r EXCEPT !.v = <<>>]

(* ---------------------------------------------------------------------------------------------------- *)
(* the packet table: every packet struct of passage-packets/src/{handshake,status,login,configuration}.rs *)
(* with the id the protocol assigns in that phase and direction, fields in protocol order.               *)
(* ---------------------------------------------------------------------------------------------------- *)
Pk(phase, dir, type, id, fields) == [key |-> phase \o "." \o dir \o "." \o type, phase |-> phase, dir |-> dir, type |-> type, id |-> id, fields |-> fields]
SB == "serverbound"
CB == "clientbound"
Packets == <<
  Pk("handshake", SB, "HandshakePacket", 0, <<Fld("protocol_version", "varint"), StrF("server_address", 255), Fld("server_port", "u16"), EnumF("next_state", "State")>>),
  \* status
  Pk("status", CB, "StatusResponsePacket", 0, <<StrF("body", 32767)>>),
  Pk("status", CB, "PongPacket", 1, <<Fld("payload", "u64")>>),
  Pk("status", SB, "StatusRequestPacket", 0, <<>>),
  Pk("status", SB, "PingPacket", 1, <<Fld("payload", "u64")>>),
  \* login
  Pk("login", CB, "DisconnectPacket", 0, <<StrF("reason", 32767)>>),                       \* JSON text component carried as a String (login phase only)
  Pk("login", CB, "EncryptionRequestPacket", 1, <<StrF("server_id", 20), Fld("public_key", "bytes"), Fld("verify_token", "bytes32"), Fld("should_authenticate", "bool")>>),
  Pk("login", CB, "LoginSuccessPacket", 2, <<Fld("user_id", "uuid"), StrF("user_name", 16), Fld("properties", "noprops")>>),
  Pk("login", CB, "SetCompressionPacket", 3, <<>>),                                     \* placeholder (D-a)
  Pk("login", CB, "LoginPluginRequestPacket", 4, <<>>),                                 \* placeholder
  Pk("login", CB, "CookieRequestPacket", 5, <<Fld("key", "ident")>>),
  Pk("login", SB, "LoginStartPacket", 0, <<StrF("user_name", 16), Fld("user_id", "uuid")>>),
  Pk("login", SB, "EncryptionResponsePacket", 1, <<Fld("shared_secret", "bytes"), Fld("verify_token", "bytes")>>),
  Pk("login", SB, "LoginPluginResponsePacket", 2, <<>>),                                \* placeholder
  Pk("login", SB, "LoginAcknowledgedPacket", 3, <<>>),
  Pk("login", SB, "CookieResponsePacket", 4, <<Fld("key", "ident"), Fld("payload", "optbytes")>>),
  \* configuration, clientbound
  Pk("configuration", CB, "CookieRequestPacket", 0, <<Fld("key", "ident")>>),
  Pk("configuration", CB, "PluginMessagePacket", 1, <<>>),                              \* placeholder
  Pk("configuration", CB, "DisconnectPacket", 2, <<Fld("reason", "text")>>),
  Pk("configuration", CB, "FinishConfigurationPacket", 3, <<>>),
  Pk("configuration", CB, "KeepAlivePacket", 4, <<Fld("id", "u64")>>),
  Pk("configuration", CB, "PingPacket", 5, <<Fld("id", "i32")>>),
  Pk("configuration", CB, "ResetChatPacket", 6, <<>>),
  Pk("configuration", CB, "RegistryDataPacket", 7, <<>>),                               \* placeholder
  Pk("configuration", CB, "RemoveResourcePackPacket", 8, <<>>),                         \* placeholder
  Pk("configuration", CB, "AddResourcePackPacket", 9, <<Fld("uuid", "uuid"), StrF("url", 32767), StrF("hash", 40), Fld("forced", "bool"), Fld("prompt_message", "opttext")>>),
  Pk("configuration", CB, "StoreCookiePacket", 10, <<Fld("key", "ident"), Fld("payload", "bytes")>>),
  Pk("configuration", CB, "TransferPacket", 11, <<StrF("host", 32767), Fld("port", "port")>>),
  Pk("configuration", CB, "FeatureFlagsPacket", 12, <<>>),                              \* placeholder
  Pk("configuration", CB, "UpdateTagsPacket", 13, <<>>),                                \* placeholder
  Pk("configuration", CB, "KnownPacksPacket", 14, <<>>),                                \* placeholder
  Pk("configuration", CB, "CustomReportDetailsPacket", 15, <<>>),                       \* placeholder
  Pk("configuration", CB, "ServerLinksPacket", 16, <<>>),                               \* placeholder
  \* configuration, serverbound
  Pk("configuration", SB, "ClientInformationPacket", 0, <<StrF("locale", 16), Fld("view_distance", "i8"), EnumF("chat_mode", "ChatMode"), Fld("chat_colors", "bool"),
        Fld("displayed_skin_parts", "u8"), EnumF("main_hand", "MainHand"), Fld("enable_text_filtering", "bool"), Fld("allow_server_listing", "bool"),
        EnumF("particle_status", "ParticleStatus")>>),
  Pk("configuration", SB, "CookieResponsePacket", 1, <<>>),                             \* placeholder
  Pk("configuration", SB, "PluginMessagePacket", 2, <<>>),                              \* placeholder
  Pk("configuration", SB, "AckFinishConfigurationPacket", 3, <<>>),
  Pk("configuration", SB, "KeepAlivePacket", 4, <<Fld("id", "u64")>>),
  Pk("configuration", SB, "PongPacket", 5, <<Fld("id", "i32")>>),
  Pk("configuration", SB, "ResourcePackResponsePacket", 6, <<Fld("uuid", "uuid"), EnumF("result", "ResourcePackResult")>>),
  Pk("configuration", SB, "KnownPacksPacket", 7, <<>>)                                  \* placeholder
>>
PacketKeys == {Packets[i].key : i \in DOMAIN Packets}
PacketOf(key) == Packets[CHOOSE i \in DOMAIN Packets : Packets[i].key = key]
KeyOf(phase, dir, type) == phase \o "." \o dir \o "." \o type

(* ---------------------------------------------------------------------------------------------------- *)
(* Encode / Decode of packet bodies                                                                       *)
(* ---------------------------------------------------------------------------------------------------- *)
\* ov: field name -> raw bytes put in place of that field's encoding (used to build inputs with an ordinal outside its enum)
RECURSIVE EncFields(_, _, _, _)
EncFields(fs, val, ov, i) == IF i > Len(fs) THEN <<>>
                             ELSE (IF fs[i].n \in DOMAIN ov THEN ov[fs[i].n] ELSE EncField(fs[i], val[fs[i].n])) \o EncFields(fs, val, ov, i + 1)
NoRaw == [none_ |-> <<>>]
Encode(key, val) == EncFields(PacketOf(key).fields, val, NoRaw, 1)
EncodeWithRaw(key, val, field, raw) == EncFields(PacketOf(key).fields, val, field :> raw, 1)

RECURSIVE DecFields(_, _, _, _, _)
DecFields(fs, bs, pos, i, acc) ==
    IF i > Len(fs) THEN [ok |-> pos = Len(bs) + 1, v |-> acc]            \* every byte must be consumed
    ELSE LET r == DecField(fs[i], bs, pos) IN
         IF ~r.ok THEN [ok |-> FALSE, v |-> acc] ELSE DecFields(fs, bs, r.pos, i + 1, acc @@ (fs[i].n :> r.v))
Decode(key, bs) == DecFields(PacketOf(key).fields, bs, 1, 1, <<>>)
Rejects(key, bs) == ~Decode(key, bs).ok

\* is val a value of this packet type within protocol limits (the quantifier of C09)
FieldInLimits(f, v) ==
    CASE f.t \in {"string", "ident"} -> Units(v) <= f.lim
      [] f.t = "port"    -> v \in 0..65535
      [] f.t = "bytes32" -> Len(v) = 32
      [] f.t = "text"    -> TextIsModelled(v)
      [] f.t = "opttext" -> ~v.some \/ TextIsModelled(v.v)
      [] OTHER -> TRUE
InLimits(key, val) == LET fs == PacketOf(key).fields IN \A i \in DOMAIN fs : FieldInLimits(fs[i], val[fs[i].n])

(* ---------------------------------------------------------------------------------------------------- *)
(* the properties of the codec itself (checked by TLC over the domains of MC_Wire)                       *)
(* ---------------------------------------------------------------------------------------------------- *)
RoundTrip(key, val)    == LET r == Decode(key, Encode(key, val)) IN r.ok /\ r.v = val
VarIntRoundTrip(v)     == LET bs == EncVarInt(v)  r == DecVarInt(bs, 1) IN r.ok /\ r.v = v /\ r.pos = Len(bs) + 1 /\ Len(bs) <= 5
VarLongRoundTrip(l)    == LET bs == EncVarLong(l) r == DecVar(bs, 1, 10) IN r.ok /\ r.v = l /\ r.pos = Len(bs) + 1 /\ Len(bs) <= 10
VarBytesWellFormed(bs) == /\ \A i \in 1..(Len(bs) - 1) : bs[i] >= 128
                          /\ bs[Len(bs)] < 128
                          /\ (Len(bs) > 1 => bs[Len(bs)] # 0)             \* shortest form

(* ---------------------------------------------------------------------------------------------------- *)
(* hex rendering of a byte sequence (the vocabulary shared with the harness)                              *)
(* ---------------------------------------------------------------------------------------------------- *)
HexDigit == <<"0","1","2","3","4","5","6","7","8","9","a","b","c","d","e","f">>
HexTab == [b \in 0..255 |-> HexDigit[(b \div 16) + 1] \o HexDigit[(b % 16) + 1]]
RECURSIVE HexOf(_)
HexOf(s) == IF Len(s) = 0 THEN "" ELSE IF Len(s) = 1 THEN HexTab[s[1]]
            ELSE LET m == Len(s) \div 2 IN HexOf(SubSeq(s, 1, m)) \o HexOf(SubSeq(s, m + 1, Len(s)))
=============================================================================
