\* the structure of the code as found (keystream advanced on every poll): expected to FAIL, documents the finding
CONSTANTS
  Writes <- MC_WritesWQuick
  SwitchPoints = {0}
  MaxPending = 1
  ReadCaps = {8}
  PreFills = {0}
  PartialAccept = TRUE
  ArriveWhole = TRUE
  CommitOnAccept = FALSE
  MaxAbandon = 0
  Vectored = FALSE
  ReuseStalled = FALSE
SPECIFICATION Spec
INVARIANTS C05 Export
CHECK_DEADLOCK FALSE
