\* the structure of the code as found (header awaited inline in the accept loop): expected to FAIL
CONSTANTS
  Clients = {c1, c2}
  Kinds = {"goodA", "silent"}
  HeaderInTask = FALSE
  Limit = 1
  Timeout = 2
  MaxNow = 3
SPECIFICATION Spec
INVARIANTS Safety
PROPERTIES C16 C17
CHECK_DEADLOCK FALSE
