\* C20 history export (run with -simulate): the whole shape alphabet, 3 GameServers, <= 2 drops/410s per history
\* (the real watcher backs off >= 0.8 s after an error, doubling)
CONSTANTS
  Names = {"a", "b", "c"}
  Shapes <- MC_ShapesAll
  MaxWrites = 6
  MaxFaults = 2
  MaxBookmarks = 1
  MaxSteps = 8
  AppliedOnly = FALSE
SPECIFICATION Spec
INVARIANTS AllInvariants Export
CONSTRAINT ExportConstraint
CHECK_DEADLOCK FALSE
