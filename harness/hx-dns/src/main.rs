//! hx-dns: drives the REAL `passage_adapters_dns::DnsDiscoveryAdapter` against a loopback DNS server (UDP) and records what
//! readers of the adapter see after each refresh (growth of the specification: spec/DnsDiscovery.tla, judged by
//! spec/Trace_DnsDiscovery.tla; run by `bin/check extras`).
//!
//! The crate under test is built with `--cfg passage_verif`; with PASSAGE_VERIF_DNS_SERVER set its hook replaces the resolver's
//! name-server list and nothing else.  The harness only DRIVES and RECORDS.
//!
//! Input (NDJSON): one history per line as exported by MC_DnsDiscovery: {mode: "srv" | "a", port, zones: [zone...], expect}
//!   zone = {src: ok|nx|servfail, recs: [{prio, weight, port, host}], hosts: {h1, h2, self: {rc, v4: [..], v6: [..]}}}
//! All histories run concurrently, each with its own adapter instance and its own names (scenario k: `_mc._tcp.s<k>.test`,
//! `h1.s<k>.test.`, `a.s<k>.test`), against ONE server; refresh period 1 s (the smallest the adapter accepts).
//! For each epoch: the zone is switched, then the harness waits until a refresh that STARTED after the switch is over (no question
//! for this scenario for 250 ms), then reads `discover()`.
//! Output (NDJSON, same order): {mode, port, zones, got: [[{id, port, ip, prio, weight, nmeta}...] per epoch], questions: [n per epoch],
//!   afterDrop: questions seen later than 150 ms after the adapter was dropped (observed for 1.4 s), mixed: a refresh straddled a switch}
//!   id = "h1" | "h2" | "self" when the identifier is exactly "<that host's name as the SRV record / configuration spells it>:<port>",
//!   else "other:<identifier>"; prio / weight = -1 when the metadata key is absent or not a number.
use passage_adapters::discovery::DiscoveryAdapter;
use passage_adapters_dns::{DnsDiscoveryAdapter, RecordType};
use serde_json::{json, Value};
use std::collections::HashMap;
use std::net::{Ipv4Addr, Ipv6Addr};
use std::sync::{Arc, Mutex};
use std::time::{Duration, Instant};
use tokio::net::UdpSocket;

#[derive(Default)]
struct Scen {
    zone: Value,
    epoch: usize,
    /// (time ms, epoch answered from, question type, is the first question of a refresh)
    log: Vec<(u64, usize, u16, bool)>,
}

type Shared = Arc<Mutex<HashMap<usize, Scen>>>;

fn put_name(out: &mut Vec<u8>, name: &str) {
    for l in name.trim_end_matches('.').split('.') {
        out.push(l.len() as u8);
        out.extend_from_slice(l.as_bytes());
    }
    out.push(0);
}

/// one resource record: name, type, class IN, ttl 0, rdata
fn put_rr(out: &mut Vec<u8>, name: &str, ty: u16, rdata: &[u8]) {
    put_name(out, name);
    out.extend_from_slice(&ty.to_be_bytes());
    out.extend_from_slice(&1u16.to_be_bytes());
    out.extend_from_slice(&0u32.to_be_bytes());
    out.extend_from_slice(&(rdata.len() as u16).to_be_bytes());
    out.extend_from_slice(rdata);
}

fn answer(q: &[u8], shared: &Shared, t0: Instant) -> Option<Vec<u8>> {
    if q.len() < 12 {
        return None;
    }
    // question name
    let mut i = 12;
    let mut labels: Vec<String> = vec![];
    loop {
        let l = *q.get(i)? as usize;
        i += 1;
        if l == 0 {
            break;
        }
        if l & 0xc0 != 0 {
            return None;
        }
        labels.push(String::from_utf8_lossy(q.get(i..i + l)?).to_ascii_lowercase());
        i += l;
    }
    let qtype = u16::from_be_bytes([*q.get(i)?, *q.get(i + 1)?]);
    let qend = i + 4;
    let qname = labels.join(".") + ".";
    // which scenario, which host
    let k = labels.iter().find_map(|l| l.strip_prefix('s').and_then(|d| d.parse::<usize>().ok()));
    let (mut rcode, mut answers, mut n): (u8, Vec<u8>, u16) = (3, vec![], 0);
    if let Some(k) = k {
        let mut g = shared.lock().unwrap();
        if let Some(sc) = g.get_mut(&k) {
            let z = sc.zone.clone();
            let first = labels[0] == "_mc" || (labels[0] == "a" && qtype == 1);
            let t = t0.elapsed().as_millis() as u64;
            let e = sc.epoch;
            sc.log.push((t, e, qtype, first));
            let host = match labels[0].as_str() {
                "h1" => Some("h1"),
                "h2" => Some("h2"),
                "a" => Some("self"),
                _ => None,
            };
            if labels[0] == "_mc" {
                match z["src"].as_str().unwrap_or("nx") {
                    "ok" => {
                        rcode = 0;
                        if qtype == 33 {
                            for r in z["recs"].as_array().cloned().unwrap_or_default() {
                                let mut rd = vec![];
                                rd.extend_from_slice(&(r["prio"].as_u64().unwrap_or(0) as u16).to_be_bytes());
                                rd.extend_from_slice(&(r["weight"].as_u64().unwrap_or(0) as u16).to_be_bytes());
                                rd.extend_from_slice(&(r["port"].as_u64().unwrap_or(0) as u16).to_be_bytes());
                                put_name(&mut rd, &format!("{}.s{}.test.", r["host"].as_str().unwrap_or("hx"), k));
                                put_rr(&mut answers, &qname, 33, &rd);
                                n += 1;
                            }
                        }
                    }
                    "servfail" => rcode = 2,
                    _ => rcode = 3,
                }
            } else if let Some(h) = host {
                let hz = &z["hosts"][h];
                match hz["rc"].as_str().unwrap_or("nx") {
                    "ok" => {
                        rcode = 0;
                        let (key, ty) = if qtype == 1 { ("v4", 1u16) } else if qtype == 28 { ("v6", 28u16) } else { ("none", 0) };
                        for a in hz[key].as_array().cloned().unwrap_or_default() {
                            let s = a.as_str().unwrap_or("");
                            if ty == 1 {
                                if let Ok(ip) = s.parse::<Ipv4Addr>() {
                                    put_rr(&mut answers, &qname, 1, &ip.octets());
                                    n += 1;
                                }
                            } else if let Ok(ip) = s.parse::<Ipv6Addr>() {
                                put_rr(&mut answers, &qname, 28, &ip.octets());
                                n += 1;
                            }
                        }
                    }
                    "servfail" => rcode = 2,
                    _ => rcode = 3,
                }
            }
        }
    }
    let mut out = vec![];
    out.extend_from_slice(&q[0..2]);
    out.push(0x84 | (q[2] & 0x01)); // QR, AA, RD as asked
    out.push(0x80 | rcode); // RA
    out.extend_from_slice(&1u16.to_be_bytes());
    out.extend_from_slice(&n.to_be_bytes());
    out.extend_from_slice(&0u16.to_be_bytes());
    out.extend_from_slice(&0u16.to_be_bytes());
    out.extend_from_slice(q.get(12..qend)?);
    out.extend_from_slice(&answers);
    Some(out)
}

async fn wait_refresh(shared: &Shared, k: usize, t_set: u64, t0: Instant, limit_ms: u64) -> bool {
    let start = Instant::now();
    loop {
        {
            let g = shared.lock().unwrap();
            let sc = &g[&k];
            let now = t0.elapsed().as_millis() as u64;
            let started = sc.log.iter().any(|e| e.3 && e.0 > t_set);
            let last = sc.log.iter().map(|e| e.0).max().unwrap_or(0);
            if started && now >= last + 250 {
                return true;
            }
        }
        if start.elapsed().as_millis() as u64 > limit_ms {
            return false;
        }
        tokio::time::sleep(Duration::from_millis(20)).await;
    }
}

async fn run_one(k: usize, sc: Value, shared: Shared, t0: Instant) -> Value {
    let zones = sc["zones"].as_array().cloned().unwrap_or_default();
    let mode = sc["mode"].as_str().unwrap_or("srv").to_string();
    let port = sc["port"].as_u64().unwrap_or(0) as u16;
    let domain = if mode == "srv" { format!("_mc._tcp.s{k}.test") } else { format!("a.s{k}.test") };
    shared.lock().unwrap().insert(k, Scen { zone: zones.first().cloned().unwrap_or(Value::Null), epoch: 1, log: vec![] });
    let t_set0 = t0.elapsed().as_millis() as u64;
    let rt = if mode == "srv" { RecordType::Srv } else { RecordType::A { port } };
    let adapter = match DnsDiscoveryAdapter::new(domain.clone(), 1, rt).await {
        Ok(a) => a,
        Err(e) => return json!({"mode": mode, "port": port, "zones": zones, "harness_error": format!("{e:?}")}),
    };
    let mut got = vec![];
    let mut questions = vec![];
    let mut timed_out = false;
    let mut t_set = t_set0.saturating_sub(1);
    for e in 0..zones.len() {
        if e > 0 {
            let mut g = shared.lock().unwrap();
            let s = g.get_mut(&k).unwrap();
            s.zone = zones[e].clone();
            s.epoch = e + 1;
            t_set = t0.elapsed().as_millis() as u64;
        }
        if !wait_refresh(&shared, k, t_set, t0, 9000).await {
            timed_out = true;
        }
        let ts = adapter.discover().await.unwrap_or_default();
        let mut row = vec![];
        for t in ts {
            let p = t.address.port();
            let id = if mode == "srv" {
                if t.identifier == format!("h1.s{k}.test.:{p}") {
                    "h1".to_string()
                } else if t.identifier == format!("h2.s{k}.test.:{p}") {
                    "h2".to_string()
                } else {
                    format!("other:{}", t.identifier)
                }
            } else if t.identifier == format!("{domain}:{p}") {
                "self".to_string()
            } else {
                format!("other:{}", t.identifier)
            };
            let num = |key: &str| t.meta.get(key).and_then(|v| v.parse::<i64>().ok()).unwrap_or(-1);
            row.push(json!({"id": id, "port": p, "ip": t.address.ip().to_string(), "prio": num("priority"), "weight": num("weight"), "nmeta": t.meta.len()}));
        }
        got.push(Value::Array(row));
        questions.push(shared.lock().unwrap()[&k].log.iter().filter(|q| q.1 == e + 1).count());
    }
    drop(adapter);
    let dropped = t0.elapsed().as_millis() as u64;
    tokio::time::sleep(Duration::from_millis(1400)).await;
    let g = shared.lock().unwrap();
    let after = g[&k].log.iter().filter(|q| q.0 > dropped + 150).count();
    json!({"mode": mode, "port": port, "zones": zones, "got": got, "questions": questions, "afterDrop": after, "timedOut": timed_out})
}

fn main() {
    let args: Vec<String> = std::env::args().skip(1).collect();
    let (mut input, mut output) = (None, None);
    let mut it = args.iter();
    while let Some(a) = it.next() {
        match a.as_str() {
            "--in" => input = it.next().cloned(),
            "--out" => output = it.next().cloned(),
            _ => {}
        }
    }
    let text = std::fs::read_to_string(input.expect("--in")).expect("read input");
    let scs: Vec<Value> = text.lines().filter(|l| !l.trim().is_empty()).map(|l| serde_json::from_str(l).expect("json")).collect();
    let rt = tokio::runtime::Builder::new_multi_thread().worker_threads(8).enable_all().build().unwrap();
    let out = rt.block_on(async move {
        let t0 = Instant::now();
        let sock = UdpSocket::bind("127.0.0.1:0").await.expect("bind");
        let addr = sock.local_addr().unwrap();
        // SAFETY: set before any adapter (and any other thread that reads the environment) exists
        unsafe { std::env::set_var("PASSAGE_VERIF_DNS_SERVER", addr.to_string()) };
        let shared: Shared = Arc::new(Mutex::new(HashMap::new()));
        let sh = shared.clone();
        let server = tokio::spawn(async move {
            let mut buf = vec![0u8; 2048];
            loop {
                let Ok((n, from)) = sock.recv_from(&mut buf).await else { continue };
                if let Some(resp) = answer(&buf[..n], &sh, t0) {
                    let _ = sock.send_to(&resp, from).await;
                }
            }
        });
        let mut hs = vec![];
        for (k, sc) in scs.into_iter().enumerate() {
            let sh = shared.clone();
            hs.push(tokio::spawn(async move { run_one(k + 1, sc, sh, t0).await }));
            if k % 64 == 63 {
                tokio::time::sleep(Duration::from_millis(15)).await;
            }
        }
        let mut out = String::new();
        for h in hs {
            out.push_str(&h.await.unwrap_or(json!({"panic": true})).to_string());
            out.push('\n');
        }
        server.abort();
        out
    });
    std::fs::write(output.expect("--out"), out).expect("write output");
    std::process::exit(0);
}
