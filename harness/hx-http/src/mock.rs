//! A hand-rolled HTTP/1.1 mock of the session server on a loopback port.  One request per connection
//! (`Connection: close`).  It reads the request head up to CRLF CRLF, records the request line's target bytes verbatim,
//! and answers what the armed script says.
use std::sync::{Arc, Mutex};
use tokio::io::{AsyncReadExt, AsyncWriteExt};
use tokio::net::{TcpListener, TcpStream};
use tokio::sync::Notify;

#[derive(Clone, Debug, Default)]
pub struct Script {
    pub kind: String,
    pub reply_id: String,
    pub reply_name: String,
}

#[derive(Clone, Debug)]
pub struct Seen {
    pub method: String,
    pub target: Vec<u8>,
}

#[derive(Default)]
struct State {
    script: Script,
    seen: Vec<Seen>,
    open: usize, // connections accepted and not yet finished
}

pub struct Server {
    st: Arc<Mutex<State>>,
    idle: Arc<Notify>,
}

fn response(status: &str, ctype: &str, body: &[u8]) -> Vec<u8> {
    let mut r = format!("HTTP/1.1 {status}\r\nContent-Type: {ctype}\r\nContent-Length: {}\r\nConnection: close\r\n\r\n", body.len()).into_bytes();
    r.extend_from_slice(body);
    r
}

fn reply_bytes(s: &Script) -> Option<Vec<u8>> {
    let profile = serde_json::json!({"id": s.reply_id, "name": s.reply_name, "properties": []}).to_string().into_bytes();
    let err = br#"{"error":"ForbiddenOperationException","errorMessage":"scripted"}"#;
    Some(match s.kind.as_str() {
        "ok" | "slowok" => response("200 OK", "application/json", &profile),
        "204" => b"HTTP/1.1 204 No Content\r\nConnection: close\r\n\r\n".to_vec(),
        "403" => response("403 Forbidden", "application/json", err),
        "500" => response("500 Internal Server Error", "application/json", err),
        "500profile" => response("500 Internal Server Error", "application/json", &profile),
        "300profile" => response("300 Multiple Choices", "application/json", &profile),
        "garbage" => response("200 OK", "text/html", b"<html>not json</html>"),
        "empty" => response("200 OK", "application/json", b""),
        "truncated" => response("200 OK", "application/json", &profile[..profile.len() / 2]),
        "wrongshape" => response("200 OK", "application/json", br#"{"foo":1}"#),
        "emptyobj" => response("200 OK", "application/json", b"{}"),
        "errorjson" => response("200 OK", "application/json", br#"{"error":"ForbiddenOperationException","errorMessage":"Invalid token.","path":"/session/minecraft/hasJoined"}"#),
        "idonly" => response("200 OK", "application/json", format!(r#"{{"id":"{}"}}"#, s.reply_id).as_bytes()),
        "nameonly" => response("200 OK", "application/json", format!(r#"{{"name":"{}","properties":[]}}"#, s.reply_name).as_bytes()),
        "nothttp" => b"\x00\x01garbage, not an HTTP response\r\n\r\n".to_vec(),
        "close" => return None,
        other => panic!("unknown script {other}"),
    })
}

async fn serve(mut sock: TcpStream, st: Arc<Mutex<State>>) {
    let mut head = Vec::new();
    let mut buf = [0u8; 4096];
    let complete = loop {
        if head.windows(4).any(|w| w == b"\r\n\r\n") {
            break true;
        }
        if head.len() > 1 << 20 {
            break false;
        }
        match sock.read(&mut buf).await {
            Ok(0) | Err(_) => break false,
            Ok(n) => head.extend_from_slice(&buf[..n]),
        }
    };
    // request line = bytes up to the first CRLF; method = up to the first space; target = between the first and the LAST space
    let line_end = head.windows(2).position(|w| w == b"\r\n").unwrap_or(head.len());
    let line = &head[..line_end];
    let first = line.iter().position(|b| *b == b' ');
    let last = line.iter().rposition(|b| *b == b' ');
    let seen = match (first, last) {
        (Some(a), Some(b)) if a < b => Seen { method: String::from_utf8_lossy(&line[..a]).into_owned(), target: line[a + 1..b].to_vec() },
        _ => Seen { method: format!("other:malformed-request-line(complete={complete})"), target: line.to_vec() },
    };
    let script = {
        let mut g = st.lock().unwrap();
        g.seen.push(seen);
        g.script.clone()
    };
    if script.kind == "slowok" {
        // the session service takes a moment: logins that overlap in time are still separate questions
        tokio::time::sleep(std::time::Duration::from_millis(300)).await;
    }
    if let Some(bytes) = reply_bytes(&script) {
        let _ = sock.write_all(&bytes).await;
        let _ = sock.flush().await;
    }
    let _ = sock.shutdown().await;
}

impl Server {
    pub fn start(listener: TcpListener) -> Server {
        let st = Arc::new(Mutex::new(State::default()));
        let idle = Arc::new(Notify::new());
        let (st2, idle2) = (st.clone(), idle.clone());
        tokio::spawn(async move {
            loop {
                let Ok((sock, _)) = listener.accept().await else { continue };
                st2.lock().unwrap().open += 1;
                let (st3, idle3) = (st2.clone(), idle2.clone());
                tokio::spawn(async move {
                    serve(sock, st3.clone()).await;
                    st3.lock().unwrap().open -= 1;
                    idle3.notify_waiters();
                });
            }
        });
        Server { st, idle }
    }

    /// Sets what the next request(s) are answered with and forgets what was seen before.
    pub fn arm(&self, script: Script) {
        let mut g = self.st.lock().unwrap();
        g.script = script;
        g.seen.clear();
    }

    /// How many requests were received since `arm`, so far.
    pub fn seen_count(&self) -> usize {
        self.st.lock().unwrap().seen.len()
    }

    /// The requests received since `arm` (waits until no connection is being served any more).
    pub async fn take(&self) -> Vec<Seen> {
        loop {
            let waiter = self.idle.notified();
            {
                let mut g = self.st.lock().unwrap();
                if g.open == 0 {
                    return std::mem::take(&mut g.seen);
                }
            }
            let _ = tokio::time::timeout(std::time::Duration::from_millis(200), waiter).await;
        }
    }
}
