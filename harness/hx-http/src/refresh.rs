//! `hx-http refresh`: the real HttpStatusAdapter (periodic refresh into a shared cache) against a scripted upstream on
//! loopback, real time. Records when requests arrive, how each is answered, and what readers of the cache see over time
//! (judged by spec/Trace_Refresher.tla against Refresher.tla).
use passage_adapters::status::StatusAdapter;
use passage_adapters_http::HttpStatusAdapter;
use serde_json::{Value, json};
use std::sync::{Arc, Mutex};
use std::time::{Duration, Instant};
use tokio::io::{AsyncReadExt, AsyncWriteExt};
use tokio::net::TcpListener;

#[derive(Clone)]
struct Req {
    t: u64,
    kind: String,
    done: u64,
}

async fn run_one(sc: &Value) -> Value {
    let period_ms = sc["periodS"].as_u64().unwrap_or(1) * 1000;
    let script: Vec<String> = sc["script"].as_array().map(|a| a.iter().filter_map(|x| x.as_str().map(|s| s.to_string())).collect()).unwrap_or_default();
    let listener = TcpListener::bind("127.0.0.1:0").await.unwrap();
    let port = listener.local_addr().unwrap().port();
    let t0 = Instant::now();
    let reqs: Arc<Mutex<Vec<Req>>> = Arc::new(Mutex::new(vec![]));
    let r2 = reqs.clone();
    let server = tokio::spawn(async move {
        let mut k = 0usize;
        loop {
            let Ok((mut s, _)) = listener.accept().await else { break };
            let step = script.get(k).cloned().unwrap_or_else(|| script.last().cloned().unwrap_or("ok:last".into()));
            k += 1;
            let t = t0.elapsed().as_millis() as u64;
            let r3 = r2.clone();
            tokio::spawn(async move {
                let mut buf = vec![0u8; 2048];
                let mut n = 0;
                while n < buf.len() {
                    match s.read(&mut buf[n..]).await {
                        Ok(0) | Err(_) => break,
                        Ok(m) => {
                            n += m;
                            if buf[..n].windows(4).any(|w| w == b"\r\n\r\n") {
                                break;
                            }
                        }
                    }
                }
                // step: "ok:<label>" | "err500" | "garbage" | "slow:<ms>:<label>" | "null"
                let parts: Vec<&str> = step.split(':').collect();
                let (delay, kind, body, status) = match parts[0] {
                    "ok" => (0, format!("ok:{}", parts[1]), status_json(parts[1]), "200 OK"),
                    "slow" => (parts[1].parse().unwrap_or(0), format!("ok:{}", parts[2]), status_json(parts[2]), "200 OK"),
                    "null" => (0, "ok:none".to_string(), "null".to_string(), "200 OK"),
                    "err500" => (0, "err".to_string(), "oops".to_string(), "500 Internal Server Error"),
                    _ => (0, "err".to_string(), "{not json".to_string(), "200 OK"),
                };
                tokio::time::sleep(Duration::from_millis(delay)).await;
                let resp = format!("HTTP/1.1 {status}\r\ncontent-type: application/json\r\ncontent-length: {}\r\nconnection: close\r\n\r\n{body}", body.len());
                let _ = s.write_all(resp.as_bytes()).await;
                let _ = s.shutdown().await;
                r3.lock().unwrap().push(Req { t, kind, done: t0.elapsed().as_millis() as u64 });
            });
        }
    });
    let adapter = HttpStatusAdapter::new(format!("http://127.0.0.1:{port}/status"), sc["periodS"].as_u64().unwrap_or(1)).unwrap();
    let observe_ms = sc["observeMs"].as_u64().unwrap_or(4500);
    let mut seen: Vec<Value> = vec![];
    let mut last = "start".to_string();
    let addr = "127.0.0.1:1".parse().unwrap();
    while (t0.elapsed().as_millis() as u64) < observe_ms {
        let cur = match adapter.status(&addr, ("h", 1), 770).await {
            Ok(Some(s)) => s.version.name,
            Ok(None) => "none".to_string(),
            Err(_) => "error".to_string(),
        };
        if cur != last {
            seen.push(json!({"t": t0.elapsed().as_millis() as u64, "label": cur}));
            last = cur;
        }
        tokio::time::sleep(Duration::from_millis(25)).await;
    }
    drop(adapter);
    let drop_at = t0.elapsed().as_millis() as u64;
    tokio::time::sleep(Duration::from_millis(2 * period_ms + 400)).await;
    server.abort();
    let mut rs = reqs.lock().unwrap().clone();
    rs.sort_by_key(|r| r.t);
    let after = rs.iter().filter(|r| r.t > drop_at + 50).count();
    json!({"periodMs": period_ms, "script": sc["script"], "reqs": rs.iter().map(|r| json!({"t": r.t, "kind": r.kind, "done": r.done})).collect::<Vec<_>>(),
           "seen": seen, "dropAt": drop_at, "reqsAfterDrop": after})
}

fn status_json(label: &str) -> String {
    json!({"version": {"name": label, "protocol": 770}, "players": null, "description": null, "favicon": null, "enforcesSecureChat": null}).to_string()
}

pub fn main(args: &[String]) {
    let mut input = None;
    let mut output = None;
    let mut it = args.iter();
    while let Some(a) = it.next() {
        match a.as_str() {
            "--in" => input = it.next().cloned(),
            "--out" => output = it.next().cloned(),
            _ => {}
        }
    }
    let text = std::fs::read_to_string(input.expect("--in")).expect("read input");
    let scs: Vec<Value> = text.lines().filter(|l| !l.trim().is_empty()).map(|l| serde_json::from_str(l).expect("json")).collect();
    let rt = tokio::runtime::Builder::new_multi_thread().worker_threads(4).enable_all().build().unwrap();
    let out = rt.block_on(async move {
        let mut hs = vec![];
        for sc in scs {
            hs.push(tokio::spawn(async move { run_one(&sc).await }));
        }
        let mut out = String::new();
        for h in hs {
            out.push_str(&h.await.unwrap_or(json!({"panic": true})).to_string());
            out.push('\n');
        }
        out
    });
    std::fs::write(output.expect("--out"), out).expect("write output");
    std::process::exit(0);
}
