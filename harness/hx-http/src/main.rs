//! hx-http: drives the REAL `passage_adapters_http::MojangAdapter::authenticate` against a loopback mock of the session
//! server and records the raw request target it receives (C12).
//!
//! The crate under test is built with `--cfg passage_verif` (harness/.cargo/config.toml); with the environment variable
//! PASSAGE_VERIF_SESSION_SERVER set, its hook replaces scheme + authority of the has-joined URL and passes path + query
//! on exactly as the adapter built them.  The harness only DRIVES and RECORDS; judging is done by TLC
//! (spec/Trace_SessionUrl.tla parses the recorded target with the specification's parser).
//!
//! Input (NDJSON, one case per line):
//!   name    the claimed user name as an array of its UTF-8 bytes       sid     hex of the UTF-8 bytes of the server id
//!   secret  hex of the shared secret     pubkey  hex of the encoded public key
//!   script  what the mock answers: ok | 204 | 403 | 500 | 500profile | 300profile | garbage | empty | truncated |
//!           wrongshape | emptyobj | errorjson | idonly | nameonly | nothttp | close          reply_id (32 hex) / reply_name: the profile an `ok`-like answer carries
//!   (anything else, e.g. the hashlib digest, is echoed untouched in `vec`)
//! Output (NDJSON, same order):
//!   line      1-based number of the case                vec     the case exactly as given
//!   hash      bytes of what the public `minecraft_hash(sid, secret, pubkey)` returns for this connection's inputs
//!   requests  one entry per request the mock received during the call: the bytes of the request target, verbatim
//!             (between the first and the last space of the request line); [] = no request was made
//!   methods   the request methods, in the same order
//!   result    ok | err | panic | timeout                error   label of the error variant ("" when none)
//!   profile   {id (32 hex, lower case), name} of the returned profile ("" / "" when none)
//!   harness_error   the case could not be given to the adapter at all (not UTF-8, bad hex)
mod mock;
mod refresh;

use passage_adapters::authentication::{minecraft_hash, AuthenticationAdapter};
use passage_adapters_http::MojangAdapter;
use serde_json::{json, Value};
use std::net::SocketAddr;
use std::time::Duration;
use uuid::Uuid;

fn unhex(v: &Value) -> Result<Vec<u8>, String> {
    let s = v.as_str().ok_or_else(|| format!("not a hex string: {v}"))?;
    if s.len() % 2 != 0 {
        return Err(format!("odd hex length: {s}"));
    }
    (0..s.len()).step_by(2).map(|i| u8::from_str_radix(&s[i..i + 2], 16).map_err(|e| format!("bad hex {s}: {e}"))).collect()
}

fn bytes_of(v: &Value) -> Result<Vec<u8>, String> {
    v.as_array()
        .ok_or_else(|| format!("not a byte array: {v}"))?
        .iter()
        .map(|x| x.as_u64().filter(|b| *b < 256).map(|b| b as u8).ok_or_else(|| format!("not a byte: {x}")))
        .collect()
}

fn error_label(e: &passage_adapters::Error) -> String {
    match e {
        passage_adapters::Error::FailedFetch { .. } => "FailedFetch".into(),
        passage_adapters::Error::FailedParse { .. } => "FailedParse".into(),
        passage_adapters::Error::FailedInitialization { .. } => "FailedInitialization".into(),
        #[allow(unreachable_patterns)]
        other => format!("other:{}", format!("{other:?}").chars().take(40).collect::<String>()),
    }
}

struct Case {
    name: String,
    sid: String,
    secret: Vec<u8>,
    pubkey: Vec<u8>,
    script: mock::Script,
}

fn case_of(vec: &Value) -> Result<Case, String> {
    Ok(Case {
        name: String::from_utf8(bytes_of(&vec["name"])?).map_err(|_| "name is not UTF-8".to_string())?,
        sid: String::from_utf8(unhex(&vec["sid"])?).map_err(|_| "server id is not UTF-8".to_string())?,
        secret: unhex(&vec["secret"])?,
        pubkey: unhex(&vec["pubkey"])?,
        script: mock::Script {
            kind: vec["script"].as_str().ok_or("no script")?.to_string(),
            reply_id: vec["reply_id"].as_str().ok_or("no reply_id")?.to_string(),
            reply_name: vec["reply_name"].as_str().ok_or("no reply_name")?.to_string(),
        },
    })
}

fn main() {
    let args: Vec<String> = std::env::args().collect();
    if args.get(1).map(|s| s.as_str()) == Some("refresh") {
        return refresh::main(&args[2..]);
    }
    let mut input = None;
    let mut output = None;
    let mut it = args[1..].iter();
    while let Some(a) = it.next() {
        match a.as_str() {
            "--in" => input = it.next().cloned(),
            "--out" => output = it.next().cloned(),
            _ => {}
        }
    }
    std::panic::set_hook(Box::new(|_| {}));
    // the mock's port comes from the OS; the hook reads the variable on every call, but it is set before any thread exists
    let listener = std::net::TcpListener::bind("127.0.0.1:0").expect("bind loopback");
    listener.set_nonblocking(true).expect("nonblocking");
    let port = listener.local_addr().expect("local addr").port();
    unsafe { std::env::set_var("PASSAGE_VERIF_SESSION_SERVER", format!("http://127.0.0.1:{port}")) };
    for v in ["http_proxy", "HTTP_PROXY", "https_proxy", "HTTPS_PROXY", "all_proxy", "ALL_PROXY"] {
        unsafe { std::env::remove_var(v) };
    }

    let text = std::fs::read_to_string(input.expect("--in")).expect("read input");
    let rt = tokio::runtime::Builder::new_current_thread().enable_all().build().expect("runtime");
    let out = rt.block_on(async move {
        let server = mock::Server::start(tokio::net::TcpListener::from_std(listener).expect("listener"));
        let mut out = String::new();
        let client_addr: SocketAddr = "192.0.2.7:50000".parse().unwrap();
        // preflight: a plain name must reach the mock, otherwise the hook is not compiled in / not active and every
        // later observation would be "no request made"
        {
            server.arm(mock::Script { kind: "ok".into(), reply_id: "0".repeat(32), reply_name: "Preflight".into() });
            let adapter = MojangAdapter::default().with_server_id(String::new());
            let uuid = Uuid::nil();
            let _ = tokio::time::timeout(
                Duration::from_secs(20),
                adapter.authenticate(&client_addr, ("play.example.org", 25565), 767, ("Preflight", &uuid), b"", b""),
            )
            .await;
            if server.take().await.is_empty() {
                eprintln!("preflight: the mock session server received no request: the passage_verif hook is not active in this build");
                std::process::exit(3);
            }
        }
        // one adapter instance per configured server id, used for all logins with it -- as the application does
        let mut adapters: std::collections::HashMap<String, std::sync::Arc<MojangAdapter>> = std::collections::HashMap::new();
        for (k, line) in text.lines().filter(|l| !l.trim().is_empty()).enumerate() {
            let vec: Value = serde_json::from_str(line).expect("json");
            let rec = match case_of(&vec) {
                Err(e) => json!({"line": k + 1, "vec": vec, "hash": [], "requests": [], "methods": [], "result": "err", "error": "",
                                 "profile": {"id": "", "name": ""}, "harness_error": e}),
                Ok(c) if vec.get("secret2").is_some() => {
                    // TWO logins with the same claimed name that overlap in time (the service answers after 300 ms): each connection has its own
                    // shared secret, hence its own hash. Recorded as ONE observation: all requests seen, both hashes, both results.
                    let secret2 = unhex(&vec["secret2"]).unwrap_or_default();
                    let hash = std::panic::catch_unwind(|| minecraft_hash(&c.sid, &c.secret, &c.pubkey)).unwrap_or_default();
                    let hash2 = std::panic::catch_unwind(|| minecraft_hash(&c.sid, &secret2, &c.pubkey)).unwrap_or_default();
                    server.arm(c.script.clone());
                    let adapter = adapters.entry(c.sid.clone()).or_insert_with(|| std::sync::Arc::new(MojangAdapter::default().with_server_id(c.sid.clone()))).clone();
                    let uuid = Uuid::from_u128(0x0123_4567_89ab_cdef_0123_4567_89ab_cdef);
                    let mut calls = vec![];
                    for sec in [c.secret.clone(), secret2] {
                        let (adapter, name, pubkey) = (adapter.clone(), c.name.clone(), c.pubkey.clone());
                        calls.push(tokio::spawn(async move {
                            tokio::time::timeout(Duration::from_secs(20), adapter.authenticate(&client_addr, ("play.example.org", 25565), 767, (&name, &uuid), &sec, &pubkey)).await
                        }));
                        tokio::time::sleep(Duration::from_millis(40)).await;
                    }
                    let mut results = vec![];
                    for call in calls {
                        results.push(match call.await {
                            Err(_) => "panic",
                            Ok(Err(_)) => "timeout",
                            Ok(Ok(Err(_))) => "err",
                            Ok(Ok(Ok(_))) => "ok",
                        });
                    }
                    let seen = server.take().await;
                    json!({"line": k + 1, "vec": vec, "hash": hash.as_bytes(), "hash2": hash2.as_bytes(),
                           "requests": seen.iter().map(|r| json!(r.target)).collect::<Vec<_>>(),
                           "methods": seen.iter().map(|r| json!(r.method)).collect::<Vec<_>>(),
                           "result": results[0], "result2": results[1], "error": "", "profile": {"id": vec["reply_id"], "name": vec["reply_name"]}, "harness_error": ""})
                }
                Ok(c) => {
                    let hash = std::panic::catch_unwind(|| minecraft_hash(&c.sid, &c.secret, &c.pubkey)).unwrap_or_default();
                    // (every second adapter is configured twice, first with another server id: the last configuration counts)
                    let twice = c.sid.len() % 2 == 1;
                    let adapter = adapters.entry(c.sid.clone()).or_insert_with(|| std::sync::Arc::new(if twice { MojangAdapter::default().with_server_id("earlier-id".to_string()).with_server_id(c.sid.clone()) } else { MojangAdapter::default().with_server_id(c.sid.clone()) })).clone();
                    // the login BEFORE this one (another player, another secret) was given up on while its request was in flight -- what the
                    // listener's deadline does to a connection: its future is dropped 100 ms into a request the service answers after 300 ms.
                    // Whatever it left behind is none of this login's business; its own request is not part of the judged record.
                    if let Some(prev) = vec.get("abandonedBefore").and_then(|p| p.as_str()) {
                        server.arm(mock::Script { kind: "slowok".into(), reply_id: "f".repeat(32), reply_name: "Abandoned".into() });
                        let (adapter, pubkey) = (adapter.clone(), c.pubkey.clone());
                        let prev = prev.to_string();
                        let uuid = Uuid::from_u128(0xabad_0000_0000_0000_0000_0000_0000_0001);
                        let dropped = tokio::spawn(async move {
                            let _ = tokio::time::timeout(
                                Duration::from_millis(100),
                                adapter.authenticate(&client_addr, ("play.example.org", 25565), 767, (&prev, &uuid), b"abandoned-secret", &pubkey),
                            )
                            .await;
                        });
                        let _ = dropped.await;
                        // its request (if it got as far as being sent) is waited for and set aside before the judged login starts
                        let t0 = std::time::Instant::now();
                        while server.seen_count() == 0 && t0.elapsed() < Duration::from_secs(3) {
                            tokio::time::sleep(Duration::from_millis(20)).await;
                        }
                        tokio::time::sleep(Duration::from_millis(400)).await;
                        let _ = server.take().await;
                    }
                    server.arm(c.script.clone());
                    let (name, secret, pubkey) = (c.name.clone(), c.secret.clone(), c.pubkey.clone());
                    let uuid = Uuid::from_u128(0x0123_4567_89ab_cdef_0123_4567_89ab_cdef);
                    // a task of its own: a panic in the code under test is data
                    let call = tokio::spawn(async move {
                        tokio::time::timeout(
                            Duration::from_secs(20),
                            adapter.authenticate(&client_addr, ("play.example.org", 25565), 767, (&name, &uuid), &secret, &pubkey),
                        )
                        .await
                    });
                    let (result, error, profile) = match call.await {
                        Err(_) => {
                            adapters.remove(&c.sid);
                            ("panic", String::new(), None)
                        }
                        Ok(Err(_)) => ("timeout", String::new(), None),
                        Ok(Ok(Err(e))) => ("err", error_label(&e), None),
                        Ok(Ok(Ok(p))) => ("ok", String::new(), Some(p)),
                    };
                    let seen = server.take().await;
                    let profile = match profile {
                        Some(p) => json!({"id": p.id.simple().to_string(), "name": p.name}),
                        None => json!({"id": "", "name": ""}),
                    };
                    json!({"line": k + 1, "vec": vec, "hash": hash.as_bytes(),
                           "requests": seen.iter().map(|r| json!(r.target)).collect::<Vec<_>>(),
                           "methods": seen.iter().map(|r| json!(r.method)).collect::<Vec<_>>(),
                           "result": result, "error": error, "profile": profile, "harness_error": ""})
                }
            };
            out.push_str(&rec.to_string());
            out.push('\n');
        }
        out
    });
    std::fs::write(output.expect("--out"), out).expect("write output");
}
