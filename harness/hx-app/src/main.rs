//! hx-app: conformance harness for the parts of /repo that live in the root crate `passage`
//! (configuration types, construction of the Dyn* adapters from configuration).
mod cfgread;
mod routing;
mod serve;
mod tables;

fn main() {
    let args: Vec<String> = std::env::args().collect();
    let sub = args.get(1).map(|s| s.as_str()).unwrap_or("");
    match sub {
        "config" => cfgread::main(&args[2..]),
        "routing" => routing::main(&args[2..]),
        "serve" => serve::main(&args[2..]),
        "tables" => tables::main(&args[2..]),
        _ => {
            eprintln!("usage: hx-app <routing|tables> --in in.ndjson --out out.ndjson");
            std::process::exit(2);
        }
    }
}
