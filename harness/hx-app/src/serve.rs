//! `hx-app serve`: the whole application (`passage::start(Config)`) on a loopback port, configured from a
//! configuration VALUE, driven by scripted TCP clients (C14: the operator's limits and deadline reach every connection).
use hx_core::refcodec::{Cur, ref_sign};
use hx_core::tcpclient::*;
use serde_json::{Value, json};
use std::net::SocketAddr;
use std::time::{Duration, Instant, SystemTime, UNIX_EPOCH};

/// A port no other scenario of this process is given (a counter over a range below the ephemeral ports, so that neither another scenario
/// nor one of the harness's own outgoing connections can take it between this check and the bind of the code under test).
fn free_port() -> u16 {
    static NEXT: std::sync::atomic::AtomicU32 = std::sync::atomic::AtomicU32::new(0);
    let base = 12000 + (std::process::id() % 97) * 150;
    loop {
        let k = NEXT.fetch_add(1, std::sync::atomic::Ordering::Relaxed);
        let p = (base + k % 18000) as u16;
        if std::net::TcpListener::bind(("127.0.0.1", p)).is_ok() {
            return p;
        }
    }
}

async fn start_app(sc: &Value) -> Option<(u16, tokio::task::JoinHandle<()>)> {
    let port = free_port();
    let mut cfg = json!({
        "address": format!("127.0.0.1:{port}"),
        "timeout": sc["timeoutS"].as_u64().unwrap_or(3),
        "max_packet_length": sc["maxLen"].as_u64().unwrap_or(10_000),
        "auth_cookie_expiry": sc["expiry"].as_u64().unwrap_or(21_600),
        "adapters": {
            "authentication": {"fixed": {"profile": {"id": "11111111-2222-4333-8444-555555555555", "name": "Fixed"}}},
            "discovery": {"fixed": {"targets": [{"identifier": "t", "address": "10.9.8.7:25565"}]}},
        },
    });
    if let Some(s) = sc["secret"].as_str() {
        cfg["auth_secret"] = json!(s);
    }
    if sc["adapters"].is_object() {
        cfg["adapters"] = sc["adapters"].clone();
    }
    if sc["proxy"].as_bool().unwrap_or(false) {
        cfg["proxy_protocol"] = json!({"allow_v1": sc["allowV1"].as_bool().unwrap_or(true), "allow_v2": sc["allowV2"].as_bool().unwrap_or(true)});
    }
    if let Some(l) = sc["limit"].as_u64() {
        cfg["rate_limiter"] = json!({"duration": sc["durationS"].as_u64().unwrap_or(600), "limit": l});
    }
    let config: passage::config::Config = serde_json::from_value(cfg).ok()?;
    let h = tokio::spawn(async move {
        let _ = passage::start(config).await.map_err(|e| e.to_string());
    });
    for _ in 0..300 {
        if h.is_finished() {
            return None; // the application gave up (configuration refused, address in use): nobody of ours listens there
        }
        if tokio::net::TcpStream::connect(("127.0.0.1", port)).await.is_ok() {
            tokio::time::sleep(Duration::from_millis(30)).await;
            if h.is_finished() {
                return None;
            }
            return Some((port, h));
        }
        tokio::time::sleep(Duration::from_millis(10)).await;
    }
    None
}

fn now_secs() -> u64 {
    SystemTime::now().duration_since(UNIX_EPOCH).unwrap().as_secs()
}

async fn run_one(sc: &Value) -> Value {
    let Some((port, app)) = start_app(sc).await else {
        return json!({"family": sc["family"], "harnessError": "application did not start"});
    };
    let addr: SocketAddr = format!("127.0.0.1:{port}").parse().unwrap();
    let mut out = sc.clone();
    match sc["family"].as_str().unwrap_or("") {
        "C14len" => {
            let mut t = Tcp::connect(addr, None).await.unwrap();
            let o = status_exchange(&mut t, Some(sc["sentLen"].as_u64().unwrap_or(10) as usize), Duration::from_millis(1500)).await;
            out["outcome"] = json!(o);
        }
        "C14lenAt" => {
            // the configured maximum at OTHER positions of the script than the first frame: the ping of a status exchange, an ignorable
            // plugin message and the Client Information of a logged-in (encrypted) client. sentLen = value of the frame's length prefix.
            let mut t = Tcp::connect(addr, None).await.unwrap();
            let want = sc["sentLen"].as_u64().unwrap_or(9) as usize;
            let wait = Duration::from_millis(1500);
            let outcome = match sc["at"].as_str().unwrap_or("ping") {
                "ping" => {
                    let _ = t.send_frame(0, &body_handshake(770, "h", 25565, 1)).await;
                    let _ = t.send_frame(0, &[]).await;
                    match t.recv(wait).await {
                        Recv::Frame(0, _) => {
                            let mut body = 7u64.to_be_bytes().to_vec();
                            body.resize(want.saturating_sub(1).max(8), 0);
                            let _ = t.send_frame(1, &body).await;
                            match t.recv(wait).await {
                                Recv::Frame(1, _) => "served".to_string(),
                                Recv::Eof => "closed".to_string(),
                                _ => "timeout".to_string(),
                            }
                        }
                        _ => "nostatus".to_string(),
                    }
                }
                at => {
                    let o = login(&mut t, 2, "X", 1, None, "success", wait).await;
                    if o.login_success.is_none() {
                        "nologin".to_string()
                    } else {
                        let _ = t.send_frame(3, &[]).await;
                        if at == "plugin" {
                            let mut body = Vec::new();
                            hx_core::refcodec::put_string(&mut body, "minecraft:brand");
                            body.resize(want.saturating_sub(1).max(body.len()), b'v');
                            let _ = t.send_frame(2, &body).await;
                            let _ = t.send_frame(0, &body_client_info("en_US")).await;
                        } else {
                            // Client Information with a locale that makes the frame `want` bytes long (2-byte string prefix from 128 bytes on)
                            let fixed = body_client_info("").len() + 1;
                            let mut n = want.saturating_sub(fixed);
                            if n >= 128 {
                                n = n.saturating_sub(1);
                            }
                            let _ = t.send_frame(0, &body_client_info(&"a".repeat(n))).await;
                        }
                        // (no acknowledgement frame: configuration() would send a second Login Acknowledged)
                        let mut end = "timeout".to_string();
                        loop {
                            match t.recv(wait).await {
                                Recv::Frame(0x0B, _) => {
                                    end = "served".into();
                                    break;
                                }
                                Recv::Frame(2, _) => {
                                    end = "disconnect".into();
                                    break;
                                }
                                Recv::Frame(4, body) => {
                                    let _ = t.send_frame(4, &body).await;
                                }
                                Recv::Frame(_, _) => {}
                                Recv::Eof => {
                                    end = "closed".into();
                                    break;
                                }
                                Recv::Timeout => break,
                            }
                        }
                        end
                    }
                }
            };
            out["outcome"] = json!(outcome);
        }
        "C14cookie" => {
            let mut t = Tcp::connect(addr, None).await.unwrap();
            let age = sc["age"].as_u64().unwrap_or(0);
            let ip = if sc["ipMatches"].as_bool().unwrap_or(true) { "127.0.0.1:5555" } else { "10.1.1.1:5555" };
            let body = serde_json::to_vec(&json!({"timestamp": now_secs() - age, "client_addr": ip, "user_name": "Cookie", "user_id": "99999999-2222-4333-8444-555555555555",
                                                  "target": "t", "profile_properties": [], "extra": {}})).unwrap();
            // signWith: the secret the presented cookie was signed under, where it is not the configured one (default: an unrelated secret)
            let signing = if sc["secretMatches"].as_bool().unwrap_or(true) { sc["secret"].as_str().unwrap_or("").to_string() } else { sc["signWith"].as_str().unwrap_or("another secret").to_string() };
            let cookie = ref_sign(&body, signing.as_bytes());
            let stall = sc["stallS"].as_u64().unwrap_or(0);
            if stall > 0 {
                t.cookie_delay = Some(Duration::from_secs(stall));
            }
            out["stallS"] = json!(stall);
            let o = login(&mut t, 3, "Claimed", 5, Some(cookie), "encreq", Duration::from_millis(1500)).await;
            out["askedAuthCookie"] = json!(o.asked_auth_cookie);
            out["encReqAuth"] = json!(o.enc_req_auth.unwrap_or(true));
            out["reached"] = json!(o.reached);
        }
        "C14reissue" => {
            // a cookie ISSUED by one instance (configured with a long expiry) presented to another instance with the same secret and a SHORT
            // expiry, after it has become older than that: the expiry configured where the cookie is presented governs
            let mut t = Tcp::connect(addr, None).await.unwrap();
            let o = login(&mut t, 2, "Claimed", 5, None, "success", Duration::from_millis(2000)).await;
            let mut cookie: Option<Vec<u8>> = None;
            if o.login_success.is_some() {
                let c = configuration(&mut t, true, true, Duration::from_millis(2500)).await;
                for ck in c["cookies"].as_array().cloned().unwrap_or_default() {
                    if ck["key"] == "passage:authentication" {
                        cookie = Some(hx_core::refcodec::unhex(ck["payload"].as_str().unwrap_or("")));
                    }
                }
            }
            out["issued"] = json!(cookie.is_some());
            let wait_s = sc["waitS"].as_u64().unwrap_or(3);
            tokio::time::sleep(Duration::from_secs(wait_s)).await;
            let mut sc2 = sc.clone();
            sc2["expiry"] = sc["expiry2"].clone();
            match start_app(&sc2).await {
                Some((port2, app2)) => {
                    let addr2: SocketAddr = format!("127.0.0.1:{port2}").parse().unwrap();
                    let mut t2 = Tcp::connect(addr2, None).await.unwrap();
                    let o2 = login(&mut t2, 3, "Claimed", 5, cookie, "encreq", Duration::from_millis(1500)).await;
                    out["askedAuthCookie"] = json!(o2.asked_auth_cookie);
                    out["encReqAuth"] = json!(o2.enc_req_auth.unwrap_or(true));
                    app2.abort();
                }
                None => {
                    out["harnessError"] = json!("second application did not start");
                }
            }
            // in the vocabulary of C14_CookieAcceptance: age at presentation, expiry that governs
            out["age"] = json!(wait_s);
            out["stallS"] = json!(0);
            out["expiry"] = sc["expiry2"].clone();
            out["secretMatches"] = json!(true);
            out["ipMatches"] = json!(true);
        }
        "C14deadline" => {
            let mut t = Tcp::connect(addr, None).await.unwrap();
            let started = Instant::now();
            let timeout_ms = sc["timeoutS"].as_u64().unwrap_or(3) * 1000;
            match sc["behaviour"].as_str().unwrap_or("silent") {
                "silent" => {}
                "trickle" => {
                    // one byte of a valid handshake every 300 ms
                    let f = hx_core::refcodec::frame(0, &body_handshake(770, "play.example.org", 25565, 2));
                    let mut t2 = Tcp::connect(addr, None).await.unwrap();
                    std::mem::swap(&mut t, &mut t2);
                    drop(t2);
                    let begin = Instant::now();
                    for b in f.iter() {
                        if !t.send_raw(&[*b]).await || begin.elapsed().as_millis() as u64 > timeout_ms + 1500 {
                            break;
                        }
                        tokio::time::sleep(Duration::from_millis(300)).await;
                    }
                }
                // PROXY protocol on: the header arrives late (at 3/4 of the timeout), then nothing
                "late-header" => {
                    tokio::time::sleep(Duration::from_millis(timeout_ms * 3 / 4)).await;
                    let _ = t.send_raw(&proxy_v1("203.0.113.9:4000".parse().unwrap(), format!("10.0.0.1:{port}").parse().unwrap())).await;
                }
                // an over-long length prefix (five bytes that all carry the continuation bit), then an endless body
                "overlong-prefix" => {
                    let _ = t.send_raw(&[0x80, 0x80, 0x80, 0x80, 0x80]).await;
                    let junk = vec![0x41u8; 1000];
                    for _ in 0..6 {
                        if !t.send_raw(&junk).await {
                            break;
                        }
                        tokio::time::sleep(Duration::from_millis(50)).await;
                    }
                }
                // a complete five-byte prefix with the sign bit set (i32::MIN), then an endless body
                "negative-prefix" => {
                    let _ = t.send_raw(&[0x80, 0x80, 0x80, 0x80, 0x08]).await;
                    let junk = vec![0x41u8; 1000];
                    for _ in 0..6 {
                        if !t.send_raw(&junk).await {
                            break;
                        }
                        tokio::time::sleep(Duration::from_millis(50)).await;
                    }
                }
                "after-handshake" => {
                    let _ = login(&mut t, 2, "X", 1, None, "handshake", Duration::from_millis(300)).await;
                }
                "after-loginstart" => {
                    let _ = login(&mut t, 2, "X", 1, None, "loginstart", Duration::from_millis(300)).await;
                }
                "after-encreq" => {
                    let _ = login(&mut t, 2, "X", 1, None, "encreq", Duration::from_millis(800)).await;
                }
                // logs in completely, never reports client information, would echo every keep-alive forever
                _ => {
                    let o = login(&mut t, 2, "X", 1, None, "success", Duration::from_millis(1500)).await;
                    if o.login_success.is_some() {
                        let _ = configuration(&mut t, false, true, Duration::from_millis(timeout_ms + 1500)).await;
                    }
                }
            }
            let eof = t.wait_eof(Duration::from_millis(timeout_ms + 2000).saturating_sub(started.elapsed())).await;
            out["closed"] = json!(eof.is_some());
            out["closedAfterMs"] = json!(started.elapsed().as_millis() as u64);
            out["closedForGood"] = json!(if eof.is_some() { t.closed_for_good().await } else { false });
            out["timeoutMs"] = json!(timeout_ms);
        }
        "C15app" => {
            // the application's own wiring of the PROXY-protocol switches and the limiter: one connection per entry, in order
            let mut res = vec![];
            for c in sc["conns"].as_array().cloned().unwrap_or_default() {
                let mut t = Tcp::connect(addr, None).await.unwrap();
                let src: SocketAddr = c["src"].as_str().unwrap_or("203.0.113.10:40001").parse().unwrap();
                let dst: SocketAddr = format!("10.0.0.1:{port}").parse().unwrap();
                if c["hdr"] != "none" {
                    let hdr = if c["hdr"] == "v1" { proxy_v1(src, dst) } else { proxy_v2(src, dst) };
                    if res.len() % 2 == 1 {
                        t.cork();
                    }
                    let _ = t.send_raw(&hdr).await;
                }
                let o = status_exchange(&mut t, None, Duration::from_millis(1200)).await;
                res.push(json!({"hdr": c["hdr"], "src": c["src"], "outcome": o, "bytes": t.bytes_received}));
            }
            out["results"] = json!(res);
        }
        "C18app" => {
            // the application's own wiring of discovery, filters and strategy: one real login with the host name of the case; the
            // client CLAIMS another identity than the one the (fixed) authentication service vouches for
            let mut t = Tcp::connect(addr, None).await.unwrap();
            let o = login_to(&mut t, 2, sc["host"].as_str().unwrap_or("h"), 25565, "Claimed", 5, None, "success", Duration::from_millis(2500)).await;
            out["reached"] = json!(o.reached);
            out["loginName"] = json!(o.login_success.as_ref().map(|x| x.0.clone()).unwrap_or_default());
            if o.login_success.is_some() {
                let c = configuration(&mut t, true, true, Duration::from_millis(2500)).await;
                out["end"] = c["end"].clone();
                out["transfer"] = c["transfer"].clone();
            } else {
                out["end"] = json!("nologin");
            }
        }
        "C03len" => {
            // the operator's maximum frame length is about what the CLIENT may send: the server's own packets (a signed cookie with a large
            // profile, a long configured message) are not subject to it -- the player still gets the Transfer / the Disconnect
            let mut t = Tcp::connect(addr, None).await.unwrap();
            let o = login_to(&mut t, 2, "h", 25565, "Claimed", 5, None, "success", Duration::from_millis(2500)).await;
            if o.login_success.is_some() {
                let c = configuration_loc(&mut t, Some("en_US"), true, Duration::from_millis(2500)).await;
                out["end"] = c["end"].clone();
                out["cookieBytes"] = json!(c["cookies"].as_array().map(|a| a.iter().map(|k| k["payload"].as_str().unwrap_or("").len() / 2).max().unwrap_or(0)).unwrap_or(0));
                out["reasonLen"] = json!(c["reason"].as_str().map(|s| s.len()).unwrap_or(0));
            } else {
                out["end"] = json!("nologin");
            }
        }
        "C03app" => {
            // the application's own wiring of the localization configuration: nobody to be sent to, the client reports `locale`
            let mut t = Tcp::connect(addr, None).await.unwrap();
            let o = login_to(&mut t, 2, "h", 25565, "Claimed", 5, None, "success", Duration::from_millis(2500)).await;
            if o.login_success.is_some() {
                let c = configuration_loc(&mut t, sc["locale"].as_str(), true, Duration::from_millis(2500)).await;
                out["end"] = c["end"].clone();
                out["reason"] = c["reason"].clone();
            } else {
                out["end"] = json!("nologin");
            }
        }
        "C06deadline" => {
            // a client that stops at some point of the script: whatever it is owed arrives at once, then NOTHING until the server closes
            let mut t = Tcp::connect(addr, None).await.unwrap();
            match sc["behaviour"].as_str().unwrap_or("silent") {
                "silent" => {}
                "status-after-handshake" => {
                    let _ = t.send_frame(0, &body_handshake(770, "h", 25565, 1)).await;
                }
                "status-no-ping" => {
                    let _ = t.send_frame(0, &body_handshake(770, "h", 25565, 1)).await;
                    let _ = t.send_frame(0, &[]).await;
                }
                "login-after-handshake" => {
                    let _ = login(&mut t, 2, "X", 1, None, "handshake", Duration::from_millis(300)).await;
                }
                "login-after-loginstart" => {
                    let _ = login(&mut t, 2, "X", 1, None, "loginstart", Duration::from_millis(300)).await;
                }
                "login-after-session" => {
                    let _ = login(&mut t, 2, "X", 1, None, "session", Duration::from_millis(800)).await;
                }
                "transfer-after-session" => {
                    let _ = login(&mut t, 3, "X", 1, None, "session", Duration::from_millis(800)).await;
                }
                _ => {
                    let _ = login(&mut t, 2, "X", 1, None, "encreq", Duration::from_millis(800)).await;
                }
            }
            // replies to what was sent
            let mut owed = 0;
            while let Recv::Frame(_, _) = t.recv(Duration::from_millis(400)).await {
                owed += 1;
            }
            let base = t.bytes_received;
            let timeout_ms = sc["timeoutS"].as_u64().unwrap_or(2) * 1000;
            let eof = t.wait_eof(Duration::from_millis(timeout_ms + 2500)).await;
            out["owedFrames"] = json!(owed);
            out["closed"] = json!(eof.is_some());
            out["lateBytes"] = json!(t.bytes_received - base);
        }
        "C08hdr" => {
            // PROXY protocol on: the same well-formed client with its header and first frames cut into segments in different ways
            let mut res = vec![];
            for (hdrv, kind, cut) in [("v1", "status", "separate"), ("v1", "status", "coalesced"), ("v1", "status", "split"), ("v2", "status", "coalesced"),
                                      ("v2", "status", "split"), ("v1", "login", "coalesced"), ("v2", "login", "coalesced"), ("v2", "login", "separate")] {
                let mut t = Tcp::connect(addr, None).await.unwrap();
                let src: SocketAddr = "203.0.113.10:40001".parse().unwrap();
                let dst: SocketAddr = format!("10.0.0.1:{port}").parse().unwrap();
                let hdr = if hdrv == "v1" { proxy_v1(src, dst) } else { proxy_v2(src, dst) };
                match cut {
                    "coalesced" => {
                        t.cork();
                        let _ = t.send_raw(&hdr).await;
                    }
                    "split" => {
                        let _ = t.send_raw(&hdr[..hdr.len() / 2]).await;
                        tokio::time::sleep(Duration::from_millis(60)).await;
                        t.cork();
                        let _ = t.send_raw(&hdr[hdr.len() / 2..]).await;
                    }
                    _ => {
                        let _ = t.send_raw(&hdr).await;
                        tokio::time::sleep(Duration::from_millis(60)).await;
                    }
                }
                let outcome = if kind == "status" {
                    status_exchange(&mut t, None, Duration::from_millis(1500)).await
                } else {
                    let o = login(&mut t, 2, "X", 1, None, "success", Duration::from_millis(1500)).await;
                    if o.login_success.is_some() {
                        let c = configuration(&mut t, true, true, Duration::from_millis(2000)).await;
                        if c["end"] == "transfer" { "served".to_string() } else { format!("end:{}", c["end"].as_str().unwrap_or("?")) }
                    } else {
                        format!("stopped:{}", o.reached)
                    }
                };
                res.push(json!({"hdr": hdrv, "kind": kind, "cut": cut, "outcome": outcome}));
            }
            out["results"] = json!(res);
        }
        "C13app" => {
            // one announced source address, connections at chosen moments against the configured limiter
            let mut res = vec![];
            let t0 = Instant::now();
            for c in sc["conns"].as_array().cloned().unwrap_or_default() {
                tokio::time::sleep(Duration::from_millis(c["waitMs"].as_u64().unwrap_or(0))).await;
                let at = t0.elapsed().as_millis() as u64;
                let mut t = Tcp::connect(addr, None).await.unwrap();
                let src: SocketAddr = c["src"].as_str().unwrap_or("203.0.113.10:40001").parse().unwrap();
                let dst: SocketAddr = format!("10.0.0.1:{port}").parse().unwrap();
                let _ = t.send_raw(&proxy_v1(src, dst)).await;
                let o = status_exchange(&mut t, None, Duration::from_millis(600)).await;
                res.push(json!({"atMs": at, "outcome": o, "bytes": t.bytes_received}));
            }
            out["results"] = json!(res);
        }
        "C17app" => {
            // an in-flight status exchange, paused between the response and the ping, when the operator interrupts the application
            let mut t = Tcp::connect(addr, None).await.unwrap();
            let _ = t.send_frame(0, &body_handshake(770, "h", 25565, 1)).await;
            let _ = t.send_frame(0, &[]).await;
            let got_status = matches!(t.recv(Duration::from_millis(1500)).await, Recv::Frame(0, _));
            let _ = std::process::Command::new("kill").args(["-INT", &std::process::id().to_string()]).status();
            tokio::time::sleep(Duration::from_millis(400)).await;
            let returned_early = app.is_finished();
            // a connection arriving after the interrupt
            let late = match Tcp::connect(addr, None).await {
                Err(_) => ("refused".to_string(), 0usize),
                Ok(mut l) => {
                    let o = status_exchange(&mut l, None, Duration::from_millis(600)).await;
                    (o, l.bytes_received)
                }
            };
            let _ = t.send_frame(1, &7u64.to_be_bytes()).await;
            let pong = matches!(t.recv(Duration::from_millis(1500)).await, Recv::Frame(1, _));
            let mut returned = false;
            for _ in 0..60 {
                if app.is_finished() {
                    returned = true;
                    break;
                }
                tokio::time::sleep(Duration::from_millis(100)).await;
            }
            out["gotStatus"] = json!(got_status);
            out["returnedBeforeInFlightDone"] = json!(returned_early);
            out["pong"] = json!(pong);
            out["returned"] = json!(returned);
            out["lateOutcome"] = json!(late.0);
            out["lateBytes"] = json!(late.1);
        }
        _ => {}
    }
    app.abort();
    let _ = Cur::new(&[]);
    out
}

pub fn main(args: &[String]) {
    let mut input = None;
    let mut output = None;
    let mut it = args.iter();
    while let Some(a) = it.next() {
        match a.as_str() {
            "--in" => input = it.next().cloned(),
            "--out" => output = it.next().cloned(),
            _ => {}
        }
    }
    let text = std::fs::read_to_string(input.expect("--in")).expect("read input");
    let scs: Vec<Value> = text.lines().filter(|l| !l.trim().is_empty()).map(|l| serde_json::from_str(l).expect("json")).collect();
    std::panic::set_hook(Box::new(|_| {}));
    let rt = tokio::runtime::Builder::new_multi_thread().worker_threads(8).enable_all().build().unwrap();
    let out = rt.block_on(async move {
        let mut hs = vec![];
        for sc in scs {
            hs.push(tokio::spawn(async move { run_one(&sc).await }));
        }
        let mut out = String::new();
        for h in hs {
            out.push_str(&h.await.unwrap_or(json!({"family": "panic"})).to_string());
            out.push('\n');
        }
        out
    });
    std::fs::write(output.expect("--out"), out).expect("write output");
    std::process::exit(0);
}
