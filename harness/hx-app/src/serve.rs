//! `hx-app serve`: the whole application (`passage::start(Config)`) on a loopback port, configured from a
//! configuration VALUE, driven by scripted TCP clients (C14: the operator's limits and deadline reach every connection).
use hx_core::refcodec::{Cur, ref_sign};
use hx_core::tcpclient::*;
use serde_json::{Value, json};
use std::net::SocketAddr;
use std::time::{Duration, Instant, SystemTime, UNIX_EPOCH};

fn free_port() -> u16 {
    std::net::TcpListener::bind("127.0.0.1:0").unwrap().local_addr().unwrap().port()
}

async fn start_app(sc: &Value) -> Option<(u16, tokio::task::JoinHandle<()>)> {
    let port = free_port();
    let mut cfg = json!({
        "address": format!("127.0.0.1:{port}"),
        "timeout": sc["timeoutS"].as_u64().unwrap_or(3),
        "max_packet_length": sc["maxLen"].as_u64().unwrap_or(10_000),
        "auth_cookie_expiry": sc["expiry"].as_u64().unwrap_or(21_600),
        "adapters": {
            "authentication": {"fixed": {"profile": {"id": "11111111-2222-4333-8444-555555555555", "name": "Fixed"}}},
            "discovery": {"fixed": {"targets": [{"identifier": "t", "address": "10.9.8.7:25565"}]}},
        },
    });
    if let Some(s) = sc["secret"].as_str() {
        cfg["auth_secret"] = json!(s);
    }
    let config: passage::config::Config = serde_json::from_value(cfg).ok()?;
    let h = tokio::spawn(async move {
        let _ = passage::start(config).await.map_err(|e| e.to_string());
    });
    for _ in 0..300 {
        if tokio::net::TcpStream::connect(("127.0.0.1", port)).await.is_ok() {
            tokio::time::sleep(Duration::from_millis(30)).await;
            return Some((port, h));
        }
        tokio::time::sleep(Duration::from_millis(10)).await;
    }
    None
}

fn now_secs() -> u64 {
    SystemTime::now().duration_since(UNIX_EPOCH).unwrap().as_secs()
}

async fn run_one(sc: &Value) -> Value {
    let Some((port, app)) = start_app(sc).await else {
        return json!({"family": sc["family"], "harnessError": "application did not start"});
    };
    let addr: SocketAddr = format!("127.0.0.1:{port}").parse().unwrap();
    let mut out = sc.clone();
    match sc["family"].as_str().unwrap_or("") {
        "C14len" => {
            let mut t = Tcp::connect(addr, None).await.unwrap();
            let o = status_exchange(&mut t, Some(sc["sentLen"].as_u64().unwrap_or(10) as usize), Duration::from_millis(1500)).await;
            out["outcome"] = json!(o);
        }
        "C14cookie" => {
            let mut t = Tcp::connect(addr, None).await.unwrap();
            let age = sc["age"].as_u64().unwrap_or(0);
            let ip = if sc["ipMatches"].as_bool().unwrap_or(true) { "127.0.0.1:5555" } else { "10.1.1.1:5555" };
            let body = serde_json::to_vec(&json!({"timestamp": now_secs() - age, "client_addr": ip, "user_name": "Cookie", "user_id": "99999999-2222-4333-8444-555555555555",
                                                  "target": "t", "profile_properties": [], "extra": {}})).unwrap();
            let signing = if sc["secretMatches"].as_bool().unwrap_or(true) { sc["secret"].as_str().unwrap_or("").to_string() } else { "another secret".to_string() };
            let cookie = ref_sign(&body, signing.as_bytes());
            let o = login(&mut t, 3, "Claimed", 5, Some(cookie), "encreq", Duration::from_millis(1500)).await;
            out["askedAuthCookie"] = json!(o.asked_auth_cookie);
            out["encReqAuth"] = json!(o.enc_req_auth.unwrap_or(true));
            out["reached"] = json!(o.reached);
        }
        "C14deadline" => {
            let mut t = Tcp::connect(addr, None).await.unwrap();
            let started = Instant::now();
            let timeout_ms = sc["timeoutS"].as_u64().unwrap_or(3) * 1000;
            match sc["behaviour"].as_str().unwrap_or("silent") {
                "silent" => {}
                "trickle" => {
                    // one byte of a valid handshake every 300 ms
                    let f = hx_core::refcodec::frame(0, &body_handshake(770, "play.example.org", 25565, 2));
                    let mut t2 = Tcp::connect(addr, None).await.unwrap();
                    std::mem::swap(&mut t, &mut t2);
                    drop(t2);
                    let begin = Instant::now();
                    for b in f.iter() {
                        if !t.send_raw(&[*b]).await || begin.elapsed().as_millis() as u64 > timeout_ms + 1500 {
                            break;
                        }
                        tokio::time::sleep(Duration::from_millis(300)).await;
                    }
                }
                "after-handshake" => {
                    let _ = login(&mut t, 2, "X", 1, None, "handshake", Duration::from_millis(300)).await;
                }
                "after-loginstart" => {
                    let _ = login(&mut t, 2, "X", 1, None, "loginstart", Duration::from_millis(300)).await;
                }
                "after-encreq" => {
                    let _ = login(&mut t, 2, "X", 1, None, "encreq", Duration::from_millis(800)).await;
                }
                // logs in completely, never reports client information, would echo every keep-alive forever
                _ => {
                    let o = login(&mut t, 2, "X", 1, None, "success", Duration::from_millis(1500)).await;
                    if o.login_success.is_some() {
                        let _ = configuration(&mut t, false, true, Duration::from_millis(timeout_ms + 1500)).await;
                    }
                }
            }
            let eof = t.wait_eof(Duration::from_millis(timeout_ms + 2000).saturating_sub(started.elapsed())).await;
            out["closed"] = json!(eof.is_some());
            out["closedAfterMs"] = json!(started.elapsed().as_millis() as u64);
            out["timeoutMs"] = json!(timeout_ms);
        }
        _ => {}
    }
    app.abort();
    let _ = Cur::new(&[]);
    out
}

pub fn main(args: &[String]) {
    let mut input = None;
    let mut output = None;
    let mut it = args.iter();
    while let Some(a) = it.next() {
        match a.as_str() {
            "--in" => input = it.next().cloned(),
            "--out" => output = it.next().cloned(),
            _ => {}
        }
    }
    let text = std::fs::read_to_string(input.expect("--in")).expect("read input");
    let scs: Vec<Value> = text.lines().filter(|l| !l.trim().is_empty()).map(|l| serde_json::from_str(l).expect("json")).collect();
    std::panic::set_hook(Box::new(|_| {}));
    let rt = tokio::runtime::Builder::new_multi_thread().worker_threads(8).enable_all().build().unwrap();
    let out = rt.block_on(async move {
        let mut hs = vec![];
        for sc in scs {
            hs.push(tokio::spawn(async move { run_one(&sc).await }));
        }
        let mut out = String::new();
        for h in hs {
            out.push_str(&h.await.unwrap_or(json!({"family": "panic"})).to_string());
            out.push('\n');
        }
        out
    });
    std::fs::write(output.expect("--out"), out).expect("write output");
    std::process::exit(0);
}
