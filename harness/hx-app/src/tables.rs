//! `hx-app tables --in q.ndjson --out a.ndjson`: what the Rust libraries the code under test relies on say about the
//! entries of spec/RoutingData.tla (the tables there are computed with Python).  Only records; the comparison is
//! done by lib/routing_check.py, which stops with a tool error when an abstraction table is not valid.
//!   {"kind":"regex","pattern":p,"subject":s} -> {"match": bool}         regex::Regex::is_match
//!   {"kind":"count","text":t}                -> {"count": n | -1}       str::parse::<u32>
//!   {"kind":"uuid","text":t}                 -> {"uuid": canonical | "invalid"}   uuid::Uuid::parse_str
use serde_json::{Value, json};
use std::io::{BufRead, BufReader, BufWriter, Write};

pub fn main(args: &[String]) {
    let mut inp = None;
    let mut outp = None;
    let mut i = 0;
    while i + 1 < args.len() {
        match args[i].as_str() {
            "--in" => inp = Some(args[i + 1].clone()),
            "--out" => outp = Some(args[i + 1].clone()),
            _ => {}
        }
        i += 2;
    }
    let (Some(inp), Some(outp)) = (inp, outp) else {
        eprintln!("usage: hx-app tables --in q.ndjson --out a.ndjson");
        std::process::exit(2);
    };
    let rd = BufReader::new(std::fs::File::open(&inp).expect("open --in"));
    let mut wr = BufWriter::new(std::fs::File::create(&outp).expect("create --out"));
    for line in rd.lines() {
        let line = line.expect("read");
        if line.trim().is_empty() {
            continue;
        }
        let q: Value = serde_json::from_str(&line).expect("json");
        let a = match q["kind"].as_str().unwrap_or("") {
            "regex" => match regex::Regex::new(q["pattern"].as_str().unwrap_or("")) {
                Ok(r) => json!({"match": r.is_match(q["subject"].as_str().unwrap_or(""))}),
                Err(e) => json!({"match": false, "error": e.to_string()}),
            },
            "count" => match q["text"].as_str().unwrap_or("").parse::<u32>() {
                Ok(n) => json!({"count": n}),
                Err(_) => json!({"count": -1}),
            },
            "uuid" => match uuid::Uuid::parse_str(q["text"].as_str().unwrap_or("")) {
                Ok(u) => json!({"uuid": u.hyphenated().to_string()}),
                Err(_) => json!({"uuid": "invalid"}),
            },
            _ => json!({"error": "unknown kind"}),
        };
        writeln!(wr, "{a}").expect("write");
    }
    wr.flush().expect("flush");
}
