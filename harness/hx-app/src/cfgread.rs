//! `hx-app config`: runs the application's own `Config::read()` in THIS process' environment (ENV_PREFIX, CONFIG_FILE,
//! AUTH_SECRET_FILE, PASSAGE_* variables are set by the caller) and prints what it resolved, as one JSON line.
use serde_json::json;

pub fn main(_args: &[String]) {
    let out = match passage::config::Config::read() {
        Ok(c) => json!({
            "ok": true,
            "address": c.address, "timeout": c.timeout, "max_packet_length": c.max_packet_length, "auth_cookie_expiry": c.auth_cookie_expiry,
            "auth_secret": c.auth_secret.clone().unwrap_or_else(|| "<none>".into()),
            "rate_limiter": c.rate_limiter.as_ref().map(|r| json!({"duration": r.duration, "limit": r.limit})).unwrap_or(json!("none")),
            "server_id": match &c.adapters.authentication { passage::config::AuthenticationAdapter::Mojang(m) => m.server_id.clone(), _ => "<not mojang>".into() },
            "proxy_protocol": c.proxy_protocol.as_ref().map(|p| json!({"allow_v1": p.allow_v1, "allow_v2": p.allow_v2})).unwrap_or(json!("none")),
        }),
        Err(e) => json!({"ok": false, "error": e.to_string()}),
    };
    println!("{out}");
}
