//! `hx-app routing --in cases.ndjson --out obs.ndjson` (property C18).
//!
//! Every input line is one case exported by TLC from spec/MC_Routing.tla:
//!   filters   JSON value deserialised by serde into Vec<passage::config::OptionFilterAdapter>
//!   strategy  JSON value deserialised by serde into passage::config::StrategyAdapter
//!   targets   [{identifier, address, meta: [[key, value], ...]}]
//!   player    {name, uuid}
//!             (JSON written by TLC cannot spell an empty object: the string "<empty-object>" stands for {})
//!   host      host name the player connected with (goes into server_addr)
//! The adapters are built through DynFilterAdapters::from_config / DynStrategyAdapter::from_config, then
//! `filter(...)` and `select(...)` are called.  This file only records what the code did:
//!   {"line": n, "filtered": [identifiers in order], "chosen": identifier | "none", "error": "...", "panic": bool}
//! A returned target that is not one of the input targets (same identifier, address and metadata) is recorded as
//! "other:<identifier>" so that it can never equal an expected label.  No judging here.
use passage::adapter::filter::DynFilterAdapters;
use passage::adapter::strategy::DynStrategyAdapter;
use passage::config;
use passage_adapters::Target;
use passage_adapters::filter::FilterAdapter;
use passage_adapters::strategy::StrategyAdapter;
use serde_json::{Value, json};
use std::collections::HashMap;
use std::io::{BufRead, BufReader, BufWriter, Write};
use std::net::SocketAddr;
use std::panic::{AssertUnwindSafe, catch_unwind};
use uuid::Uuid;

struct Outcome {
    filtered: Vec<String>,
    chosen: String,
    error: String,
}

fn label(inputs: &[Target], t: &Target) -> String {
    let known = inputs
        .iter()
        .any(|i| i.identifier == t.identifier && i.address == t.address && i.meta == t.meta);
    if known {
        t.identifier.clone()
    } else {
        format!("other:{}", t.identifier)
    }
}

/// Decoding convention of the export: the string "<empty-object>" stands for `{}`.
fn decode(v: &Value) -> Value {
    match v {
        Value::String(s) if s == "<empty-object>" => Value::Object(Default::default()),
        Value::Array(a) => Value::Array(a.iter().map(decode).collect()),
        Value::Object(o) => Value::Object(o.iter().map(|(k, x)| (k.clone(), decode(x))).collect()),
        other => other.clone(),
    }
}

fn parse_targets(v: &Value) -> Result<Vec<Target>, String> {
    let mut out = Vec::new();
    for t in v.as_array().ok_or("targets is not an array")? {
        let identifier = t["identifier"].as_str().ok_or("target without identifier")?.to_string();
        let address: SocketAddr = t["address"]
            .as_str()
            .ok_or("target without address")?
            .parse()
            .map_err(|e| format!("target address: {e}"))?;
        let mut meta = HashMap::new();
        for kv in t["meta"].as_array().ok_or("target meta is not an array of pairs")? {
            let k = kv[0].as_str().ok_or("meta key")?;
            let val = kv[1].as_str().ok_or("meta value")?;
            meta.insert(k.to_string(), val.to_string());
        }
        out.push(Target { identifier, address, meta });
    }
    Ok(out)
}

type Built = std::sync::Arc<(DynFilterAdapters, DynStrategyAdapter)>;

/// Adapters are built ONCE per distinct configuration and shared by all cases of that configuration, the way one running router
/// serves all its logins with the adapters it built at start-up (different players and host names meet the same instances).
async fn run_case(case: &Value, targets: Vec<Target>, name: &str, id: Uuid, host: &str, cache: &mut HashMap<String, Built>) -> Outcome {
    let mut out = Outcome { filtered: vec![], chosen: "none".to_string(), error: String::new() };
    let key = format!("{}|{}", case["filters"], case["strategy"]);
    if let Some(b) = cache.get(&key).cloned() {
        return decide(&b.0, &b.1, targets, name, id, host, out).await;
    }
    // configuration -> adapter construction, exactly as passage::start does it
    let filters_cfg: Vec<config::OptionFilterAdapter> = match serde_json::from_value(decode(&case["filters"])) {
        Ok(c) => c,
        Err(e) => {
            out.error = format!("config filters: {e}");
            return out;
        }
    };
    let strategy_cfg: config::StrategyAdapter = match serde_json::from_value(decode(&case["strategy"])) {
        Ok(c) => c,
        Err(e) => {
            out.error = format!("config strategy: {e}");
            return out;
        }
    };
    let filters = match DynFilterAdapters::from_config(filters_cfg).await {
        Ok(f) => f,
        Err(e) => {
            out.error = format!("build filters: {e}");
            return out;
        }
    };
    let strategy = match DynStrategyAdapter::from_config(strategy_cfg).await {
        Ok(s) => s,
        Err(e) => {
            out.error = format!("build strategy: {e}");
            return out;
        }
    };
    let b: Built = std::sync::Arc::new((filters, strategy));
    cache.insert(key, b.clone());
    decide(&b.0, &b.1, targets, name, id, host, out).await
}

async fn decide(filters: &DynFilterAdapters, strategy: &DynStrategyAdapter, targets: Vec<Target>, name: &str, id: Uuid, host: &str, mut out: Outcome) -> Outcome {
    let client: SocketAddr = "127.0.0.1:50000".parse().unwrap();
    let inputs = targets.clone();
    let filtered = match filters.filter(&client, (host, 25565), 769, (name, &id), targets).await {
        Ok(f) => f,
        Err(e) => {
            out.error = format!("filter: {e}");
            return out;
        }
    };
    out.filtered = filtered.iter().map(|t| label(&inputs, t)).collect();
    match strategy.select(&client, (host, 25565), 769, (name, &id), filtered).await {
        Ok(Some(t)) => out.chosen = label(&inputs, &t),
        Ok(None) => {}
        Err(e) => out.error = format!("select: {e}"),
    }
    out
}

pub fn main(args: &[String]) {
    let mut inp = None;
    let mut outp = None;
    let mut i = 0;
    while i < args.len() {
        match args[i].as_str() {
            "--in" => {
                inp = args.get(i + 1).cloned();
                i += 1;
            }
            "--out" => {
                outp = args.get(i + 1).cloned();
                i += 1;
            }
            other => {
                eprintln!("unknown option {other}");
                std::process::exit(2);
            }
        }
        i += 1;
    }
    let (Some(inp), Some(outp)) = (inp, outp) else {
        eprintln!("usage: hx-app routing --in cases.ndjson --out obs.ndjson");
        std::process::exit(2);
    };
    std::panic::set_hook(Box::new(|_| {}));
    let rt = tokio::runtime::Builder::new_current_thread().enable_all().build().expect("runtime");
    let rd = BufReader::new(std::fs::File::open(&inp).expect("open --in"));
    let mut wr = BufWriter::new(std::fs::File::create(&outp).expect("create --out"));
    let mut n = 0usize;
    let mut cache: HashMap<String, Built> = HashMap::new();
    for line in rd.lines() {
        let line = line.expect("read");
        if line.trim().is_empty() {
            continue;
        }
        n += 1;
        // a case the harness itself cannot read is a tool error, not an observation
        let case: Value = serde_json::from_str(&line).unwrap_or_else(|e| {
            eprintln!("line {n}: not JSON: {e}");
            std::process::exit(3)
        });
        let targets = parse_targets(&case["targets"]).unwrap_or_else(|e| {
            eprintln!("line {n}: {e}");
            std::process::exit(3)
        });
        let name = case["player"]["name"].as_str().unwrap_or_else(|| {
            eprintln!("line {n}: player.name");
            std::process::exit(3)
        });
        let id = case["player"]["uuid"].as_str().and_then(|s| Uuid::parse_str(s).ok()).unwrap_or_else(|| {
            eprintln!("line {n}: player.uuid");
            std::process::exit(3)
        });
        let host = case["host"].as_str().unwrap_or_else(|| {
            eprintln!("line {n}: host");
            std::process::exit(3)
        });
        let res = catch_unwind(AssertUnwindSafe(|| rt.block_on(run_case(&case, targets, name, id, host, &mut cache))));
        let obs = match res {
            Ok(o) => json!({"line": n, "filtered": o.filtered, "chosen": o.chosen, "error": o.error, "panic": false}),
            Err(_) => json!({"line": n, "filtered": [], "chosen": "none", "error": "panic", "panic": true}),
        };
        writeln!(wr, "{obs}").expect("write");
    }
    wr.flush().expect("flush");
}
