// Server-side stubs of the repository's own .proto files (the adapter crate only generates clients).
fn main() -> Result<(), Box<dyn std::error::Error>> {
    let root = "/repo/passage-adapters/grpc/proto";
    let files = ["adapter", "discovery", "status", "strategy"].map(|n| format!("{root}/adapter/{n}.proto"));
    for f in &files {
        println!("cargo:rerun-if-changed={f}");
    }
    tonic_prost_build::configure()
        .protoc_arg("--experimental_allow_proto3_optional")
        .build_server(true)
        .build_client(false)
        .compile_protos(&files, &[root.to_string()])?;
    Ok(())
}
