// Server-side stubs of the service contract: the .proto files as published at the pinned commit, kept under proto/ (a service an operator
// deployed was built from those; if the repository's copy of the schema is edited, the mock still speaks the published one).
fn main() -> Result<(), Box<dyn std::error::Error>> {
    let root = format!("{}/proto", std::env::var("CARGO_MANIFEST_DIR")?);
    let files = ["adapter", "discovery", "status", "strategy"].map(|n| format!("{root}/adapter/{n}.proto"));
    for f in &files {
        println!("cargo:rerun-if-changed={f}");
    }
    tonic_prost_build::configure()
        .protoc_arg("--experimental_allow_proto3_optional")
        .build_server(true)
        .build_client(false)
        .compile_protos(&files, &[root])?;
    Ok(())
}
