//! hx-grpc: drives the REAL gRPC adapters of /repo (GrpcDiscoveryAdapter, GrpcStrategyAdapter, GrpcStatusAdapter)
//! against in-process tonic services generated from the repository's own .proto files (build.rs), one scripted
//! exchange per input line, and records what the adapter returned and what the service received.
//! It only records: every judgement is made by TLC (spec/Trace_GrpcBoundary.tla).
//!
//!   hx-grpc grpc --in scripts.ndjson --out obs.ndjson
//!
//! Input line (concrete values; the labels of the specification were replaced by lib/grpc_check.py):
//!   {"kind":"discover"|"select"|"status",
//!    "reply":{"mode":"targets"|"echo"|"target"|"none","idx":n,"targets":[{"identifier","hasaddr","host","port","meta":[[k,v]..]}..]},
//!    "candidates":[{"identifier","ip","port","meta":[[k,v]..]}..],"player":{"name","uuid"},
//!    "client":{"ip","port"},"server":{"host","port"},"protocol":n}
//! Output line:
//!   {"line":n,"result":{"ok":bool,"targets":[{"identifier","family","ip","port","meta":[[k,v] sorted]}..],"error":"..."},
//!    "request_seen":{"count":n,"candidates":[{"identifier","hasaddr","host","hostip","port","meta":[[k,v] wire order]}..],"username","user_id",
//!                    "client":{"hasaddr","host","hostip","port"},"server":{"hasaddr","host","hostip","port"},"protocol":n},
//!    (hostip: canonical text of the IP the host text denotes according to std::net, or "other")
//!    "panic":bool,"timeout":bool}
use passage_adapters::discovery::DiscoveryAdapter;
use passage_adapters::status::StatusAdapter;
use passage_adapters::strategy::StrategyAdapter;
use passage_adapters_grpc::{GrpcDiscoveryAdapter, GrpcStatusAdapter, GrpcStrategyAdapter};
use serde::Deserialize;
use serde_json::{Value, json};
use std::io::{BufRead, Write};
use std::net::{IpAddr, SocketAddr};
use std::sync::{Arc, Mutex};
use std::time::Duration;

pub mod pb {
    tonic::include_proto!("scrayosnet.passage.adapter");
}
use pb::discovery_server::{Discovery, DiscoveryServer};
use pb::status_server::{Status, StatusServer};
use pb::strategy_server::{Strategy, StrategyServer};

#[derive(Deserialize, Clone, Default)]
struct WireTarget {
    identifier: String,
    hasaddr: bool,
    host: String,
    port: u32,
    meta: Vec<(String, String)>,
}

#[derive(Deserialize, Clone, Default)]
struct Reply {
    mode: String,
    idx: usize,
    targets: Vec<WireTarget>,
}

#[derive(Deserialize)]
struct Cand {
    identifier: String,
    ip: String,
    port: u16,
    meta: Vec<(String, String)>,
}

#[derive(Deserialize)]
struct Player {
    name: String,
    uuid: String,
}

#[derive(Deserialize)]
struct IpPort {
    ip: String,
    port: u16,
}

#[derive(Deserialize)]
struct HostPort {
    host: String,
    port: u16,
}

#[derive(Deserialize)]
struct Script {
    kind: String,
    reply: Reply,
    candidates: Vec<Cand>,
    player: Player,
    client: IpPort,
    server: HostPort,
    protocol: i32,
    /// "unavailable-once": the service answers the first call of this exchange with status UNAVAILABLE (it is being restarted) and is
    /// back for any further call
    #[serde(default)]
    fault: String,
}

#[derive(Default)]
struct MockState {
    reply: Reply,
    fault_pending: bool,
    count: u64,
    seen: Option<Value>,
    /// `hx-grpc statusdata`: what the status service answers ({"has":bool,"d":{..}} in the vocabulary of spec/GrpcStatus.tla)
    statusdata: Option<Value>,
}

type Shared = Arc<Mutex<MockState>>;

fn to_pb(w: &WireTarget) -> pb::Target {
    pb::Target {
        identifier: w.identifier.clone(),
        address: if w.hasaddr { Some(pb::Address { hostname: w.host.clone(), port: w.port }) } else { None },
        meta: w.meta.iter().map(|(k, v)| pb::MetaEntry { key: k.clone(), value: v.clone() }).collect(),
    }
}

fn addr_json(a: &Option<pb::Address>) -> Value {
    match a {
        // hostip: abstraction of the host text by std::net (not by the code under test): canonical text of the IP it denotes
        Some(a) => json!({"hasaddr": true, "host": a.hostname, "port": a.port,
                          "hostip": a.hostname.parse::<IpAddr>().map(|i| i.to_string()).unwrap_or_else(|_| "other".into())}),
        None => json!({"hasaddr": false, "host": "", "port": 0, "hostip": "other"}),
    }
}

fn target_seen(t: &pb::Target) -> Value {
    let a = addr_json(&t.address);
    json!({"identifier": t.identifier, "hasaddr": a["hasaddr"], "host": a["host"], "hostip": a["hostip"], "port": a["port"],
           "meta": t.meta.iter().map(|e| json!([e.key, e.value])).collect::<Vec<_>>()})
}

fn empty_seen(count: u64) -> Value {
    json!({"count": count, "candidates": [], "username": "", "user_id": "",
           "client": addr_json(&None), "server": addr_json(&None), "protocol": 0})
}

struct Mock(Shared);

#[tonic::async_trait]
impl Discovery for Mock {
    async fn get_targets(&self, _r: tonic::Request<pb::TargetRequest>) -> Result<tonic::Response<pb::TargetsResponse>, tonic::Status> {
        let mut st = self.0.lock().unwrap();
        st.count += 1;
        st.seen = Some(empty_seen(st.count));
        if std::mem::take(&mut st.fault_pending) {
            return Err(tonic::Status::unavailable("service is restarting"));
        }
        Ok(tonic::Response::new(pb::TargetsResponse { targets: st.reply.targets.iter().map(to_pb).collect() }))
    }
}

#[tonic::async_trait]
impl Strategy for Mock {
    async fn select_target(&self, r: tonic::Request<pb::SelectRequest>) -> Result<tonic::Response<pb::SelectResponse>, tonic::Status> {
        let r = r.into_inner();
        let mut st = self.0.lock().unwrap();
        st.count += 1;
        let mut seen = empty_seen(st.count);
        seen["candidates"] = Value::Array(r.targets.iter().map(target_seen).collect());
        seen["username"] = json!(r.username);
        seen["user_id"] = json!(r.user_id);
        seen["client"] = addr_json(&r.client_address);
        seen["server"] = addr_json(&r.server_address);
        seen["protocol"] = json!(r.protocol);
        st.seen = Some(seen);
        if std::mem::take(&mut st.fault_pending) {
            return Err(tonic::Status::unavailable("service is restarting"));
        }
        let target = match st.reply.mode.as_str() {
            // the service picks the idx-th (1-based) candidate exactly as it received it
            "echo" => r.targets.get(st.reply.idx.wrapping_sub(1)).cloned(),
            "target" => st.reply.targets.first().map(to_pb),
            _ => None,
        };
        Ok(tonic::Response::new(pb::SelectResponse { target }))
    }
}

#[tonic::async_trait]
impl Status for Mock {
    async fn get_status(&self, r: tonic::Request<pb::StatusRequest>) -> Result<tonic::Response<pb::StatusResponse>, tonic::Status> {
        let r = r.into_inner();
        let mut st = self.0.lock().unwrap();
        st.count += 1;
        let mut seen = empty_seen(st.count);
        seen["client"] = addr_json(&r.client_address);
        seen["server"] = addr_json(&r.server_address);
        seen["protocol"] = json!(r.protocol);
        st.seen = Some(seen);
        let status = st.statusdata.as_ref().filter(|c| c["has"].as_bool().unwrap_or(false)).map(|c| status_concrete(&c["d"]));
        Ok(tonic::Response::new(pb::StatusResponse { status }))
    }
}

// ---- spec/GrpcStatus.tla: label <-> concrete value (fixed before the run)
const DESCR_OBJECT: &str = r#"{"text":"A \u00a7aMOTD","extra":[{"text":"x","bold":true}]}"#;
const DESCR_STRING: &str = r#""plain motd""#;
const DESCR_NOTJSON: &str = "plain motd";
const FAVICON_UTF8: &str = "data:image/png;base64,iVBORw0KGgo=";

fn status_concrete(d: &Value) -> pb::StatusData {
    let s = |v: &Value| v.as_str().unwrap_or("absent").to_string();
    pb::StatusData {
        version: if d["version"]["some"].as_bool().unwrap_or(false) {
            Some(pb::ProtocolVersion { name: s(&d["version"]["name"]), protocol: d["version"]["protocol"].as_i64().unwrap_or(0) as i32 })
        } else {
            None
        },
        players: if d["players"]["some"].as_bool().unwrap_or(false) {
            Some(pb::Players {
                online: d["players"]["online"].as_u64().unwrap_or(0) as u32,
                max: d["players"]["max"].as_u64().unwrap_or(0) as u32,
                samples: d["players"]["samples"].as_array().cloned().unwrap_or_default().iter().map(|p| pb::PlayerEntry { name: s(&p["name"]), id: s(&p["id"]) }).collect(),
            })
        } else {
            None
        },
        description: match s(&d["descr"]).as_str() {
            "object" => Some(DESCR_OBJECT.to_string()),
            "string" => Some(DESCR_STRING.to_string()),
            "notjson" => Some(DESCR_NOTJSON.to_string()),
            "empty" => Some(String::new()),
            _ => None,
        },
        favicon: match s(&d["favicon"]).as_str() {
            "utf8" => Some(FAVICON_UTF8.as_bytes().to_vec()),
            "notutf8" => Some(vec![0xff, 0xfe, 0x00, 0x41]),
            _ => None,
        },
        enforces_secure_chat: match s(&d["secure"]).as_str() {
            "yes" => Some(true),
            "no" => Some(false),
            _ => None,
        },
    }
}

/// What the adapter returned, back in the vocabulary of the specification ("other:.." for anything without a label).
fn status_abstract(st: &passage_adapters::ServerStatus) -> Value {
    let descr = match &st.description {
        None => "absent".to_string(),
        Some(r) if r.get() == DESCR_OBJECT => "object".into(),
        Some(r) if r.get() == DESCR_STRING => "string".into(),
        Some(r) => format!("other:{}", r.get()),
    };
    let favicon = match &st.favicon {
        None => "absent".to_string(),
        Some(f) if f == FAVICON_UTF8 => "utf8".into(),
        Some(f) => format!("other:{f}"),
    };
    let secure = match st.enforces_secure_chat {
        None => "absent",
        Some(true) => "yes",
        Some(false) => "no",
    };
    let players = match &st.players {
        None => json!({"some": false, "online": 0, "max": 0, "samples": []}),
        Some(p) => json!({"some": true, "online": p.online, "max": p.max,
                          "samples": p.sample.clone().unwrap_or_default().iter().map(|x| json!({"name": x.name, "id": x.id})).collect::<Vec<_>>()}),
    };
    json!({"version": {"some": true, "name": st.version.name, "protocol": st.version.protocol}, "players": players, "descr": descr, "favicon": favicon, "secure": secure})
}

fn no_status() -> Value {
    json!({"version": {"some": false, "name": "", "protocol": 0}, "players": {"some": false, "online": 0, "max": 0, "samples": []}, "descr": "absent", "favicon": "absent", "secure": "absent"})
}

async fn run_statusdata(inp: String, outp: String) {
    let listener = tokio::net::TcpListener::bind("127.0.0.1:0").await.unwrap_or_else(|e| fail(&format!("bind: {e}")));
    let addr = listener.local_addr().unwrap();
    let shared: Shared = Arc::new(Mutex::new(MockState::default()));
    let s3 = shared.clone();
    tokio::spawn(async move {
        let _ = tonic::transport::Server::builder().add_service(StatusServer::new(Mock(s3))).serve_with_incoming(tokio_stream::wrappers::TcpListenerStream::new(listener)).await;
    });
    let stat = Arc::new(GrpcStatusAdapter::new(format!("http://{addr}")).await.unwrap_or_else(|e| fail(&format!("status adapter: {e}"))));
    let text = std::fs::read_to_string(&inp).unwrap_or_else(|e| fail(&format!("{inp}: {e}")));
    let mut out = String::new();
    let client: SocketAddr = "203.0.113.7:40123".parse().unwrap();
    for (k, line) in text.lines().filter(|l| !l.trim().is_empty()).enumerate() {
        let case: Value = serde_json::from_str(line).unwrap_or_else(|e| fail(&format!("line {}: {e}", k + 1)));
        {
            let mut st = shared.lock().unwrap();
            st.statusdata = Some(case.clone());
            st.count = 0;
            st.seen = None;
        }
        let s = stat.clone();
        let h = tokio::spawn(async move { s.status(&client, ("play.example.org", 25565), 769).await });
        let got = match tokio::time::timeout(Duration::from_secs(20), h).await {
            Ok(Ok(Ok(Some(st)))) => json!({"ok": true, "some": true, "st": status_abstract(&st), "error": ""}),
            Ok(Ok(Ok(None))) => json!({"ok": true, "some": false, "st": no_status(), "error": ""}),
            Ok(Ok(Err(e))) => json!({"ok": false, "some": false, "st": no_status(), "error": e.to_string()}),
            Ok(Err(e)) => json!({"ok": false, "some": false, "st": no_status(), "error": format!("PANIC {e}"), "panic": true}),
            Err(_) => json!({"ok": false, "some": false, "st": no_status(), "error": "TIMEOUT", "timeout": true}),
        };
        let seen = shared.lock().unwrap().seen.take().unwrap_or_else(|| empty_seen(0));
        out.push_str(&json!({"line": k + 1, "has": case["has"], "d": case["d"], "got": got, "seen": seen}).to_string());
        out.push('\n');
    }
    std::fs::write(&outp, out).unwrap_or_else(|e| fail(&format!("{outp}: {e}")));
}

fn target_out(t: &passage_adapters::Target) -> Value {
    let mut meta: Vec<(&String, &String)> = t.meta.iter().collect();
    meta.sort();
    json!({"identifier": t.identifier,
           "family": if t.address.is_ipv4() { "v4" } else { "v6" },
           "ip": t.address.ip().to_string(),
           "port": t.address.port(),
           "meta": meta.iter().map(|(k, v)| json!([k, v])).collect::<Vec<_>>()})
}

fn result_json(r: Result<Vec<passage_adapters::Target>, passage_adapters::Error>) -> Value {
    match r {
        Ok(ts) => json!({"ok": true, "targets": ts.iter().map(target_out).collect::<Vec<_>>(), "error": ""}),
        Err(e) => json!({"ok": false, "targets": [], "error": e.to_string()}),
    }
}

fn fail(msg: &str) -> ! {
    eprintln!("hx-grpc: {msg}");
    std::process::exit(2);
}

fn parse_ip(s: &str) -> IpAddr {
    // router-side values are given in canonical text; a failure here is a defect of the script, not of the code under test
    s.parse().unwrap_or_else(|_| fail(&format!("script carries a router-side address that is not an IP literal: {s:?}")))
}

async fn run(inp: String, outp: String) {
    let listener = tokio::net::TcpListener::bind("127.0.0.1:0").await.unwrap_or_else(|e| fail(&format!("bind: {e}")));
    let addr = listener.local_addr().unwrap();
    let shared: Shared = Arc::new(Mutex::new(MockState::default()));
    let (s1, s2, s3) = (shared.clone(), shared.clone(), shared.clone());
    tokio::spawn(async move {
        let r = tonic::transport::Server::builder()
            .add_service(DiscoveryServer::new(Mock(s1)))
            // the strategy service accepts requests far beyond the default 4 MiB (long candidate lists with bulky metadata)
            .add_service(StrategyServer::new(Mock(s2)).max_decoding_message_size(256 << 20))
            .add_service(StatusServer::new(Mock(s3)))
            .serve_with_incoming(tokio_stream::wrappers::TcpListenerStream::new(listener))
            .await;
        if let Err(e) = r {
            fail(&format!("mock server: {e}"));
        }
    });
    let url = format!("http://{addr}");
    let disc = Arc::new(GrpcDiscoveryAdapter::new(url.clone()).await.unwrap_or_else(|e| fail(&format!("discovery adapter: {e}"))));
    let strat = Arc::new(GrpcStrategyAdapter::new(url.clone()).await.unwrap_or_else(|e| fail(&format!("strategy adapter: {e}"))));
    let stat = Arc::new(GrpcStatusAdapter::new(url.clone()).await.unwrap_or_else(|e| fail(&format!("status adapter: {e}"))));

    let fin = std::io::BufReader::new(std::fs::File::open(&inp).unwrap_or_else(|e| fail(&format!("{inp}: {e}"))));
    let mut fout = std::io::BufWriter::new(std::fs::File::create(&outp).unwrap_or_else(|e| fail(&format!("{outp}: {e}"))));
    let mut n = 0u64;
    for line in fin.lines() {
        let line = line.unwrap_or_else(|e| fail(&format!("read: {e}")));
        if line.trim().is_empty() {
            continue;
        }
        n += 1;
        let sc: Script = serde_json::from_str(&line).unwrap_or_else(|e| fail(&format!("line {n}: {e}")));
        {
            let mut st = shared.lock().unwrap();
            st.reply = sc.reply.clone();
            st.fault_pending = sc.fault == "unavailable-once";
            st.count = 0;
            st.seen = None;
        }
        let client = SocketAddr::new(parse_ip(&sc.client.ip), sc.client.port);
        let server_host = sc.server.host.clone();
        let server_port = sc.server.port;
        let protocol = sc.protocol;
        let handle = match sc.kind.as_str() {
            "discover" => {
                let d = disc.clone();
                tokio::spawn(async move { result_json(d.discover().await) })
            }
            "select" => {
                let s = strat.clone();
                let name = sc.player.name.clone();
                let uuid = uuid::Uuid::parse_str(&sc.player.uuid).unwrap_or_else(|e| fail(&format!("line {n}: uuid: {e}")));
                let cands: Vec<passage_adapters::Target> = sc
                    .candidates
                    .iter()
                    .map(|c| passage_adapters::Target {
                        identifier: c.identifier.clone(),
                        address: SocketAddr::new(parse_ip(&c.ip), c.port),
                        meta: c.meta.iter().cloned().collect(),
                    })
                    .collect();
                tokio::spawn(async move {
                    let r = s.select(&client, (server_host.as_str(), server_port), protocol, (name.as_str(), &uuid), cands).await;
                    result_json(r.map(|o| o.into_iter().collect()))
                })
            }
            "status" => {
                let s = stat.clone();
                tokio::spawn(async move {
                    match s.status(&client, (server_host.as_str(), server_port), protocol).await {
                        Ok(_) => json!({"ok": true, "targets": [], "error": ""}),
                        Err(e) => json!({"ok": false, "targets": [], "error": e.to_string()}),
                    }
                })
            }
            other => fail(&format!("line {n}: unknown kind {other}")),
        };
        let abort = handle.abort_handle();
        let (result, panic, timeout) = match tokio::time::timeout(Duration::from_secs(20), handle).await {
            Ok(Ok(v)) => (v, false, false),
            Ok(Err(e)) => (json!({"ok": false, "targets": [], "error": format!("PANIC {e}")}), e.is_panic(), false),
            Err(_) => {
                abort.abort();
                (json!({"ok": false, "targets": [], "error": "TIMEOUT"}), false, true)
            }
        };
        let seen = shared.lock().unwrap().seen.take().unwrap_or_else(|| empty_seen(0));
        let rec = json!({"line": n, "result": result, "request_seen": seen, "panic": panic, "timeout": timeout});
        writeln!(fout, "{rec}").unwrap_or_else(|e| fail(&format!("write: {e}")));
    }
    fout.flush().unwrap_or_else(|e| fail(&format!("write: {e}")));
}

fn main() {
    let args: Vec<String> = std::env::args().collect();
    let sub = args.get(1).map(String::as_str).unwrap_or("");
    if sub != "grpc" && sub != "statusdata" {
        fail("usage: hx-grpc grpc|statusdata --in scripts.ndjson --out obs.ndjson");
    }
    let mut inp = None;
    let mut outp = None;
    let mut i = 2;
    while i + 1 < args.len() {
        match args[i].as_str() {
            "--in" => inp = Some(args[i + 1].clone()),
            "--out" => outp = Some(args[i + 1].clone()),
            other => fail(&format!("unknown option {other}")),
        }
        i += 2;
    }
    let (Some(inp), Some(outp)) = (inp, outp) else { fail("--in and --out are required") };
    // panics of the code under test are data, not noise
    std::panic::set_hook(Box::new(|_| {}));
    let rt = tokio::runtime::Builder::new_current_thread().enable_all().build().unwrap_or_else(|e| fail(&format!("runtime: {e}")));
    if sub == "statusdata" {
        rt.block_on(run_statusdata(inp, outp));
    } else {
        rt.block_on(run(inp, outp));
    }
}
