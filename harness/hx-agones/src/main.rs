//! hx-agones: C20 conformance harness.  Replays API-level histories exported by TLC from
//! /verif/spec/MC_Agones.tla into the real `AgonesDiscoveryAdapter` through a loopback mock of the
//! Kubernetes API (LIST + chunked WATCH of agones.dev/v1 GameServers) and RECORDS what `discover()`
//! offered after every step.  It does not judge: the recorded file is judged by TLC (Trace_Agones.tla).
//!
//! usage: hx-agones agones --in histories.ndjson --out obs.ndjson [--threads N]
//!
//! Input line:   {"steps":[{"k","n","o":{"state","addr","ports","meta"}}...], "expectAfter":[{"judged":bool,"set":[...]}...]}
//! Output line:  {"line":n, "steps":[...executed...], "offered":[[{"id","ip","port","state","meta"}...]...], "held":[[...]...],
//!                "converged_ms":[...], "converged":[bool...], "panic":bool, "stuck":"", "ns":..., "reqs":[...]}
//! `offered[i]` is the last value of `discover()` after step i (sorted); `held[i]` is, for a "list" step, the value of
//! `discover()` while the LIST request was outstanding (received by the mock, not yet answered), else empty.  The expectation is carried only to
//! know when polling may stop early; a history is abandoned after the first step that did not converge.
mod mock;

use mock::{Mock, Step};
use passage_adapters::discovery::DiscoveryAdapter;
use passage_adapters_agones::{AgonesDiscoveryAdapter, watcher_config};
use serde_json::{Value, json};
use std::cell::Cell;
use std::collections::BTreeMap;
use std::sync::atomic::{AtomicUsize, Ordering};
use std::sync::{Arc, Mutex};
use std::time::{Duration, Instant};

// ------------------------------------------------------------------------------------------------
// ABSTRACTION: label <-> concrete value, fixed before the run (see spec/AgonesProps.tla)
// ------------------------------------------------------------------------------------------------
pub const ADDRS: &[(&str, &str)] = &[
    ("A1", "10.0.0.1"),
    ("A2", "10.0.0.2"),
    ("A6", "fd00::6"),
    ("bad", "node-1.cluster.internal"), // a host name: not an IP address
    ("none", ""),                       // not scheduled yet
];

pub fn addr_concrete(label: &str) -> String {
    ADDRS.iter().find(|(l, _)| *l == label).map(|(_, c)| c.to_string()).unwrap_or_else(|| format!("unlabelled-{label}"))
}

fn addr_label(ip: &std::net::IpAddr) -> String {
    let s = ip.to_string();
    ADDRS.iter().find(|(_, c)| *c == s).map(|(l, _)| l.to_string()).unwrap_or_else(|| format!("other:{s}"))
}

// ports: [n, ...] <-> status.ports = [{"name": "p0", "port": n}, ...] in that order; the empty list is spelled
// `"ports": null` (state Creating), key absent (state Ready) or `[]` (all other states), see mock::game_server.

/// The parts of a GameServer that make up metadata version `label`: (labels, annotations, counters, lists).
pub fn meta_concrete(label: &str) -> (Value, Value, Value, Value) {
    match label {
        "m1" => (
            json!({"tier": "gold"}),
            json!({"agones.dev/ready-container-id": "c-1"}),
            json!({"players": {"count": 3, "capacity": 10}}),
            json!({"maps": {"capacity": 4, "values": ["de_dust", "cs_office"]}}),
        ),
        "m2" => (
            json!({"tier": "silver", "region": "eu"}),
            json!({"agones.dev/ready-container-id": "c-2"}),
            json!({"players": {"count": 7, "capacity": 10}, "rooms": {"capacity": 2}}),
            // an empty list as the API server spells it (a nil Go slice)
            json!({"maps": {"capacity": 4, "values": null}}),
        ),
        _ => (json!({}), json!({}), json!({}), json!({})),
    }
}

/// The string map the adapter documents for a metadata version (without the "state" key).
fn meta_expected(label: &str) -> BTreeMap<String, String> {
    let kv: &[(&str, &str)] = match label {
        "m1" => &[("tier", "gold"), ("agones.dev/ready-container-id", "c-1"), ("players", "3"), ("maps", "de_dust,cs_office")],
        "m2" => &[("tier", "silver"), ("region", "eu"), ("agones.dev/ready-container-id", "c-2"), ("players", "7"), ("rooms", "0"), ("maps", "")],
        _ => &[],
    };
    kv.iter().map(|(k, v)| (k.to_string(), v.to_string())).collect()
}

fn meta_label(meta: &std::collections::HashMap<String, String>) -> String {
    let rest: BTreeMap<String, String> = meta.iter().filter(|(k, _)| k.as_str() != "state").map(|(k, v)| (k.clone(), v.clone())).collect();
    for l in ["m1", "m2"] {
        if rest == meta_expected(l) {
            return l.to_string();
        }
    }
    format!("other:{}", rest.iter().map(|(k, v)| format!("{k}={v}")).collect::<Vec<_>>().join(";"))
}

type Offered = Vec<(String, String, u16, String, String)>;

fn abstract_targets(ts: &[passage_adapters::Target]) -> Offered {
    let mut v: Offered = ts
        .iter()
        .map(|t| {
            (
                t.identifier.clone(),
                addr_label(&t.address.ip()),
                t.address.port(),
                t.meta.get("state").cloned().unwrap_or_else(|| "other:missing".to_string()),
                meta_label(&t.meta),
            )
        })
        .collect();
    v.sort();
    v
}

fn offered_json(o: &Offered) -> Value {
    Value::Array(o.iter().map(|(id, ip, port, state, meta)| json!({"id": id, "ip": ip, "port": port, "state": state, "meta": meta})).collect())
}

fn expectation(e: &Value) -> Offered {
    let mut v: Offered = e["set"]
        .as_array()
        .map(|a| {
            a.iter()
                .map(|x| {
                    (
                        x["id"].as_str().unwrap_or("").to_string(),
                        x["ip"].as_str().unwrap_or("").to_string(),
                        x["port"].as_u64().unwrap_or(0) as u16,
                        x["state"].as_str().unwrap_or("").to_string(),
                        x["meta"].as_str().unwrap_or("").to_string(),
                    )
                })
                .collect()
        })
        .unwrap_or_default();
    v.sort();
    v
}

// ------------------------------------------------------------------------------------------------
// one history
// ------------------------------------------------------------------------------------------------
thread_local! { static PANICKED: Cell<bool> = const { Cell::new(false) }; }
static ENV_LOCK: Mutex<()> = Mutex::new(());

// Per step, from the moment the step was applied.  The watcher sleeps 0.8-1.6 s after an error (reset, 410, an event it
// cannot deserialize), 1.6-3.2 s after the next one in a row, 3.2-6.4 s after a third; while it sleeps after a reset / 410
// the mock is not `synced` and the wait is extended anyway, but an undeserializable event leaves the connection up.
const PATIENCE: Duration = Duration::from_millis(30000);
const AFTER_SYNC: Duration = Duration::from_millis(2000); // ... and at least this long after the mock had delivered everything
const HARD_CAP: Duration = Duration::from_millis(90000);
const STABLE_FOR: Duration = Duration::from_millis(10000); // a wrong offer is only recorded once it has not changed for this long
const RELIST_PATIENCE: Duration = Duration::from_millis(15000);
const STEP_WAIT: Duration = Duration::from_millis(60000); // waiting for the client to (re)connect / ask for the LIST

async fn run_history(line: usize, hist: &Value, dir: &str) -> Value {
    let ns: Option<String> = if line % 2 == 0 { Some("games".to_string()) } else { None };
    let nsname = ns.clone().unwrap_or_else(|| "default".to_string());
    let mock = Mock::start(&nsname).await;
    let cfg_path = format!("{dir}/kubeconfig-{line}.yaml");
    let cfg = format!(
        "apiVersion: v1\nkind: Config\nclusters:\n- name: c\n  cluster:\n    server: http://127.0.0.1:{}\ncontexts:\n- name: x\n  context:\n    cluster: c\n    user: u\n    namespace: {}\ncurrent-context: x\nusers:\n- name: u\n  user: {{}}\n",
        mock.port, nsname
    );
    std::fs::write(&cfg_path, cfg).expect("write kubeconfig");
    // the same watcher configuration as /repo/src/adapter/discovery.rs
    let watch = watcher_config::Config {
        bookmarks: true,
        label_selector: None,
        field_selector: None,
        timeout: None,
        list_semantic: watcher_config::ListSemantic::default(),
        page_size: Some(500),
        initial_list_strategy: watcher_config::InitialListStrategy::default(),
    };
    let adapter = {
        // KUBECONFIG is process-global and read inside new(); construction is serialised, everything else runs in parallel
        let _g = ENV_LOCK.lock().unwrap_or_else(|e| e.into_inner());
        unsafe { std::env::set_var("KUBECONFIG", &cfg_path) };
        AgonesDiscoveryAdapter::new(ns.clone(), watch).await
    };
    let _ = std::fs::remove_file(&cfg_path);
    let steps = hist["steps"].as_array().cloned().unwrap_or_default();
    let expects = hist["expectAfter"].as_array().cloned().unwrap_or_default();
    let mut out_steps = vec![];
    let mut out_offered = vec![];
    let mut out_held = vec![];
    let mut out_flicker: Vec<u64> = vec![];
    let mut out_ms = vec![];
    let mut out_conv = vec![];
    let mut stuck = String::new();
    let adapter = match adapter {
        Ok(a) => Arc::new(a),
        Err(e) => {
            return json!({"line": line, "steps": [], "offered": [], "held": [], "converged_ms": [], "converged": [], "panic": PANICKED.get(),
                          "stuck": format!("adapter construction failed: {e}"), "gaveUp": false, "flicker": [], "ns": nsname, "reqs": mock.requests()});
        }
    };
    for (i, st) in steps.iter().enumerate() {
        let step = Step::from_json(st);
        let judged = expects.get(i).map(|e| e["judged"].as_bool().unwrap_or(false)).unwrap_or(false);
        let want = expects.get(i).map(expectation).unwrap_or_default();
        let t0 = Instant::now();
        // "list": what is offered while the LIST is outstanding (request arrived, not yet answered)
        let mut held: Offered = vec![];
        if matches!(step, Step::List) && mock.await_list_request(STEP_WAIT).await.is_ok() {
            tokio::time::sleep(Duration::from_millis(50)).await;
            held = abstract_targets(&adapter.discover().await.unwrap_or_default());
        }
        // "churn": a second thread reads discover() as fast as it can while the updates are applied
        let sampler = if let Step::Churn(name, _) = &step {
            let (a, name, stop) = (adapter.clone(), name.clone(), Arc::new(std::sync::atomic::AtomicBool::new(false)));
            let stop2 = stop.clone();
            let h = std::thread::spawn(move || {
                let rt = tokio::runtime::Builder::new_current_thread().build().expect("sampler runtime");
                let (mut samples, mut missing) = (0u64, 0u64);
                while !stop2.load(Ordering::Relaxed) {
                    let ts = rt.block_on(a.discover()).unwrap_or_default();
                    samples += 1;
                    if !ts.iter().any(|t| t.identifier == name) {
                        missing += 1;
                    }
                    // (a reader that looks very often, not one that takes a whole core away from the histories running next to this one)
                    std::thread::sleep(Duration::from_micros(30));
                }
                (samples, missing)
            });
            Some((h, stop))
        } else {
            None
        };
        // an "errevent" step right behind a change: its ERROR event shares the chunk with that change's event
        if matches!(step, Step::Create(..) | Step::Modify(..) | Step::Delete(..)) && steps.get(i + 1).map(|n| n["k"] == "errevent").unwrap_or(false) {
            mock.trail_next_event_with_error();
        }
        if let Err(why) = mock.apply(&step, STEP_WAIT).await {
            stuck = format!("step {}: {}", i + 1, why);
        }
        let need_sync = !matches!(step, Step::Drop(_) | Step::ListFail | Step::ListPart);
        let mut synced_at: Option<Instant> = None;
        let mut got;
        let mut ok;
        let mut last_got: Option<Offered> = None;
        let mut last_change = Instant::now();
        loop {
            got = abstract_targets(&adapter.discover().await.unwrap_or_default());
            if last_got.as_ref() != Some(&got) {
                last_got = Some(got.clone());
                last_change = Instant::now();
            }
            let synced = mock.synced();
            if synced && synced_at.is_none() {
                synced_at = Some(Instant::now());
            }
            ok = got == want && (synced || !need_sync);
            if !judged || ok || !stuck.is_empty() || PANICKED.get() {
                break;
            }
            let el = t0.elapsed();
            // "cannot digest the LIST answer" is only concluded from a client that has kept re-listing for a good while (five or more
            // answers, backing off): one or two failed attempts happen to a healthy client on a busy machine
            if let Some(n) = mock.relisting() {
                if el >= RELIST_PATIENCE && n >= 5 {
                    stuck = format!("step {}: relisting: the LIST was answered {} times and no watch followed", i + 1, n);
                    break;
                }
            }
            let after_sync_ok = synced_at.map(|s| s.elapsed() >= AFTER_SYNC).unwrap_or(false);
            // give up on a WRONG value only when it has not moved for a while (a client that is still catching up is waited for)
            if el >= HARD_CAP || (el >= PATIENCE && (after_sync_ok || !need_sync) && last_change.elapsed() >= STABLE_FOR) {
                break;
            }
            tokio::time::sleep(Duration::from_millis(5)).await;
        }
        if judged && ok && i + 1 == steps.len() {
            // last step: the offered set has to stay what it is
            tokio::time::sleep(Duration::from_millis(200)).await;
            got = abstract_targets(&adapter.discover().await.unwrap_or_default());
            ok = got == want;
        }
        let mut flick = 0u64;
        if let Some((h, stop)) = sampler {
            stop.store(true, Ordering::Relaxed);
            // (not a blocking join: the sampler may be queued behind a writer that runs on THIS thread's runtime)
            while !h.is_finished() {
                tokio::time::sleep(Duration::from_millis(2)).await;
            }
            if let Ok((_samples, missing)) = h.join() {
                flick = missing;
            }
        }
        out_flicker.push(flick);
        out_steps.push(st.clone());
        out_offered.push(offered_json(&got));
        out_held.push(offered_json(&held));
        out_ms.push(t0.elapsed().as_millis() as u64);
        out_conv.push(!judged || ok);
        if (judged && !ok) || !stuck.is_empty() || PANICKED.get() {
            break;
        }
    }
    drop(adapter);
    // the client never asked for the LIST (again) although one was due: it has stopped following the API server
    let gave_up = stuck.contains("waiting for a LIST request");
    json!({"line": line, "steps": out_steps, "offered": out_offered, "held": out_held, "converged_ms": out_ms, "converged": out_conv,
           "panic": PANICKED.get(), "stuck": stuck, "gaveUp": gave_up, "flicker": out_flicker, "ns": nsname, "reqs": mock.requests()})
}

fn main() {
    let args: Vec<String> = std::env::args().collect();
    if args.get(1).map(|s| s.as_str()) != Some("agones") {
        eprintln!("usage: hx-agones agones --in histories.ndjson --out obs.ndjson [--threads N]");
        std::process::exit(2);
    }
    let mut inp = String::new();
    let mut outp = String::new();
    let mut threads = 16usize;
    let mut i = 2;
    while i < args.len() {
        match args[i].as_str() {
            "--in" => { inp = args[i + 1].clone(); i += 1; }
            "--out" => { outp = args[i + 1].clone(); i += 1; }
            "--threads" => { threads = args[i + 1].parse().unwrap_or(16); i += 1; }
            other => { eprintln!("unknown argument {other}"); std::process::exit(2); }
        }
        i += 1;
    }
    if inp.is_empty() || outp.is_empty() {
        eprintln!("--in and --out are required");
        std::process::exit(2);
    }
    // panics of the code under test are data: remembered per thread (every history runs on one thread), printed nowhere
    std::panic::set_hook(Box::new(|_| PANICKED.with(|p| p.set(true))));
    let text = std::fs::read_to_string(&inp).expect("read --in");
    let hists: Vec<Value> = text.lines().filter(|l| !l.trim().is_empty()).map(|l| serde_json::from_str(l).expect("history json")).collect();
    let dir = std::path::Path::new(&outp).parent().map(|p| p.to_string_lossy().to_string()).filter(|s| !s.is_empty()).unwrap_or_else(|| ".".to_string());
    let hists = Arc::new(hists);
    let next = Arc::new(AtomicUsize::new(0));
    let results: Arc<Mutex<Vec<Option<Value>>>> = Arc::new(Mutex::new(vec![None; hists.len()]));
    let mut handles = vec![];
    for _ in 0..threads.max(1).min(hists.len().max(1)) {
        let (hists, next, results, dir) = (hists.clone(), next.clone(), results.clone(), dir.clone());
        handles.push(std::thread::spawn(move || {
            loop {
                let k = next.fetch_add(1, Ordering::SeqCst);
                if k >= hists.len() {
                    break;
                }
                PANICKED.with(|p| p.set(false));
                // a fresh runtime per history: dropping it ends the mock, the watcher task and every socket
                let rt = tokio::runtime::Builder::new_current_thread().enable_all().build().expect("runtime");
                let line = k + 1;
                let r = std::panic::catch_unwind(std::panic::AssertUnwindSafe(|| rt.block_on(run_history(line, &hists[k], &dir))));
                drop(rt);
                let v = match r {
                    Ok(v) => v,
                    Err(_) => json!({"line": line, "steps": [], "offered": [], "held": [], "converged_ms": [], "converged": [], "panic": true,
                                     "stuck": "panic on the history thread", "gaveUp": false, "flicker": [], "ns": "", "reqs": []}),
                };
                results.lock().unwrap()[k] = Some(v);
            }
        }));
    }
    for h in handles {
        let _ = h.join();
    }
    let mut out = String::new();
    for r in results.lock().unwrap().iter() {
        out.push_str(&serde_json::to_string(r.as_ref().expect("result")).unwrap());
        out.push('\n');
    }
    std::fs::write(&outp, out).expect("write --out");
}
