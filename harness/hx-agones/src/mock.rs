//! A hand-rolled HTTP/1.1 mock of the Kubernetes API for agones.dev/v1 GameServers on a loopback port:
//! LIST (held until the history says "list"; answered with the current objects and resourceVersion) and
//! WATCH (chunked stream of ADDED / MODIFIED / DELETED / BOOKMARK events after the requested resourceVersion;
//! can be reset, ended, or answered with a 410 `Status` event).
use crate::{addr_concrete, meta_concrete};
use serde_json::{Value, json};
use std::collections::BTreeMap;
use std::sync::{Arc, Mutex};
use std::time::{Duration, Instant};
use tokio::io::{AsyncReadExt, AsyncWriteExt};
use tokio::net::{TcpListener, TcpStream};

#[derive(Clone, Debug)]
pub enum Step {
    Create(String, Value),
    Modify(String, Value),
    Delete(String),
    List,
    Drop(String), // "reset" | "eof"
    Gone,
    Bookmark,
    ListFail,
    /// the pending LIST is answered in pages of one object; the first page arrives, the request for the next one fails
    ListPart,
    /// thousands of metadata-only updates of object n in a row, ending in description o
    Churn(String, Value),
    /// an ERROR Status event with a code other than 410; when it directly follows a create / modify / delete step it is written to the
    /// watch connection in the same chunk as that step's change event
    ErrEvent,
}

impl Step {
    pub fn from_json(v: &Value) -> Step {
        let n = v["n"].as_str().unwrap_or("").to_string();
        match v["k"].as_str().unwrap_or("") {
            "create" => Step::Create(n, v["o"].clone()),
            "modify" => Step::Modify(n, v["o"].clone()),
            "delete" => Step::Delete(n),
            "list" => Step::List,
            "drop" => Step::Drop(n),
            "gone" => Step::Gone,
            "bookmark" => Step::Bookmark,
            "listfail" => Step::ListFail,
            "listpart" => Step::ListPart,
            "churn" => Step::Churn(n, v["o"].clone()),
            "errevent" => Step::ErrEvent,
            other => panic!("unknown step kind {other}"),
        }
    }
}

#[derive(Clone, Debug, PartialEq)]
enum Cmd {
    Noise,
    Reset,
    Eof,
    Gone,
    Bookmark,
}

struct State {
    ns: String,
    rv: u64,
    objs: BTreeMap<String, Value>,
    log: Vec<(u64, &'static str, Value)>,
    list_waiting: usize,
    list_open: bool,         // the history has answered the outstanding LIST: repeats of it are answered at once
    lists_since_open: usize, // LIST answers since then
    lists_served: usize,
    list_fail_once: bool, // the history says: the outstanding LIST request is answered with a server error
    list_fails: usize,
    list_part_once: bool, // the history says: the outstanding LIST gets its first page (one object), the next page request fails
    fail_continue: bool,
    gone_next: bool,
    watch_gen: u64,
    watch_alive: bool,
    watch_delivered: u64,
    cmd: Option<Cmd>,
    cmds_done: u64,
    trail_next: bool,                              // the next change event gets an ERROR event behind it, in the same chunk
    noise_after: std::collections::BTreeSet<u64>,  // resourceVersions of the change events that do
    noise_riding: bool,                            // the ERROR event of the coming "errevent" step rides on the previous step's event
    t0: Instant,
    reqs: Vec<String>,
}

impl State {
    /// every change event has been written to the current watch connection (or preceded its start)
    fn caught_up(&self) -> bool {
        self.log.iter().all(|(rv, _, _)| *rv <= self.watch_delivered)
    }
}

pub struct Mock {
    pub port: u16,
    st: Arc<Mutex<State>>,
}

/// The concrete GameServer for an abstract description (see ABSTRACTION in main.rs).
fn game_server(ns: &str, name: &str, o: &Value, rv: u64) -> Value {
    let state = o["state"].as_str().unwrap_or("");
    let (labels, annotations, counters, lists) = meta_concrete(o["meta"].as_str().unwrap_or(""));
    let ports: Vec<Value> = o["ports"].as_array().cloned().unwrap_or_default().iter().enumerate()
        .map(|(i, p)| json!({"name": format!("p{i}"), "port": p.as_u64().unwrap_or(0)})).collect();
    let mut status = json!({
        "state": state,
        "address": addr_concrete(o["addr"].as_str().unwrap_or("")),
        "nodeName": if o["addr"] == "none" { "" } else { "node-1" },
        "counters": counters,
        "lists": lists,
    });
    // "no ports", three spellings: `"ports": null` for a server that is still being created (Agones' Go type is
    // `Ports []GameServerStatusPort `json:"ports"``: the nil slice is sent as null), no `ports` key at all for a
    // Ready server without ports, an empty array otherwise
    if ports.is_empty() && state == "Creating" {
        status["ports"] = Value::Null;
    } else if !(ports.is_empty() && state == "Ready") {
        status["ports"] = Value::Array(ports);
    }
    json!({
        "apiVersion": "agones.dev/v1", "kind": "GameServer",
        "metadata": {"name": name, "namespace": ns, "uid": format!("uid-{name}"), "resourceVersion": rv.to_string(),
                     "generation": 1, "labels": labels, "annotations": annotations},
        "spec": {"container": "minecraft", "ports": [{"name": "p0", "portPolicy": "Dynamic", "containerPort": 25565}]},
        "status": status,
    })
}

impl Mock {
    pub async fn start(ns: &str) -> Mock {
        let l = TcpListener::bind("127.0.0.1:0").await.expect("bind loopback");
        let port = l.local_addr().unwrap().port();
        let st = Arc::new(Mutex::new(State {
            ns: ns.to_string(), rv: 97, objs: BTreeMap::new(), log: vec![], list_waiting: 0, list_open: false, lists_since_open: 0, lists_served: 0, list_fail_once: false, list_fails: 0, list_part_once: false, fail_continue: false,
            gone_next: false, watch_gen: 0, watch_alive: false, watch_delivered: 0, cmd: None, cmds_done: 0, trail_next: false, noise_after: Default::default(), noise_riding: false, t0: Instant::now(), reqs: vec![],
        }));
        let st2 = st.clone();
        tokio::spawn(async move {
            loop {
                let Ok((s, _)) = l.accept().await else { return };
                let _ = s.set_nodelay(true);
                tokio::spawn(serve(s, st2.clone()));
            }
        });
        Mock { port, st }
    }

    pub fn requests(&self) -> Vec<String> {
        self.st.lock().unwrap().reqs.clone()
    }

    /// Everything the API server did has been written to an established watch and no LIST / fault is outstanding.
    pub fn synced(&self) -> bool {
        let s = self.st.lock().unwrap();
        s.watch_alive && s.caught_up() && s.list_waiting == 0 && !s.gone_next && s.cmd.is_none()
    }

    /// The change event of the next create / modify / delete step is followed, in the same chunk, by an ERROR event (code 500).
    pub fn trail_next_event_with_error(&self) {
        self.st.lock().unwrap().trail_next = true;
    }

    /// The client asked for the LIST again and again after it was answered and never went on to watch:
    /// it cannot digest the answer.  (Its back-off doubles from 0.8 s, so waiting longer shows nothing new.)
    pub fn relisting(&self) -> Option<usize> {
        let s = self.st.lock().unwrap();
        if s.lists_since_open >= 3 && !s.watch_alive { Some(s.lists_since_open) } else { None }
    }

    async fn wait<F: Fn(&State) -> bool>(&self, what: &str, limit: Duration, f: F) -> Result<(), String> {
        let t0 = Instant::now();
        loop {
            if f(&self.st.lock().unwrap()) {
                return Ok(());
            }
            if t0.elapsed() > limit {
                return Err(format!("timed out waiting for {what}"));
            }
            tokio::time::sleep(Duration::from_millis(2)).await;
        }
    }

    /// The client has asked for the LIST (the watcher has announced the (re-)list before it asks).
    pub async fn await_list_request(&self, limit: Duration) -> Result<(), String> {
        self.wait("a LIST request", limit, |s| s.list_waiting > 0).await
    }

    async fn command(&self, c: Cmd, limit: Duration) -> Result<(), String> {
        let done = {
            let mut s = self.st.lock().unwrap();
            s.cmd = Some(c.clone());
            s.cmds_done
        };
        self.wait(&format!("the watch connection to take {c:?}"), limit, |s| s.cmds_done > done).await
    }

    pub async fn apply(&self, step: &Step, limit: Duration) -> Result<(), String> {
        match step {
            Step::Create(n, o) | Step::Modify(n, o) => {
                let mut s = self.st.lock().unwrap();
                s.rv += 1;
                let obj = game_server(&s.ns.clone(), n, o, s.rv);
                let t = if s.objs.contains_key(n) { "MODIFIED" } else { "ADDED" };
                s.objs.insert(n.clone(), obj.clone());
                let rv = s.rv;
                s.log.push((rv, t, obj));
                if std::mem::take(&mut s.trail_next) {
                    s.noise_after.insert(rv);
                    s.noise_riding = true;
                }
                Ok(())
            }
            Step::ErrEvent => {
                if std::mem::take(&mut self.st.lock().unwrap().noise_riding) {
                    return Ok(()); // written together with the previous step's event
                }
                self.wait("an established watch", limit, |s| s.watch_alive && s.cmd.is_none()).await?;
                self.command(Cmd::Noise, limit).await
            }
            Step::Churn(n, o) => {
                // the metadata flips between the old and the new version CHURN_UPDATES times; the last update is `o`
                let mut s = self.st.lock().unwrap();
                let ns = s.ns.clone();
                let mut old = o.clone();
                old["meta"] = json!(if o["meta"] == "m1" { "m2" } else { "m1" });
                for j in 0..CHURN_UPDATES {
                    s.rv += 1;
                    let d = if (CHURN_UPDATES - 1 - j) % 2 == 0 { o } else { &old };
                    let obj = game_server(&ns, n, d, s.rv);
                    s.objs.insert(n.clone(), obj.clone());
                    let rv = s.rv;
                    s.log.push((rv, "MODIFIED", obj));
                }
                Ok(())
            }
            Step::Delete(n) => {
                let mut s = self.st.lock().unwrap();
                s.rv += 1;
                let rv = s.rv;
                if let Some(mut obj) = s.objs.remove(n) {
                    // the DELETED event carries the last state of the object at the resourceVersion of the deletion
                    obj["metadata"]["resourceVersion"] = json!(rv.to_string());
                    s.log.push((rv, "DELETED", obj));
                    if std::mem::take(&mut s.trail_next) {
                        s.noise_after.insert(rv);
                        s.noise_riding = true;
                    }
                }
                s.trail_next = false;
                Ok(())
            }
            Step::List => {
                self.await_list_request(limit).await?;
                let served = {
                    let mut s = self.st.lock().unwrap();
                    s.list_open = true;
                    s.lists_since_open = 0;
                    s.lists_served
                };
                self.wait("the LIST to be answered", limit, |s| s.lists_served > served).await
            }
            Step::ListFail => {
                self.await_list_request(limit).await?;
                let before = {
                    let mut s = self.st.lock().unwrap();
                    s.list_fail_once = true;
                    s.list_fails
                };
                self.wait("the LIST to be answered with an error", limit, |s| s.list_fails > before).await
            }
            Step::ListPart => {
                self.await_list_request(limit).await?;
                let before = {
                    let mut s = self.st.lock().unwrap();
                    s.list_part_once = true;
                    s.list_fails
                };
                self.wait("the first page to be served and the next page request to be refused", limit, |s| s.list_fails > before).await
            }
            Step::Drop(how) => {
                self.wait("an established watch", limit, |s| s.watch_alive && s.cmd.is_none()).await?;
                self.command(if how == "eof" { Cmd::Eof } else { Cmd::Reset }, limit).await
            }
            Step::Gone => {
                let alive = {
                    let mut s = self.st.lock().unwrap();
                    s.list_open = false; // the LIST that follows waits for the history's next "list"
                    if !s.watch_alive {
                        s.gone_next = true; // the client is between connections: its next WATCH is answered 410
                    }
                    s.watch_alive
                };
                if alive { self.command(Cmd::Gone, limit).await } else { Ok(()) }
            }
            Step::Bookmark => {
                self.wait("an established, caught-up watch", limit, |s| s.watch_alive && s.caught_up() && s.cmd.is_none()).await?;
                self.command(Cmd::Bookmark, limit).await
            }
        }
    }
}

async fn read_head(s: &mut TcpStream) -> Option<String> {
    let mut buf = vec![];
    let mut b = [0u8; 1];
    while !buf.ends_with(b"\r\n\r\n") {
        match s.read(&mut b).await {
            Ok(1) => buf.push(b[0]),
            _ => return None,
        }
        if buf.len() > 65536 {
            return None;
        }
    }
    Some(String::from_utf8_lossy(&buf).to_string())
}

fn query_param(target: &str, key: &str) -> Option<String> {
    let q = target.split_once('?')?.1;
    q.split('&').find_map(|kv| kv.split_once('=').filter(|(k, _)| *k == key).map(|(_, v)| v.to_string()))
}

async fn chunk(s: &mut TcpStream, v: &Value) -> std::io::Result<()> {
    let body = format!("{v}\n");
    s.write_all(format!("{:x}\r\n{}\r\n", body.len(), body).as_bytes()).await?;
    s.flush().await
}

/// two watch events in ONE chunk (one segment on the wire): both are there when the client looks
async fn chunk2(s: &mut TcpStream, a: &Value, b: &Value) -> std::io::Result<()> {
    let body = format!("{a}\n{b}\n");
    s.write_all(format!("{:x}\r\n{}\r\n", body.len(), body).as_bytes()).await?;
    s.flush().await
}

/// an ERROR event the watcher does not re-list for (any code but 410)
fn error_event() -> Value {
    json!({"type": "ERROR", "object": {"kind": "Status", "apiVersion": "v1", "metadata": {}, "status": "Failure",
           "message": "etcdserver: request timed out", "reason": "InternalError", "code": 500}})
}

const GONE: &str = "too old resource version";
pub const CHURN_UPDATES: usize = 3000;

async fn serve(mut s: TcpStream, st: Arc<Mutex<State>>) {
    loop {
        let Some(head) = read_head(&mut s).await else { return };
        let line = head.lines().next().unwrap_or("").to_string();
        let target = line.split_whitespace().nth(1).unwrap_or("").to_string();
        {
            let mut g = st.lock().unwrap();
            let ms = g.t0.elapsed().as_millis();
            g.reqs.push(format!("{ms}ms {line}"));
        }
        let path = target.split('?').next().unwrap_or("");
        if !path.ends_with("/gameservers") {
            let body = json!({"kind": "Status", "apiVersion": "v1", "metadata": {}, "status": "Failure", "message": "not found", "reason": "NotFound", "code": 404}).to_string();
            if s.write_all(format!("HTTP/1.1 404 Not Found\r\nContent-Type: application/json\r\nContent-Length: {}\r\n\r\n{}", body.len(), body).as_bytes()).await.is_err() {
                return;
            }
            continue;
        }
        if query_param(&target, "watch").as_deref() == Some("true") {
            let from: u64 = query_param(&target, "resourceVersion").and_then(|v| v.parse().ok()).unwrap_or(0);
            if s.write_all(b"HTTP/1.1 200 OK\r\nContent-Type: application/json\r\nTransfer-Encoding: chunked\r\n\r\n").await.is_err() {
                return;
            }
            let (my_gen, gone_now) = {
                let mut g = st.lock().unwrap();
                let gone = g.gone_next;
                g.gone_next = false;
                if !gone {
                    g.watch_gen += 1;
                    g.watch_alive = true;
                    g.watch_delivered = from;
                }
                (g.watch_gen, gone)
            };
            if gone_now {
                let ev = json!({"type": "ERROR", "object": {"kind": "Status", "apiVersion": "v1", "metadata": {}, "status": "Failure",
                                "message": format!("{GONE}: {from}"), "reason": "Expired", "code": 410}});
                if chunk(&mut s, &ev).await.is_err() || s.write_all(b"0\r\n\r\n").await.is_err() {
                    return;
                }
                continue;
            }
            let mut cursor = from;
            // the loop yields true when the connection is to be closed, false when only the response ended (keep-alive)
            let close: bool = loop {
                let (events, cmd, rv_now) = {
                    let mut g = st.lock().unwrap();
                    if g.watch_gen != my_gen {
                        break true; // a newer watch took over
                    }
                    let ev: Vec<(u64, &'static str, Value)> = g.log.iter().filter(|(rv, _, _)| *rv > cursor).cloned().collect();
                    let cmd = if ev.is_empty() { g.cmd.take() } else { None };
                    if cmd == Some(Cmd::Bookmark) {
                        g.rv += 1; // an unrelated write moved the cluster's resourceVersion on
                    }
                    (ev, cmd, g.rv)
                };
                let mut failed = false;
                for (rv, t, obj) in &events {
                    let noisy = st.lock().unwrap().noise_after.contains(rv);
                    let r = if noisy { chunk2(&mut s, &json!({"type": t, "object": obj}), &error_event()).await } else { chunk(&mut s, &json!({"type": t, "object": obj})).await };
                    if r.is_err() {
                        failed = true;
                        break;
                    }
                    cursor = *rv;
                }
                if !events.is_empty() && !failed {
                    let mut g = st.lock().unwrap();
                    if g.watch_gen == my_gen {
                        g.watch_delivered = cursor; // every change event up to cursor is written
                    }
                }
                if failed {
                    break true;
                }
                match cmd {
                    Some(Cmd::Noise) => {
                        if chunk(&mut s, &error_event()).await.is_err() {
                            finish(&st, my_gen, true);
                            break true;
                        }
                        st.lock().unwrap().cmds_done += 1;
                    }
                    Some(Cmd::Reset) => {
                        #[allow(deprecated)]
                        let _ = s.set_linger(Some(Duration::ZERO)); // close() sends RST: the client sees a transport error
                        finish(&st, my_gen, true);
                        return;
                    }
                    Some(Cmd::Eof) => {
                        let r = s.write_all(b"0\r\n\r\n").await;
                        finish(&st, my_gen, true);
                        break r.is_err();
                    }
                    Some(Cmd::Gone) => {
                        let ev = json!({"type": "ERROR", "object": {"kind": "Status", "apiVersion": "v1", "metadata": {}, "status": "Failure",
                                        "message": format!("{GONE}: {cursor}"), "reason": "Expired", "code": 410}});
                        let r1 = chunk(&mut s, &ev).await;
                        let r2 = s.write_all(b"0\r\n\r\n").await;
                        finish(&st, my_gen, true);
                        break r1.is_err() || r2.is_err();
                    }
                    Some(Cmd::Bookmark) => {
                        let ev = json!({"type": "BOOKMARK", "object": {"apiVersion": "agones.dev/v1", "kind": "GameServer",
                                        "metadata": {"resourceVersion": rv_now.to_string()}}});
                        if chunk(&mut s, &ev).await.is_err() {
                            finish(&st, my_gen, true);
                            break true;
                        }
                        cursor = rv_now;
                        let mut g = st.lock().unwrap();
                        if g.watch_gen == my_gen {
                            g.watch_delivered = cursor;
                        }
                        g.cmds_done += 1;
                    }
                    None => {}
                }
                if events.is_empty() && cmd.is_none() {
                    // nothing to do: notice a client that went away, otherwise look again shortly
                    let mut probe = [0u8; 1];
                    match tokio::time::timeout(Duration::from_millis(2), s.peek(&mut probe)).await {
                        Ok(Ok(0)) | Ok(Err(_)) => {
                            finish(&st, my_gen, false);
                            break true;
                        }
                        _ => {}
                    }
                }
            };
            {
                let mut g = st.lock().unwrap();
                if g.watch_gen == my_gen {
                    g.watch_alive = false;
                }
            }
            if close {
                return;
            }
            continue;
        }
        // LIST: held until the history grants it
        {
            let mut g = st.lock().unwrap();
            g.list_waiting += 1;
        }
        let mut fail = false;
        // a request for a FOLLOWING page (continue token) of a paged LIST
        if query_param(&target, "continue").map(|c| !c.is_empty()).unwrap_or(false) {
            let refuse = {
                let mut g = st.lock().unwrap();
                std::mem::take(&mut g.fail_continue)
            };
            let (status, body) = if refuse {
                ("500 Internal Server Error", json!({"kind": "Status", "apiVersion": "v1", "metadata": {}, "status": "Failure", "message": "etcdserver: request timed out", "reason": "InternalError", "code": 500}).to_string())
            } else {
                // (pages after the first are only ever requested after a "listpart": anything else is answered with an expired token)
                ("410 Gone", json!({"kind": "Status", "apiVersion": "v1", "metadata": {}, "status": "Failure", "message": "The provided continue parameter is too old", "reason": "Expired", "code": 410}).to_string())
            };
            let r = s.write_all(format!("HTTP/1.1 {status}\r\nContent-Type: application/json\r\nContent-Length: {}\r\n\r\n{}", body.len(), body).as_bytes()).await;
            st.lock().unwrap().list_fails += 1;
            if r.is_err() {
                return;
            }
            continue;
        }
        let body = loop {
            {
                let mut g = st.lock().unwrap();
                if g.list_part_once {
                    // first page: the first object in name order, with a continue token; the request for the rest will be refused
                    g.list_part_once = false;
                    g.fail_continue = true;
                    g.list_waiting -= 1;
                    let items: Vec<Value> = g.objs.values().take(1).cloned().collect();
                    let left = g.objs.len().saturating_sub(1);
                    break json!({"apiVersion": "agones.dev/v1", "kind": "GameServerList",
                                 "metadata": {"resourceVersion": g.rv.to_string(), "continue": "page-2", "remainingItemCount": left}, "items": items}).to_string();
                }
                if g.list_fail_once {
                    g.list_fail_once = false;
                    g.list_waiting -= 1;
                    fail = true;
                    break json!({"kind": "Status", "apiVersion": "v1", "metadata": {}, "status": "Failure", "message": "etcdserver: request timed out",
                                 "reason": "InternalError", "code": 500}).to_string();
                }
                if g.list_open {
                    g.list_waiting -= 1;
                    g.lists_since_open += 1;
                    let items: Vec<Value> = g.objs.values().cloned().collect();
                    break json!({"apiVersion": "agones.dev/v1", "kind": "GameServerList", "metadata": {"resourceVersion": g.rv.to_string()}, "items": items}).to_string();
                }
            }
            let mut probe = [0u8; 1];
            if let Ok(Ok(0) | Err(_)) = tokio::time::timeout(Duration::from_millis(2), s.peek(&mut probe)).await {
                st.lock().unwrap().list_waiting -= 1;
                return;
            }
        };
        if fail {
            let r = s.write_all(format!("HTTP/1.1 500 Internal Server Error\r\nContent-Type: application/json\r\nContent-Length: {}\r\n\r\n{}", body.len(), body).as_bytes()).await;
            st.lock().unwrap().list_fails += 1;
            if r.is_err() {
                return;
            }
            continue;
        }
        let r = s.write_all(format!("HTTP/1.1 200 OK\r\nContent-Type: application/json\r\nContent-Length: {}\r\n\r\n{}", body.len(), body).as_bytes()).await;
        st.lock().unwrap().lists_served += 1;
        if r.is_err() {
            return;
        }
    }
}

/// The watch connection `my_gen` ended; `by_cmd` = a history step asked for it (acknowledge the command).
fn finish(st: &Arc<Mutex<State>>, my_gen: u64, by_cmd: bool) {
    let mut g = st.lock().unwrap();
    if g.watch_gen == my_gen {
        g.watch_alive = false;
    }
    if by_cmd {
        g.cmds_done += 1;
    }
}
