//! Scripted in-memory transport. The server side implements `AsyncRead + AsyncWrite`; the client side
//! is driven directly by the harness: it decides which bytes are available when, how much of a write
//! is accepted, and sees every accepted chunk with its virtual timestamp.
#![allow(dead_code)]

use std::collections::VecDeque;
use std::pin::Pin;
use std::sync::{Arc, Mutex};
use std::task::{Context, Poll, Waker};
use tokio::io::{AsyncRead, AsyncWrite, ReadBuf};

#[derive(Clone, Debug)]
pub enum WriteOutcome {
    /// accept at most k bytes of the offered buffer
    Accept(usize),
    /// return Pending; the writer is woken by `ClientEnd::release_write`
    Pending,
}

#[derive(Default)]
pub struct Shared {
    pub inbox: VecDeque<u8>,
    pub client_closed: bool,
    pub max_read: usize, // 0 = unlimited
    pub read_waker: Option<Waker>,
    pub reads: u64,

    pub outbox: Vec<u8>,
    pub out_log: Vec<(u64, usize)>, // (virtual ms, bytes accepted)
    pub write_plan: VecDeque<WriteOutcome>,
    pub write_blocked: bool,
    pub write_waker: Option<Waker>,
    pub server_shutdown: bool,
    pub t0: Option<tokio::time::Instant>,
}

pub struct MockStream(pub Arc<Mutex<Shared>>);
#[derive(Clone)]
pub struct ClientEnd(pub Arc<Mutex<Shared>>);

pub fn pipe() -> (MockStream, ClientEnd) {
    let s = Arc::new(Mutex::new(Shared::default()));
    (MockStream(s.clone()), ClientEnd(s))
}

impl ClientEnd {
    pub fn push(&self, bytes: &[u8]) {
        let w = {
            let mut s = self.0.lock().unwrap();
            s.inbox.extend(bytes.iter().copied());
            s.read_waker.take()
        };
        if let Some(w) = w {
            w.wake();
        }
    }
    pub fn close(&self) {
        let w = {
            let mut s = self.0.lock().unwrap();
            s.client_closed = true;
            s.read_waker.take()
        };
        if let Some(w) = w {
            w.wake();
        }
    }
    pub fn take_out(&self) -> Vec<u8> {
        std::mem::take(&mut self.0.lock().unwrap().outbox)
    }
    pub fn pending_in(&self) -> usize {
        self.0.lock().unwrap().inbox.len()
    }
    pub fn set_max_read(&self, n: usize) {
        self.0.lock().unwrap().max_read = n;
    }
    pub fn plan_writes(&self, plan: Vec<WriteOutcome>) {
        self.0.lock().unwrap().write_plan.extend(plan);
    }
    pub fn release_write(&self) {
        let w = {
            let mut s = self.0.lock().unwrap();
            s.write_blocked = false;
            s.write_waker.take()
        };
        if let Some(w) = w {
            w.wake();
        }
    }
    pub fn is_write_blocked(&self) -> bool {
        self.0.lock().unwrap().write_blocked
    }
    pub fn server_shutdown(&self) -> bool {
        self.0.lock().unwrap().server_shutdown
    }
    pub fn set_t0(&self, t: tokio::time::Instant) {
        self.0.lock().unwrap().t0 = Some(t);
    }
}

impl AsyncRead for MockStream {
    fn poll_read(self: Pin<&mut Self>, cx: &mut Context<'_>, buf: &mut ReadBuf<'_>) -> Poll<std::io::Result<()>> {
        let mut s = self.0.lock().unwrap();
        s.reads += 1;
        if s.inbox.is_empty() {
            if s.client_closed {
                return Poll::Ready(Ok(())); // EOF
            }
            s.read_waker = Some(cx.waker().clone());
            return Poll::Pending;
        }
        let mut n = buf.remaining().min(s.inbox.len());
        if s.max_read > 0 {
            n = n.min(s.max_read);
        }
        for _ in 0..n {
            let b = s.inbox.pop_front().unwrap();
            buf.put_slice(&[b]);
        }
        Poll::Ready(Ok(()))
    }
}

impl AsyncWrite for MockStream {
    fn poll_write(self: Pin<&mut Self>, cx: &mut Context<'_>, buf: &[u8]) -> Poll<std::io::Result<usize>> {
        let mut s = self.0.lock().unwrap();
        if s.write_blocked {
            s.write_waker = Some(cx.waker().clone());
            return Poll::Pending;
        }
        let n = match s.write_plan.pop_front() {
            None => buf.len(),
            Some(WriteOutcome::Accept(k)) => k.min(buf.len()).max(if buf.is_empty() { 0 } else { 1 }),
            Some(WriteOutcome::Pending) => {
                s.write_blocked = true;
                s.write_waker = Some(cx.waker().clone());
                return Poll::Pending;
            }
        };
        s.outbox.extend_from_slice(&buf[..n]);
        let t = s.t0.map(|t0| t0.elapsed().as_millis() as u64).unwrap_or(0);
        s.out_log.push((t, n));
        Poll::Ready(Ok(n))
    }
    fn poll_flush(self: Pin<&mut Self>, _cx: &mut Context<'_>) -> Poll<std::io::Result<()>> {
        Poll::Ready(Ok(()))
    }
    fn poll_shutdown(self: Pin<&mut Self>, _cx: &mut Context<'_>) -> Poll<std::io::Result<()>> {
        self.0.lock().unwrap().server_shutdown = true;
        Poll::Ready(Ok(()))
    }
}
