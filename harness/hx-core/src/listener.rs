//! `hx listener`: the real `passage_protocol::listener::Listener` on loopback TCP (real time), driven by scripted
//! clients; records what every client experienced (C15 C16 C17). The verdict is TLC's (Trace_Listener.tla).
use crate::tcpclient::*;
use passage_adapters::authentication::{AuthenticationAdapter, Profile};
use passage_adapters::discovery::DiscoveryAdapter;
use passage_adapters::localization::LocalizationAdapter;
use passage_adapters::status::StatusAdapter;
use passage_adapters::{AnyStrategyAdapter, MetaFilterAdapter, Protocol, ServerStatus, Target};
use passage_protocol::listener::{Listener, ParseConfig};
use passage_protocol::rate_limiter::RateLimiter;
use serde_json::{Value, json};
use std::net::{IpAddr, SocketAddr};
use std::sync::{Arc, Mutex};
use std::time::{Duration, Instant};
use tokio_util::sync::CancellationToken;
use uuid::Uuid;

#[derive(Default)]
struct Seen {
    status_addrs: Vec<SocketAddr>,
    auth_addrs: Vec<SocketAddr>,
}
struct LRec {
    seen: Arc<Mutex<Seen>>,
    discover_delay: Duration,
    big_status: bool,
    /// discovery finds no backend at all: every login ends with the localized "no target" Disconnect
    no_targets: bool,
    /// messages come from the crate's own built-in localization adapter (tables for two languages), with the locale the client reports
    fixed: passage_adapters::FixedLocalizationAdapter,
}
impl std::fmt::Debug for LRec {
    fn fmt(&self, f: &mut std::fmt::Formatter<'_>) -> std::fmt::Result {
        write!(f, "LRec")
    }
}
impl StatusAdapter for LRec {
    async fn status(&self, c: &SocketAddr, _s: (&str, u16), _p: Protocol) -> passage_adapters::Result<Option<ServerStatus>> {
        self.seen.lock().unwrap().status_addrs.push(*c);
        let mut st = ServerStatus::default();
        if self.big_status {
            // a status with a server icon: far more than a socket buffer holds for a client that does not read
            st.favicon = Some(format!("data:image/png;base64,{}", "A".repeat(2_000_000)));
        }
        Ok(Some(st))
    }
}
impl AuthenticationAdapter for LRec {
    async fn authenticate(&self, c: &SocketAddr, _s: (&str, u16), _p: Protocol, user: (&str, &Uuid), _sec: &[u8], _k: &[u8]) -> passage_adapters::Result<Profile> {
        self.seen.lock().unwrap().auth_addrs.push(*c);
        Ok(Profile { id: *user.1, name: user.0.to_string(), properties: vec![], profile_actions: vec![] })
    }
}
impl DiscoveryAdapter for LRec {
    async fn discover(&self) -> passage_adapters::Result<Vec<Target>> {
        tokio::time::sleep(self.discover_delay).await;
        if self.no_targets {
            return Ok(vec![]);
        }
        Ok(vec![Target { identifier: "t".into(), address: "10.9.8.7:25565".parse().unwrap(), meta: Default::default() }])
    }
}
impl LocalizationAdapter for LRec {
    async fn localize(&self, l: Option<&str>, key: &str, p: &[(&'static str, String)]) -> passage_adapters::Result<String> {
        self.fixed.localize(l, key, p).await
    }
}

fn fixed_localization() -> passage_adapters::FixedLocalizationAdapter {
    let mut messages = std::collections::HashMap::new();
    for t in ["en_US", "de", "de_AT"] {
        let mut m = std::collections::HashMap::new();
        for k in ["disconnect_no_target", "disconnect_timeout"] {
            m.insert(k.to_string(), format!("{k} ({t})"));
        }
        messages.insert(t.to_string(), m);
    }
    passage_adapters::FixedLocalizationAdapter::new("en_US".to_string(), messages)
}

/// A port no other scenario of this process is given (a counter over a range below the ephemeral ports, so that neither another scenario
/// nor one of the harness's own outgoing connections can take it between this check and the bind of the code under test).
fn free_port() -> u16 {
    static NEXT: std::sync::atomic::AtomicU32 = std::sync::atomic::AtomicU32::new(0);
    let base = 12000 + (std::process::id() % 97) * 150;
    loop {
        let k = NEXT.fetch_add(1, std::sync::atomic::Ordering::Relaxed);
        let p = (base + k % 18000) as u16;
        if std::net::TcpListener::bind(("127.0.0.1", p)).is_ok() {
            return p;
        }
    }
}

struct Running {
    port: u16,
    stop: CancellationToken,
    handle: tokio::task::JoinHandle<Result<(), String>>,
    seen: Arc<Mutex<Seen>>,
    /// the listener was seen accepting on `port` (false: it never came up, e.g. the port was taken in between -- a harness error)
    ok: bool,
}

async fn start(cfg: &Value, discover_delay_ms: u64) -> Running {
    let seen = Arc::new(Mutex::new(Seen::default()));
    let a = Arc::new(LRec { seen: seen.clone(), discover_delay: Duration::from_millis(discover_delay_ms), big_status: cfg["bigStatus"].as_bool().unwrap_or(false),
                            no_targets: cfg["noTargets"].as_bool().unwrap_or(false), fixed: fixed_localization() });
    let proxy = match cfg["proxy"].as_str().unwrap_or("off") {
        "v1" => Some(ParseConfig { include_tlvs: false, allow_v1: true, allow_v2: false }),
        "v2" => Some(ParseConfig { include_tlvs: false, allow_v1: false, allow_v2: true }),
        "both" => Some(ParseConfig { include_tlvs: false, allow_v1: true, allow_v2: true }),
        _ => None,
    };
    let limiter = cfg["limit"].as_u64().filter(|l| *l > 0).map(|l| RateLimiter::<IpAddr>::new(Duration::from_millis(cfg["windowMs"].as_u64().unwrap_or(600_000)), l as usize));
    let secret = if cfg["secret"].as_bool().unwrap_or(false) { Some(b"listener-secret".to_vec()) } else { None };
    let mut l = Listener::new(a.clone(), a.clone(), Arc::new(Vec::<MetaFilterAdapter>::new()), Arc::new(AnyStrategyAdapter::new()), a.clone(), a.clone())
        .with_rate_limiter(limiter)
        .with_proxy_protocol(proxy)
        .with_auth_secret(secret)
        .with_connection_timeout(Duration::from_millis(cfg["timeoutMs"].as_u64().unwrap_or(3000)));
    let port = free_port();
    let stop = CancellationToken::new();
    let st = stop.clone();
    let relisten = cfg["relisten"].as_bool().unwrap_or(false);
    // the listener always runs on a runtime of its own (cfg.workers threads, four unless the scenario says otherwise) while the clients keep
    // the harness's runtime: whatever a connection does to the listener's scheduler threads -- block them, spin on them -- the clients'
    // timeouts still fire and the scenario is recorded instead of taking the harness down with it
    let w = cfg["workers"].as_u64().unwrap_or(4).max(1) as usize;
    let (tx, rx) = tokio::sync::oneshot::channel();
    std::thread::spawn(move || {
        let rt = tokio::runtime::Builder::new_multi_thread().worker_threads(w).enable_all().build().unwrap();
        let r = rt.block_on(async move {
            if relisten {
                // the same Listener value is used for a second listen(): a first, idle one is started and stopped, then the one the scenario uses
                let st0 = CancellationToken::new();
                let c0 = st0.clone();
                tokio::spawn(async move {
                    tokio::time::sleep(Duration::from_millis(120)).await;
                    c0.cancel();
                });
                let _ = l.listen(("127.0.0.1", port), st0).await;
            }
            l.listen(("127.0.0.1", port), st).await.map_err(|e| e.to_string())
        });
        let _ = tx.send(r);
        rt.shutdown_timeout(Duration::from_millis(200));
    });
    let handle = tokio::spawn(async move { rx.await.unwrap_or(Err("listener thread ended".to_string())) });
    // wait until the socket accepts
    if relisten {
        tokio::time::sleep(Duration::from_millis(300)).await; // the first, idle listen() is over by now
    }
    let mut ok = false;
    for _ in 0..200 {
        if handle.is_finished() {
            break;
        }
        if probe(port) {
            ok = true;
            break;
        }
        tokio::time::sleep(Duration::from_millis(10)).await;
    }
    // the probe connection above is a real connection for the listener: give it a moment to be dismissed
    tokio::time::sleep(Duration::from_millis(50)).await;
    let ok = ok && !handle.is_finished();
    Running { port, stop, handle, seen, ok }
}

/// The listener is not accepting.  If `listen()` has RETURNED although nobody asked it to stop (and not because the port was taken), that is
/// an observation about the code under test (family "returned-early", judged by Trace_Listener); anything else is a harness error.
async fn not_up(run: Running, fam: &str, sc: &Value) -> Value {
    if run.handle.is_finished() {
        let how = match run.handle.await {
            Ok(Ok(())) => Some("ok".to_string()),
            Ok(Err(e)) if e.contains("in use") || e.contains("ermission") => None,
            Ok(Err(e)) => Some(format!("error: {e}")),
            Err(_) => Some("panic".to_string()),
        };
        if let Some(how) = how {
            return json!({"family": "returned-early", "of": fam, "cfg": sc["cfg"], "returned": how});
        }
    }
    json!({"family": fam, "harnessError": "the listener did not come up on its port"})
}

fn label_addr(l: &str) -> SocketAddr {
    match l {
        "ipA" => "203.0.113.10:40001".parse().unwrap(),
        "ipA2" => "203.0.113.10:40777".parse().unwrap(), // same IP, another port
        "ipB" => "198.51.100.20:40002".parse().unwrap(),
        "ip6" => "[2001:db8::66]:40003".parse().unwrap(),
        // an IPv6 address whose low 32 bits are ipA's (the deprecated "IPv4-compatible" form ::a.b.c.d): another host all the same
        "ip6c" => "[::203.0.113.10]:40004".parse().unwrap(),
        // two IPv4 clients as a dual-stack socket / a TCP6 balancer reports them (IPv4-mapped IPv6 addresses): two different clients
        "ip4m" => "[::ffff:198.51.100.77]:40005".parse().unwrap(),
        "ip4n" => "[::ffff:192.0.2.33]:40006".parse().unwrap(),
        _ => "192.0.2.99:40009".parse().unwrap(),
    }
}
fn addr_label(a: &SocketAddr) -> String {
    for l in ["ipA", "ipA2", "ipB", "ip6", "ip6c", "ip4m", "ip4n"] {
        if label_addr(l) == *a {
            return l.to_string();
        }
    }
    if a.ip().is_loopback() {
        return if a.ip().to_string() == "127.0.0.2" { "p2".into() } else { "p1".into() };
    }
    format!("other:{a}")
}
fn peer_ip(l: &str) -> IpAddr {
    if l == "p2" { "127.0.0.2".parse().unwrap() } else { "127.0.0.1".parse().unwrap() }
}

fn header_bytes(hdr: &str, src: SocketAddr, port: u16) -> Vec<u8> {
    let dst_v4: SocketAddr = format!("10.0.0.1:{port}").parse().unwrap();
    let dst_v6: SocketAddr = format!("[2001:db8::1]:{port}").parse().unwrap();
    let dst = if src.is_ipv4() { dst_v4 } else { dst_v6 };
    match hdr {
        "v1" => proxy_v1(src, dst),
        "v2" => proxy_v2(src, dst),
        // the same header with the transport nibble DGRAM instead of STREAM (0x12 / 0x22)
        "v2dgram" => {
            let mut h = proxy_v2(src, dst);
            h[13] = (h[13] & 0xf0) | 0x02;
            h
        }
        // valid headers that announce no address: the balancer's own connection (health check)
        "v1unknown" => b"PROXY UNKNOWN\r\n".to_vec(),
        "v2local" => vec![0x0D, 0x0A, 0x0D, 0x0A, 0x00, 0x0D, 0x0A, 0x51, 0x55, 0x49, 0x54, 0x0A, 0x20, 0x00, 0x00, 0x00],
        "invalid" => b"PROXY NONSENSE 1 2 3\r\n".to_vec(),
        "garbage" => vec![0x0D, 0x0A, 0x0D, 0x0A, 0x00, 0x0D, 0x0A, 0x51, 0x55, 0x49, 0x54, 0x0A, 0x7f, 0x7f, 0, 0],
        _ => vec![],
    }
}

// ---------------------------------------------------------------------------------------------
// C15: a sequenced history of connections against one listener
// ---------------------------------------------------------------------------------------------
async fn run_c15(sc: &Value) -> Value {
    let run = start(&sc["cfg"], 0).await;
    if !run.ok {
        return not_up(run, "C15", sc).await;
    }
    // the readiness probe of `start` came from 127.0.0.1 without a header: with the limiter on and PROXY off it consumed
    // one admission of p1 -- the history accounts for it explicitly as connection 0
    let secret = sc["cfg"]["secret"].as_bool().unwrap_or(false);
    let mut conns = vec![];
    for c in sc["conns"].as_array().cloned().unwrap_or_default() {
        let peer = c["peer"].as_str().unwrap_or("p1");
        let hdr = c["hdr"].as_str().unwrap_or("none");
        let src = label_addr(c["src"].as_str().unwrap_or("ipA"));
        let before = { let s = run.seen.lock().unwrap(); (s.status_addrs.len(), s.auth_addrs.len()) };
        let mut rec = json!({"peer": peer, "hdr": hdr, "src": c["src"], "kind": c["kind"]});
        match Tcp::connect(SocketAddr::new("127.0.0.1".parse().unwrap(), run.port), Some(peer_ip(peer))).await {
            Err(e) => {
                rec["outcome"] = json!(format!("connect-error:{e}"));
            }
            Ok(mut t) => {
                let hb = header_bytes(hdr, src, run.port);
                // a balancer that is slow to announce the address: the connection is there, its header follows later
                if let Some(ms) = c["hdrDelayMs"].as_u64() {
                    tokio::time::sleep(Duration::from_millis(ms)).await;
                }
                if !hb.is_empty() {
                    // every third connection with a header: the header and the client's first frames leave in ONE segment
                    if conns.len() % 3 == 1 {
                        t.cork();
                        rec["coalesced"] = json!(true);
                    }
                    if conns.len() % 3 == 2 && hb.len() >= 4 {
                        // ... every third one: the header itself arrives in two segments
                        rec["splitHeader"] = json!(true);
                        let _ = t.send_raw(&hb[..hb.len() / 2]).await;
                        tokio::time::sleep(Duration::from_millis(40)).await;
                        let _ = t.send_raw(&hb[hb.len() / 2..]).await;
                    } else {
                        let _ = t.send_raw(&hb).await;
                    }
                }
                if c["kind"] == "login" {
                    let o = login(&mut t, 2, "Player", 7, None, "success", Duration::from_millis(1500)).await;
                    let mut cookie_addr = "none".to_string();
                    let mut end = "closed".to_string();
                    if o.login_success.is_some() {
                        let cf = configuration(&mut t, true, true, Duration::from_millis(2000)).await;
                        end = if cf["end"] == "transfer" { "served".into() } else { cf["end"].as_str().unwrap_or("?").to_string() };
                        for ck in cf["cookies"].as_array().cloned().unwrap_or_default() {
                            if ck["key"] == "passage:authentication" {
                                let p = crate::refcodec::unhex(ck["payload"].as_str().unwrap_or(""));
                                if p.len() > 32 {
                                    let j: Value = serde_json::from_slice(&p[32..]).unwrap_or(Value::Null);
                                    cookie_addr = j["client_addr"].as_str().and_then(|s| s.parse::<SocketAddr>().ok()).map(|a| addr_label(&a)).unwrap_or("unparseable".into());
                                }
                            }
                        }
                    } else if t.bytes_received > 0 {
                        end = "partial".into();
                    }
                    rec["outcome"] = json!(end);
                    rec["cookieAddr"] = json!(cookie_addr);
                } else if c["kind"] == "glance" {
                    // reads the status and hangs up (no Ping): a connection like any other as far as admission goes
                    rec["outcome"] = json!(crate::tcpclient::status_glance(&mut t, Duration::from_millis(1500)).await);
                    rec["cookieAddr"] = json!("none");
                } else {
                    rec["outcome"] = json!(status_exchange(&mut t, None, Duration::from_millis(1500)).await);
                    rec["cookieAddr"] = json!("none");
                }
                rec["bytes"] = json!(t.bytes_received);
                let _ = secret;
            }
        }
        tokio::time::sleep(Duration::from_millis(30)).await;
        let s = run.seen.lock().unwrap();
        let seen_now: Vec<String> = s.status_addrs[before.0..].iter().chain(s.auth_addrs[before.1..].iter()).map(addr_label).collect();
        rec["adapterAddr"] = json!(seen_now.first().cloned().unwrap_or("none".into()));
        rec["adapterCalls"] = json!(seen_now.len());
        conns.push(rec);
    }
    run.stop.cancel();
    let _ = tokio::time::timeout(Duration::from_secs(5), run.handle).await;
    json!({"family": "C15", "cfg": sc["cfg"], "conns": conns})
}

// ---------------------------------------------------------------------------------------------
// C16: hostile sockets stalled at a stage, then a well-behaved client
// ---------------------------------------------------------------------------------------------
async fn park(stage: &str, port: u16, proxied: bool) -> Option<Tcp> {
    let mut t = Tcp::connect(SocketAddr::new("127.0.0.1".parse().unwrap(), port), None).await.ok()?;
    // "flood-mapped": the flooding client is an IPv4 client reported in IPv4-mapped form
    let hdr = proxy_v1(label_addr(if stage == "flood-mapped" { "ip4m" } else { "ipB" }), format!("[2001:db8::1]:{port}").parse::<SocketAddr>().ok().filter(|_| stage == "flood-mapped").unwrap_or(format!("10.0.0.1:{port}").parse().unwrap()));
    match stage {
        "pre-header" => {}
        "in-header" => {
            let _ = t.send_raw(&hdr[..hdr.len() / 2]).await;
        }
        _ => {
            if proxied {
                let _ = t.send_raw(&hdr).await;
            }
            match stage {
                "mid-frame" => {
                    let f = crate::refcodec::frame(0, &body_handshake(770, "play.example.org", 25565, 2));
                    let _ = t.send_raw(&f[..f.len() / 2]).await;
                }
                "mid-login" => {
                    let _ = login(&mut t, 2, "Staller", 9, None, "loginstart", Duration::from_millis(500)).await;
                }
                // half a frame, then the client closes its sending direction (FIN) but keeps the socket open
                "half-close" => {
                    let f = crate::refcodec::frame(0, &body_handshake(770, "play.example.org", 25565, 2));
                    let _ = t.send_raw(&f[..f.len() / 2]).await;
                    let _ = tokio::io::AsyncWriteExt::shutdown(&mut t.s).await;
                }
                // a flood from ONE announced source address: more connections than the limiter allows for it
                "flood" | "flood-mapped" => {
                    for _ in 0..6 {
                        if let Ok(mut f) = Tcp::connect(SocketAddr::new("127.0.0.1".parse().unwrap(), port), None).await {
                            if proxied {
                                let _ = f.send_raw(&hdr).await;
                            }
                            let _ = status_exchange(&mut f, None, Duration::from_millis(300)).await;
                        }
                    }
                }
                "no-echo" => {
                    let o = login(&mut t, 2, "Mute", 10, None, "success", Duration::from_millis(1500)).await;
                    if o.login_success.is_some() {
                        let _ = t.send_frame(3, &[]).await; // Login Acknowledged, then silence (never Client Information, never an echo)
                    }
                }
                _ => {}
            }
        }
    }
    Some(t)
}

/// Connections that are reset (SO_LINGER 0) the moment the kernel has completed the handshake -- many of them before the
/// accept loop has taken them out of the backlog. Blocking sockets on plain threads: no scheduler between connect and reset.
fn reset_burst(port: u16, threads: usize, each: usize) {
    let hs: Vec<_> = (0..threads)
        .map(|_| {
            std::thread::spawn(move || {
                for _ in 0..each {
                    if let Ok(s) = socket2::Socket::new(socket2::Domain::IPV4, socket2::Type::STREAM, None) {
                        let _ = s.set_linger(Some(Duration::ZERO));
                        let _ = s.connect(&SocketAddr::from(([127, 0, 0, 1], port)).into());
                        drop(s);
                    }
                }
            })
        })
        .collect();
    for h in hs {
        let _ = h.join();
    }
}

/// Requests the status and never reads the answer (tiny receive buffer): the server is left with undelivered data.
async fn park_unread(port: u16, proxied: bool) -> Option<Tcp> {
    let s = socket2::Socket::new(socket2::Domain::IPV4, socket2::Type::STREAM, None).ok()?;
    let _ = s.set_recv_buffer_size(1024);
    s.connect(&SocketAddr::from(([127, 0, 0, 1], port)).into()).ok()?;
    s.set_nonblocking(true).ok()?;
    let std_s: std::net::TcpStream = s.into();
    let mut t = Tcp::from_stream(tokio::net::TcpStream::from_std(std_s).ok()?);
    if proxied {
        let _ = t.send_raw(&proxy_v1(label_addr("ipB"), format!("10.0.0.1:{port}").parse().unwrap())).await;
    }
    let _ = t.send_frame(0, &body_handshake(770, "h", 25565, 1)).await;
    let _ = t.send_frame(0, &[]).await;
    Some(t)
}

async fn good_client(port: u16, proxied: bool, wait_ms: u64) -> (String, u64) {
    good_client_kind(port, proxied, wait_ms, "status", "ipA").await
}

/// kind "login": the well-behaved client is a player ("Victim") who logs in completely and is transferred.
async fn good_client_kind(port: u16, proxied: bool, wait_ms: u64, kind: &str, src: &str) -> (String, u64) {
    good_client_from(port, proxied, wait_ms, kind, src, None).await
}

/// `local`: the loopback address the client connects from (its TCP peer address; matters when the PROXY protocol is off)
async fn good_client_from(port: u16, proxied: bool, wait_ms: u64, kind: &str, src: &str, local: Option<IpAddr>) -> (String, u64) {
    let started = Instant::now();
    let mut outcome = "connect-error".to_string();
    if let Ok(mut t) = Tcp::connect(SocketAddr::new("127.0.0.1".parse().unwrap(), port), local).await {
        if proxied {
            let from = label_addr(src);
            let dst: SocketAddr = if from.is_ipv4() { format!("10.0.0.1:{port}").parse().unwrap() } else { format!("[2001:db8::1]:{port}").parse().unwrap() };
            let _ = t.send_raw(&proxy_v1(from, dst)).await;
        }
        if kind == "login" {
            let o = login(&mut t, 2, "Victim", 77, None, "success", Duration::from_millis(wait_ms)).await;
            outcome = if o.login_success.is_some() {
                let c = configuration(&mut t, true, true, Duration::from_millis(wait_ms)).await;
                if c["end"] == "transfer" { "served".to_string() } else { format!("end:{}", c["end"].as_str().unwrap_or("?")) }
            } else {
                format!("stopped:{}", o.reached)
            };
        } else {
            outcome = status_exchange(&mut t, None, Duration::from_millis(wait_ms)).await;
        }
    }
    (outcome, started.elapsed().as_millis() as u64)
}

async fn run_c16(sc: &Value) -> Value {
    let run = start(&sc["cfg"], 0).await;
    if !run.ok {
        return not_up(run, "C16", sc).await;
    }
    let proxied = sc["cfg"]["proxy"].as_str().unwrap_or("off") != "off";
    let mut parked = vec![];
    let mut floods: Vec<tokio::task::JoinHandle<()>> = vec![];
    for h in sc["hostile"].as_array().cloned().unwrap_or_default() {
        match h.as_str().unwrap_or("") {
            "reset-burst" => {
                let port = run.port;
                let _ = tokio::task::spawn_blocking(move || reset_burst(port, 8, 40)).await;
            }
            "unread-status" => {
                if let Some(t) = park_unread(run.port, proxied).await {
                    parked.push(t);
                }
            }
            // twenty clients complete the whole login and then never acknowledge it (whatever a login holds must be given back at once)
            "login-stall-20" => {
                let mut hs = vec![];
                for i in 0..20u128 {
                    let port = run.port;
                    hs.push(tokio::spawn(async move {
                        let mut t = Tcp::connect(SocketAddr::new("127.0.0.1".parse().unwrap(), port), None).await.ok()?;
                        if proxied {
                            let _ = t.send_raw(&proxy_v1(label_addr("ipB"), format!("10.0.0.1:{port}").parse().unwrap())).await;
                        }
                        let _ = login(&mut t, 2, &format!("Staller{i}"), 100 + i, None, "success", Duration::from_millis(2500)).await;
                        Some(t)
                    }));
                }
                for h in hs {
                    if let Ok(Some(t)) = h.await {
                        parked.push(t);
                    }
                }
            }
            // clients that log in completely and report locales nobody has a table for -- odd ones among them; each is told (in some language)
            // that there is no server for it and is gone
            "odd-locales" => {
                for (i, loc) in ["_x", "x_", "_", "__", "de__AT", "a_b_c_d_e_f", "\u{e9}_\u{e9}", "_DE", "de_", "zz"].iter().enumerate() {
                    let port = run.port;
                    let loc = loc.to_string();
                    floods.push(tokio::spawn(async move {
                        let Ok(mut t) = Tcp::connect(SocketAddr::new("127.0.0.1".parse().unwrap(), port), None).await else { return };
                        if proxied {
                            let _ = t.send_raw(&proxy_v1(label_addr("ipB"), format!("10.0.0.1:{port}").parse().unwrap())).await;
                        }
                        let o = login(&mut t, 2, "Polyglot", 300 + i as u128, None, "success", Duration::from_millis(2000)).await;
                        if o.login_success.is_some() {
                            let _ = configuration_loc(&mut t, Some(&loc), true, Duration::from_millis(3000)).await;
                        }
                    }));
                }
                tokio::time::sleep(Duration::from_millis(800)).await;
            }
            // very many DIFFERENT addresses, each connecting once (well within its own budget) and looking at the status: whatever the server
            // keeps per address, a client it has never seen is served like the first one was  ("addresses-120000")
            st if st.starts_with("addresses-") && proxied => {
                let n: u32 = st["addresses-".len()..].parse().unwrap_or(1000);
                let port = run.port;
                let lanes = 48u32;
                let mut hs = vec![];
                for lane in 0..lanes {
                    hs.push(tokio::spawn(async move {
                        let local: IpAddr = format!("127.0.0.{}", 10 + lane % 40).parse().unwrap();
                        let mut served = 0u32;
                        let mut k = lane;
                        while k < n {
                            let src: SocketAddr = format!("10.{}.{}.{}:4000", 1 + (k >> 16), (k >> 8) & 0xff, k & 0xff).parse().unwrap();
                            if let Ok(mut t) = Tcp::connect(SocketAddr::new("127.0.0.1".parse().unwrap(), port), Some(local)).await {
                                let _ = t.send_raw(&proxy_v1(src, format!("10.0.0.1:{port}").parse().unwrap())).await;
                                if crate::tcpclient::status_glance(&mut t, Duration::from_millis(2000)).await == "served" {
                                    served += 1;
                                }
                            }
                            k += lanes;
                        }
                        served
                    }));
                }
                let mut served = 0;
                for h in hs {
                    served += h.await.unwrap_or(0);
                }
                eprintln!("addresses: {served} of {n} served");
            }
            // somebody else CLAIMS the well-behaved player's name and id in Login Start and goes silent
            "claim-victim" => {
                if let Ok(mut t) = Tcp::connect(SocketAddr::new("127.0.0.1".parse().unwrap(), run.port), None).await {
                    if proxied {
                        let _ = t.send_raw(&proxy_v1(label_addr("ipB"), format!("10.0.0.1:{}", run.port).parse().unwrap())).await;
                    }
                    let _ = login(&mut t, 2, "Victim", 77, None, "loginstart", Duration::from_millis(500)).await;
                    parked.push(t);
                }
            }
            // hundreds of connected, silent peers (more than any plausible built-in cap on open connections)
            "silent-400" => {
                for _ in 0..400 {
                    if let Ok(t) = Tcp::connect(SocketAddr::new("127.0.0.1".parse().unwrap(), run.port), None).await {
                        parked.push(t);
                    }
                }
            }
            // one address uses up its budget, is refused -- and simply keeps the refused connection open
            "refused-lingers" => {
                let hdr = proxy_v1(label_addr("ipB"), format!("10.0.0.1:{}", run.port).parse().unwrap());
                let local: Option<IpAddr> = if proxied { None } else { Some("127.0.0.2".parse().unwrap()) };
                for _ in 0..(sc["cfg"]["limit"].as_u64().unwrap_or(2) + 2) {
                    if let Ok(mut t) = Tcp::connect(SocketAddr::new("127.0.0.1".parse().unwrap(), run.port), local).await {
                        if proxied {
                            let _ = t.send_raw(&hdr).await;
                        }
                        let _ = status_exchange(&mut t, None, Duration::from_millis(300)).await;
                        parked.push(t); // served or refused: the client never closes
                    }
                }
            }
            // three clients log in completely and then send ignorable plugin messages as fast as the socket takes them
            "login-flood" => {
                for i in 0..(sc["cfg"]["flooders"].as_u64().unwrap_or(3) as u128) {
                    let port = run.port;
                    floods.push(tokio::spawn(async move {
                        let Ok(mut t) = Tcp::connect(SocketAddr::new("127.0.0.1".parse().unwrap(), port), None).await else { return };
                        if proxied {
                            let _ = t.send_raw(&proxy_v1(label_addr("ipB"), format!("10.0.0.1:{port}").parse().unwrap())).await;
                        }
                        let o = login(&mut t, 2, "Flooder", 20 + i, None, "success", Duration::from_millis(2000)).await;
                        if o.login_success.is_none() {
                            return;
                        }
                        let _ = t.send_frame(3, &[]).await;
                        let mut body = Vec::new();
                        crate::refcodec::put_string(&mut body, "minecraft:brand");
                        body.extend(std::iter::repeat_n(b'v', 40));
                        t.cork();
                        loop {
                            for _ in 0..400 {
                                let _ = t.send_frame(2, &body).await;
                            }
                            if !t.uncork().await {
                                return;
                            }
                            t.cork();
                        }
                    }));
                }
                tokio::time::sleep(Duration::from_millis(600)).await;
            }
            st => {
                if let Some(t) = park(st, run.port, proxied).await {
                    parked.push(t);
                }
            }
        }
    }
    tokio::time::sleep(Duration::from_millis(200)).await;
    let good_kind = sc["goodKind"].as_str().unwrap_or("status").to_string();
    let (outcome, latency) = if sc["cfg"]["bigStatus"].as_bool().unwrap_or(false) { ("served".to_string(), 0) } else { good_client_kind(run.port, proxied, 4000, &good_kind, sc["goodSrc"].as_str().unwrap_or("ipA")).await };
    // ... and a second well-behaved client right behind the first (from another address, announced or -- without the PROXY protocol -- as TCP peer: its own budget), while the others are still parked:
    // one connection that finished must not change anything for the next one.  Reported as the worse of the two.
    let (outcome, latency) = if sc["cfg"]["bigStatus"].as_bool().unwrap_or(false) || outcome != "served" {
        (outcome, latency)
    } else {
        let second_src = if sc["goodSrc"].as_str().unwrap_or("ipA") == "ipA" { "ip6" } else { "ipA" };
        let (o2, l2) = good_client_from(run.port, proxied, 4000, "status", second_src, Some("127.0.0.4".parse().unwrap())).await;
        if o2 == "served" { (outcome, latency.max(l2)) } else { (format!("second:{o2}"), l2) }
    };
    // a second well-behaved client after a quiet period in which the server gave up on the parked ones (their deadline passed)
    let timeout_ms = sc["cfg"]["timeoutMs"].as_u64().unwrap_or(3000);
    let (quiet_outcome, quiet_latency) = match sc["quietAfterMs"].as_u64() {
        Some(extra) => {
            tokio::time::sleep(Duration::from_millis((timeout_ms + extra).saturating_sub(200 + latency))).await;
            let port = run.port;
            let big = sc["cfg"]["bigStatus"].as_bool().unwrap_or(false);
            if big {
                // only the connection and the first byte of the answer count (the client does not download the icon)
                let started = Instant::now();
                let mut o = "connect-error".to_string();
                if let Ok(mut t) = Tcp::connect(SocketAddr::new("127.0.0.1".parse().unwrap(), port), None).await {
                    if proxied {
                        let _ = t.send_raw(&proxy_v1(label_addr("ipA"), format!("10.0.0.1:{port}").parse().unwrap())).await;
                    }
                    let _ = t.send_frame(0, &body_handshake(770, "h", 25565, 1)).await;
                    let _ = t.send_frame(0, &[]).await;
                    let mut b = [0u8; 64];
                    o = match tokio::time::timeout(Duration::from_millis(8000), tokio::io::AsyncReadExt::read(&mut t.s, &mut b)).await {
                        Ok(Ok(n)) if n > 0 => "served".into(),
                        Ok(_) => "closed".into(),
                        Err(_) => "timeout".into(),
                    };
                }
                (o, started.elapsed().as_millis() as u64)
            } else {
                good_client(port, proxied, 4000).await
            }
        }
        None => ("served".to_string(), 0),
    };
    // C17 on the side: does the listener still stop while hostile sockets are parked?
    run.stop.cancel();
    let stop_at = Instant::now();
    let returned = tokio::time::timeout(Duration::from_millis(sc["cfg"]["timeoutMs"].as_u64().unwrap_or(3000) + 2000), run.handle).await.is_ok();
    let return_ms = stop_at.elapsed().as_millis() as u64;
    drop(parked);
    for f in floods {
        f.abort();
    }
    json!({"family": "C16", "cfg": sc["cfg"], "hostile": sc["hostile"], "goodOutcome": outcome, "goodLatencyMs": latency,
           "quietOutcome": quiet_outcome, "quietLatencyMs": quiet_latency,
           "returnedAfterStop": returned, "returnMs": return_ms})
}

// ---------------------------------------------------------------------------------------------
// C17: in-flight connections at chosen stages, stop, late arrivals
// ---------------------------------------------------------------------------------------------
async fn run_c17(sc: &Value) -> Value {
    let delay = sc["discoverDelayMs"].as_u64().unwrap_or(1200);
    let run = start(&sc["cfg"], delay).await;
    if !run.ok {
        return not_up(run, "C17", sc).await;
    }
    let t0 = Instant::now();
    let port = run.port;
    let timeout_ms = sc["cfg"]["timeoutMs"].as_u64().unwrap_or(3000);
    let mut tasks = vec![];
    for st in sc["inflight"].as_array().cloned().unwrap_or_default() {
        // "stage" or "stage@startDelayMs"
        let spec = st.as_str().unwrap_or("").to_string();
        let (stage, start_delay) = match spec.split_once('@') {
            Some((a, b)) => (a.to_string(), b.parse::<u64>().unwrap_or(0)),
            None => (spec.clone(), 0),
        };
        let proxied = sc["cfg"]["proxy"].as_str().unwrap_or("off") != "off";
        let stop_after = sc["stopAfterMs"].as_u64().unwrap_or(400);
        tasks.push(tokio::spawn(async move {
            tokio::time::sleep(Duration::from_millis(start_delay)).await;
            let Ok(mut t) = Tcp::connect(SocketAddr::new("127.0.0.1".parse().unwrap(), port), None).await else {
                return json!({"stage": stage, "end": "connect-error", "endMs": 0, "cooperating": false});
            };
            let started = t0.elapsed().as_millis() as u64;
            if proxied {
                if stage == "header-after-stop" {
                    // accepted before the stop, the PROXY header only arrives after it: still an in-flight connection
                    tokio::time::sleep(Duration::from_millis((stop_after + 200).saturating_sub(started))).await;
                }
                let _ = t.send_raw(&proxy_v1(label_addr("ipA"), format!("10.0.0.1:{port}").parse().unwrap())).await;
            }
            let (end, coop) = match stage.as_str() {
                "accepted-silent" => ("eof-or-timeout".to_string(), false),
                "mid-login" => {
                    let _ = login(&mut t, 2, "Half", 11, None, "loginstart", Duration::from_millis(500)).await;
                    ("eof-or-timeout".to_string(), false)
                }
                // cooperating clients: complete the login, report client information, echo keep-alives
                _ => {
                    let o = login(&mut t, 2, "Coop", 12, None, "success", Duration::from_millis(2000)).await;
                    if o.login_success.is_some() {
                        let cf = configuration(&mut t, true, true, Duration::from_millis(timeout_ms + 1000)).await;
                        (cf["end"].as_str().unwrap_or("?").to_string(), true)
                    } else {
                        ("login-failed".to_string(), true)
                    }
                }
            };
            let eof = t.wait_eof(Duration::from_millis(timeout_ms + 1500)).await;
            json!({"stage": stage, "end": end, "startMs": started, "endMs": eof.map(|_| t0.elapsed().as_millis() as u64).unwrap_or(0), "closed": eof.is_some(), "cooperating": coop})
        }));
    }
    let burst = sc["burst"].as_u64().unwrap_or(0);
    let stop_after = sc["stopAfterMs"].as_u64().unwrap_or(400);
    tokio::time::sleep(Duration::from_millis(stop_after.saturating_sub(if burst > 0 { 100 } else { 0 }))).await;
    if burst > 0 {
        // a burst of ordinary clients right before the stop: the accept queue is not empty when the stop is requested
        for _ in 0..burst {
            tokio::spawn(async move {
                if let Ok(mut t) = Tcp::connect(SocketAddr::new("127.0.0.1".parse().unwrap(), port), None).await {
                    let _ = status_exchange(&mut t, None, Duration::from_millis(1500)).await;
                }
            });
        }
        tokio::time::sleep(Duration::from_millis(100)).await;
    }
    run.stop.cancel();
    let stop_ms = t0.elapsed().as_millis() as u64;
    // late arrivals
    let mut late_tasks = vec![];
    let late_proxied = sc["cfg"]["proxy"].as_str().unwrap_or("off") != "off";
    let late_soon = sc["lateSoon"].as_bool().unwrap_or(false);
    for k in 0..sc["late"].as_u64().unwrap_or(1) {
        late_tasks.push(tokio::spawn(async move {
            // the first ones soon after the stop and close to each other (60, 90, 120 ... ms), the others further apart
            tokio::time::sleep(Duration::from_millis(if late_soon { 60 + 30 * k } else { 200 + 150 * k })).await;
            match Tcp::connect(SocketAddr::new("127.0.0.1".parse().unwrap(), port), None).await {
                Err(_) => json!({"outcome": "refused", "bytes": 0}),
                Ok(mut t) => {
                    if late_proxied {
                        let _ = t.send_raw(&proxy_v1(label_addr("ipB"), format!("10.0.0.1:{port}").parse().unwrap())).await;
                    }
                    let o = status_exchange(&mut t, None, Duration::from_millis(700)).await;
                    json!({"outcome": o, "bytes": t.bytes_received})
                }
            }
        }));
    }
    let returned = tokio::time::timeout(Duration::from_millis(timeout_ms + 2500), run.handle).await;
    let returned_ms = if returned.is_ok() { t0.elapsed().as_millis() as i64 } else { -1 };
    let mut inflight = vec![];
    for t in tasks {
        inflight.push(t.await.unwrap_or(json!({"stage": "?", "end": "panic", "endMs": 0, "closed": false, "cooperating": false})));
    }
    let mut late = vec![];
    for t in late_tasks {
        late.push(t.await.unwrap_or(json!({"outcome": "panic", "bytes": 0})));
    }
    json!({"family": "C17", "cfg": sc["cfg"], "discoverDelayMs": delay, "stopMs": stop_ms, "returnedMs": returned_ms, "inflight": inflight, "late": late, "timeoutMs": timeout_ms})
}

/// A tracing layer that stalls inside the span of `RateLimiter::enqueue` (which is entered while the limiter is held):
/// it widens the window in which two connections are decided at the same moment from nanoseconds to `ms`.
struct StallEnqueue(u64);
impl<S: tracing::Subscriber + for<'a> tracing_subscriber::registry::LookupSpan<'a>> tracing_subscriber::Layer<S> for StallEnqueue {
    fn on_enter(&self, id: &tracing::span::Id, ctx: tracing_subscriber::layer::Context<'_, S>) {
        if ctx.span(id).map(|s| s.name() == "enqueue").unwrap_or(false) {
            std::thread::sleep(Duration::from_millis(self.0));
        }
    }
}

/// A tracing layer that spends `us` microseconds of CPU whenever a span of the given name is entered (an operator's exporter /
/// subscriber costs something per packet): with it the server handles packets more slowly than a flooding client produces them,
/// so that such a client's socket never runs dry.
struct SlowSpan(String, u64);
impl<S: tracing::Subscriber + for<'a> tracing_subscriber::registry::LookupSpan<'a>> tracing_subscriber::Layer<S> for SlowSpan {
    fn on_enter(&self, id: &tracing::span::Id, ctx: tracing_subscriber::layer::Context<'_, S>) {
        if ctx.span(id).map(|s| s.name() == self.0).unwrap_or(false) {
            let t = Instant::now();
            while (t.elapsed().as_micros() as u64) < self.1 {
                std::hint::spin_loop();
            }
        }
    }
}

// ---------------------------------------------------------------------------------------------
// C15 (race): n connections from the same address at the same moment
// ---------------------------------------------------------------------------------------------
async fn run_c15race(sc: &Value) -> Value {
    let run = start(&sc["cfg"], 0).await;
    if !run.ok {
        return not_up(run, "C15race", sc).await;
    }
    let n = sc["n"].as_u64().unwrap_or(4);
    let port = run.port;
    let mut hs = vec![];
    for _ in 0..n {
        hs.push(tokio::spawn(async move {
            match Tcp::connect(SocketAddr::new("127.0.0.1".parse().unwrap(), port), None).await {
                Err(_) => json!({"outcome": "connect-error", "bytes": 0}),
                Ok(mut t) => {
                    let o = status_exchange(&mut t, None, Duration::from_millis(3000)).await;
                    json!({"outcome": o, "bytes": t.bytes_received})
                }
            }
        }));
    }
    let mut res = vec![];
    for h in hs {
        res.push(h.await.unwrap_or(json!({"outcome": "panic", "bytes": 0})));
    }
    run.stop.cancel();
    let _ = tokio::time::timeout(Duration::from_secs(5), run.handle).await;
    let served = res.iter().filter(|r| r["outcome"] == "served").count();
    json!({"family": "C15race", "cfg": sc["cfg"], "n": n, "results": res, "served": served})
}

pub fn main(args: &[String]) {
    let mut input = None;
    let mut output = None;
    let mut parallel = 8usize;
    let mut it = args.iter();
    while let Some(a) = it.next() {
        match a.as_str() {
            "--in" => input = it.next().cloned(),
            "--out" => output = it.next().cloned(),
            "--parallel" => parallel = it.next().and_then(|s| s.parse().ok()).unwrap_or(8),
            "--slow-span" => {
                use tracing_subscriber::layer::SubscriberExt;
                let spec = it.next().cloned().unwrap_or_default();
                let (name, us) = spec.split_once(':').map(|(a, b)| (a.to_string(), b.parse().unwrap_or(30))).unwrap_or((spec.clone(), 30));
                let _ = tracing::subscriber::set_global_default(tracing_subscriber::registry().with(SlowSpan(name, us)));
            }
            "--stall-enqueue-ms" => {
                use tracing_subscriber::layer::SubscriberExt;
                let ms = it.next().and_then(|s| s.parse().ok()).unwrap_or(50);
                let _ = tracing::subscriber::set_global_default(tracing_subscriber::registry().with(StallEnqueue(ms)));
            }
            _ => {}
        }
    }
    let text = std::fs::read_to_string(input.expect("--in")).expect("read input");
    let scs: Vec<Value> = text.lines().filter(|l| !l.trim().is_empty()).map(|l| serde_json::from_str(l).expect("json")).collect();
    // panics of the code under test (connection tasks) are counted; with --report-panics a final record says how many there were
    static PANICS: std::sync::atomic::AtomicUsize = std::sync::atomic::AtomicUsize::new(0);
    std::panic::set_hook(Box::new(|_| {
        PANICS.fetch_add(1, std::sync::atomic::Ordering::Relaxed);
    }));
    let report_panics = args.iter().any(|a| a == "--report-panics");
    let n_scs = scs.len();
    let rt = tokio::runtime::Builder::new_multi_thread().worker_threads(8).enable_all().build().unwrap();
    let out = rt.block_on(async move {
        let sem = Arc::new(tokio::sync::Semaphore::new(parallel));
        let mut hs = vec![];
        for (i, sc) in scs.into_iter().enumerate() {
            let sem = sem.clone();
            hs.push(tokio::spawn(async move {
                let _p = sem.acquire().await.unwrap();
                let mut r = match sc["family"].as_str().unwrap_or("") {
                    "C15" => run_c15(&sc).await,
                    "C15race" => run_c15race(&sc).await,
                    "C16" => run_c16(&sc).await,
                    "C17" => run_c17(&sc).await,
                    _ => json!({"family": "?"}),
                };
                r["line"] = json!(i + 1);
                r
            }));
        }
        let mut out = String::new();
        for h in hs {
            let v = h.await.unwrap_or(json!({"family": "panic"}));
            out.push_str(&v.to_string());
            out.push('\n');
        }
        out
    });
    let mut out = out;
    let panics = PANICS.load(std::sync::atomic::Ordering::Relaxed);
    if report_panics && panics > 0 {
        out.push_str(&json!({"family": "panicked", "count": panics, "line": n_scs + 1}).to_string());
        out.push('\n');
    }
    std::fs::write(output.expect("--out"), out).expect("write output");
    std::process::exit(0);
}

/// Readiness probe from a loopback address no scenario uses (so it never touches a rate-limit key of a scenario).
fn probe(port: u16) -> bool {
    let sock = socket_from("127.0.0.3");
    sock.and_then(|s| s.connect(&std::net::SocketAddr::from(([127, 0, 0, 1], port)).into()).ok()).is_some()
}
fn socket_from(ip: &str) -> Option<socket2_like::Sock> {
    socket2_like::Sock::new(ip)
}
mod socket2_like {
    //! tiny std-only "bind then connect" helper
    use std::net::{SocketAddr, TcpStream};
    pub struct Sock(SocketAddr);
    impl Sock {
        pub fn new(ip: &str) -> Option<Self> {
            Some(Sock(format!("{ip}:0").parse().ok()?))
        }
        pub fn connect(&self, to: &SocketAddr) -> std::io::Result<TcpStream> {
            // std has no bind-before-connect; use a tokio socket on a throw-away current-thread runtime
            let local = self.0;
            let to = *to;
            std::thread::spawn(move || {
                let rt = tokio::runtime::Builder::new_current_thread().enable_all().build()?;
                rt.block_on(async move {
                    let s = tokio::net::TcpSocket::new_v4()?;
                    s.bind(local)?;
                    let st = s.connect(to).await?;
                    st.into_std()
                })
            })
            .join()
            .unwrap_or_else(|_| Err(std::io::Error::other("probe thread panicked")))
        }
    }
}
