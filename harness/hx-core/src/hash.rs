//! `hx hash`: calls the real `passage_adapters::authentication::minecraft_hash` on the C11 input vectors and records
//! what it returned.  The harness only DRIVES and RECORDS: the expected text is computed by TLC from the digest that
//! travels with the vector (spec/Trace_McHash.tla, McHash!SignedHex).
//!
//! Input (NDJSON, one vector per line; written by lib/hash_check.py from lib/gen_hash_vectors.py):
//!   sid     hex of the UTF-8 bytes of the server id        secret  hex of the shared secret
//!   pubkey  hex of the encoded public key                  digest  SHA-1 of the three (hashlib), echoed, not used here
//! Output (NDJSON, same order):
//!   line      1-based number of the vector         vec   the vector exactly as given
//!   got       the bytes of the returned String      got_str  the same as text (for reading; not judged)
//!   panic     the call panicked                     harness_error  the vector could not be fed to the function at all
use passage_adapters::authentication::minecraft_hash;
use serde_json::{json, Value};
use std::panic::{catch_unwind, AssertUnwindSafe};

fn unhex(v: &Value) -> Result<Vec<u8>, String> {
    let s = v.as_str().ok_or_else(|| format!("not a hex string: {v}"))?;
    if s.len() % 2 != 0 {
        return Err(format!("odd hex length: {s}"));
    }
    (0..s.len()).step_by(2).map(|i| u8::from_str_radix(&s[i..i + 2], 16).map_err(|e| format!("bad hex {s}: {e}"))).collect()
}

pub fn main(args: &[String]) {
    let mut input = None;
    let mut output = None;
    let mut it = args.iter();
    while let Some(a) = it.next() {
        match a.as_str() {
            "--in" => input = it.next().cloned(),
            "--out" => output = it.next().cloned(),
            _ => {}
        }
    }
    std::panic::set_hook(Box::new(|_| {}));
    let text = std::fs::read_to_string(input.expect("--in")).expect("read input");
    let mut out = String::new();
    for (k, line) in text.lines().filter(|l| !l.trim().is_empty()).enumerate() {
        let vec: Value = serde_json::from_str(line).expect("json");
        let parts = (|| -> Result<(String, Vec<u8>, Vec<u8>), String> {
            let sid = String::from_utf8(unhex(&vec["sid"])?).map_err(|_| "server id is not UTF-8".to_string())?;
            Ok((sid, unhex(&vec["secret"])?, unhex(&vec["pubkey"])?))
        })();
        let rec = match parts {
            Err(e) => json!({"line": k + 1, "vec": vec, "got": [], "got_str": "", "panic": false, "harness_error": e}),
            Ok((sid, secret, pubkey)) => match catch_unwind(AssertUnwindSafe(|| minecraft_hash(&sid, &secret, &pubkey))) {
                Ok(s) => json!({"line": k + 1, "vec": vec, "got": s.as_bytes(), "got_str": s, "panic": false, "harness_error": ""}),
                Err(_) => json!({"line": k + 1, "vec": vec, "got": [], "got_str": "", "panic": true, "harness_error": ""}),
            },
        };
        out.push_str(&rec.to_string());
        out.push('\n');
    }
    std::fs::write(output.expect("--out"), out).expect("write output");
}
