//! `hx cipher`: poll-level schedules exported from spec/Cipher.tla (and seeded random ones) replayed against the
//! real `CipherStream` wrapped around the scripted transport. After every poll the harness records how much
//! plaintext was reported written, what the transport accepted, and how long the accepted bytes agree with an
//! INDEPENDENT AES-128-CFB8 (raw block function, key = IV = secret, one continuous stream) of that plaintext;
//! likewise for the read direction. The verdict is TLC's (Trace_Cipher.tla).
use crate::mock::{WriteOutcome, pipe};
use crate::refcodec::{RefCfb8, Rng};
use passage_protocol::crypto::stream::{CipherStream, create_ciphers};
use serde_json::{Value, json};
use std::pin::Pin;
use std::task::{Context, Poll, Waker};
use tokio::io::{AsyncRead, AsyncWrite, ReadBuf};

fn common_prefix(a: &[u8], b: &[u8]) -> usize {
    a.iter().zip(b.iter()).take_while(|(x, y)| x == y).count()
}

fn reference(p: &[u8], plain: usize, secret: &[u8; 16]) -> Vec<u8> {
    let mut out = p[..plain].to_vec();
    out.extend(RefCfb8::new(secret).encrypt(&p[plain..]));
    out
}

pub fn run_schedule(ws: &[usize], sw: usize, sched: &[Value], r: &mut Rng, scale: usize) -> Value {
    let total: usize = ws.iter().sum::<usize>() * scale;
    let ws: Vec<usize> = ws.iter().map(|w| w * scale).collect();
    let plain: usize = ws[..sw].iter().sum();
    let mut p = r.bytes(total);
    let mut secret = [0u8; 16];
    secret.copy_from_slice(&r.bytes(16));
    let mut refstream = reference(&p, plain, &secret);
    let waker = Waker::noop();
    let mut cx = Context::from_waker(waker);

    // ---- write direction ----
    let (inner, end) = pipe();
    let mut cs = CipherStream::from_stream(inner);
    if sw == 0 {
        let (e, d) = create_ciphers(&secret).unwrap();
        cs.set_encryption(Some(e), Some(d));
    }
    let (mut wi, mut off, mut rep) = (0usize, 0usize, 0usize);
    let mut accepted: Vec<u8> = vec![];
    let mut wpolls = vec![];
    for s in sched.iter().filter(|s| s["op"] == "w" || s["op"] == "wv" || s["op"] == "abandon") {
        if wi >= ws.len() {
            break;
        }
        if s["op"] == "abandon" {
            // the caller gives up on the bytes it offered (nothing of them was reported written) and will offer others
            let fresh = r.bytes(total - rep);
            p[rep..].copy_from_slice(&fresh);
            refstream = reference(&p, plain, &secret);
            continue;
        }
        let k = s["k"].as_u64().unwrap_or(0) as usize * scale;
        let pending = s["out"] == "pending";
        end.plan_writes(vec![if pending { WriteOutcome::Pending } else { WriteOutcome::Accept(k) }]);
        let buf = &p[rep..rep - off + ws[wi]];
        let sp = (s["sp"].as_u64().unwrap_or(0) as usize * scale).min(buf.len());
        let res = if s["op"] == "wv" {
            let slices = [std::io::IoSlice::new(&buf[..sp]), std::io::IoSlice::new(&buf[sp..])];
            Pin::new(&mut cs).poll_write_vectored(&mut cx, &slices)
        } else {
            Pin::new(&mut cs).poll_write(&mut cx, buf)
        };
        let got = match res {
            Poll::Pending => {
                end.release_write();
                0
            }
            Poll::Ready(Ok(n)) => n,
            Poll::Ready(Err(_)) => 0,
        };
        accepted.extend(end.take_out());
        rep += got;
        off += got;
        wpolls.push(json!({"out": if matches!(res, Poll::Pending) { "pending" } else { "accept" }, "rep": rep, "acc": accepted.len(),
                           "match": common_prefix(&accepted, &refstream)}));
        if off >= ws[wi] {
            wi += 1;
            off = 0;
            if wi == sw && sw > 0 {
                let (e, d) = create_ciphers(&secret).unwrap();
                cs.set_encryption(Some(e), Some(d));
            }
        }
    }

    // a vectored write may have been taken slice by slice, so that the plan ran out before the bytes did: the rest is written
    // with plain polls that the transport accepts completely
    let mut guard = 0;
    while wi < ws.len() && guard < 100_000 {
        guard += 1;
        end.plan_writes(vec![WriteOutcome::Accept(usize::MAX)]);
        let buf = &p[rep..rep - off + ws[wi]];
        let res = Pin::new(&mut cs).poll_write(&mut cx, buf);
        let got = match res {
            Poll::Ready(Ok(n)) => n,
            _ => 0,
        };
        accepted.extend(end.take_out());
        rep += got;
        off += got;
        wpolls.push(json!({"out": "accept", "rep": rep, "acc": accepted.len(), "match": common_prefix(&accepted, &refstream)}));
        if got == 0 {
            break;
        }
        if off >= ws[wi] {
            wi += 1;
            off = 0;
            if wi == sw && sw > 0 {
                let (e, d) = create_ciphers(&secret).unwrap();
                cs.set_encryption(Some(e), Some(d));
            }
        }
    }

    // ---- read direction: the peer sends the same plaintext through its own continuous stream ----
    let (inner, end) = pipe();
    let mut cs = CipherStream::from_stream(inner);
    if sw == 0 {
        let (e, d) = create_ciphers(&secret).unwrap();
        cs.set_encryption(Some(e), Some(d));
    }
    let mut sent = 0usize;
    let mut taken = 0usize;
    let mut surfaced: Vec<u8> = vec![];
    let mut rpolls = vec![];
    let mut cipher_on = sw == 0;
    for s in sched.iter().filter(|s| s["op"] == "arrive" || s["op"] == "r") {
        if s["op"] == "arrive" {
            let n = (s["n"].as_u64().unwrap_or(0) as usize * scale).min(total - sent);
            end.push(&refstream[sent..sent + n]);
            sent += n;
            continue;
        }
        let cap = s["n"].as_u64().unwrap_or(1) as usize * scale;
        let pre = (s["k"].as_u64().unwrap_or(0) as usize).min(cap.saturating_sub(1));
        let mut storage = vec![0xEEu8; cap];
        let mut rb = ReadBuf::new(&mut storage);
        rb.put_slice(&vec![0xAAu8; pre]);
        let res = Pin::new(&mut cs).poll_read(&mut cx, &mut rb);
        let filled = rb.filled().to_vec();
        let pre_intact = filled.len() >= pre && filled[..pre].iter().all(|b| *b == 0xAA);
        let new = &filled[pre.min(filled.len())..];
        surfaced.extend_from_slice(new);
        taken += new.len();
        rpolls.push(json!({"out": if matches!(res, Poll::Pending) { "pending" } else { "read" }, "taken": taken, "surf": surfaced.len(),
                           "match": common_prefix(&surfaced, &p), "preIntact": pre_intact}));
        if !cipher_on && taken >= plain {
            let (e, d) = create_ciphers(&secret).unwrap();
            cs.set_encryption(Some(e), Some(d));
            cipher_on = true;
        }
    }
    json!({"ws": ws, "sw": sw, "total": total, "plain": plain, "w": wpolls, "r": rpolls, "sentToReader": sent})
}

fn random_schedule(r: &mut Rng) -> (Vec<usize>, usize, Vec<Value>) {
    let nw = 1 + r.below(4) as usize;
    // sizes around the usual buffer sizes too (4 KiB, 8 KiB, 16 KiB and beyond)
    let ws: Vec<usize> = (0..nw)
        .map(|_| match r.below(4) {
            0 => [4095usize, 4096, 4097, 8192, 8193, 16384, 16385, 20000, 40000][r.below(9) as usize],
            1 => 4097 + r.below(30000) as usize,
            _ => 1 + r.below(4096) as usize,
        })
        .collect();
    let sw = r.below(nw as u64 + 1) as usize;
    let mut sched = vec![];
    for w in &ws {
        let mut left = *w;
        while left > 0 {
            let (op, sp) = if left >= 2 && r.below(5) == 0 { ("wv", 1 + r.below(left as u64 - 1) as usize) } else { ("w", 0) };
            if r.below(4) == 0 {
                sched.push(json!({"op": op, "n": left, "out": "pending", "k": 0, "sp": sp}));
                if r.below(3) == 0 {
                    sched.push(json!({"op": "abandon", "n": left, "out": "-", "k": 0, "sp": 0}));
                }
                continue;
            }
            // (single-byte progress only on small remainders: every poll encrypts the whole offered buffer)
            let k = match r.below(4) {
                0 if left <= 2048 => 1,
                0 => [1024usize, 4096, 8192][r.below(3) as usize].min(left),
                1 | 2 => left,
                _ => 1 + r.below(left as u64) as usize,
            };
            sched.push(json!({"op": op, "n": left, "out": "accept", "k": k, "sp": sp}));
            // a vectored write may be taken slice by slice: the harness follows what the stream reports, the plan is only an upper bound
            left -= if op == "wv" { k.min(left) } else { k };
        }
    }
    let total: usize = ws.iter().sum();
    let plain: usize = ws[..sw].iter().sum();
    let mut sent = 0;
    let mut taken = 0;
    let mut avail = 0;
    let mut cipher = sw == 0;
    while taken < total {
        if avail == 0 {
            if r.below(5) == 0 {
                sched.push(json!({"op": "r", "n": 1 + r.below(64), "out": "pending", "k": 0}));
            }
            let lim = if cipher { total } else { plain } - sent;
            let n = match r.below(3) {
                0 => 1,
                1 => lim,
                _ => 1 + r.below(lim as u64) as usize,
            };
            sched.push(json!({"op": "arrive", "n": n, "out": "-", "k": 0}));
            sent += n;
            avail += n;
        }
        let cap = [1usize, 2, 16, 17, 1024, 5000][r.below(6) as usize];
        let pre = if cap > 1 { r.below(2) as usize } else { 0 };
        sched.push(json!({"op": "r", "n": cap, "out": "read", "k": pre}));
        let m = avail.min(cap - pre);
        taken += m;
        avail -= m;
        if !cipher && taken >= plain {
            cipher = true;
        }
    }
    (ws, sw, sched)
}

pub fn main(args: &[String]) {
    let mut input = None;
    let mut output = None;
    let mut seed = 1u64;
    let mut random = 0usize;
    let mut it = args.iter();
    while let Some(a) = it.next() {
        match a.as_str() {
            "--in" => input = it.next().cloned(),
            "--out" => output = it.next().cloned(),
            "--seed" => seed = it.next().and_then(|s| s.parse().ok()).unwrap_or(1),
            "--random" => random = it.next().and_then(|s| s.parse().ok()).unwrap_or(0),
            _ => {}
        }
    }
    std::panic::set_hook(Box::new(|_| {}));
    let mut r = Rng::new(seed ^ 0xc1f8);
    let mut out = String::new();
    let mut run = |src: &str, ws: &[usize], sw: usize, sched: &[Value], scale: usize, r: &mut Rng| {
        let res = std::panic::catch_unwind(std::panic::AssertUnwindSafe(|| run_schedule(ws, sw, sched, r, scale)));
        let mut rec = match res {
            Ok(v) => v,
            Err(_) => json!({"ws": ws, "sw": sw, "total": 0, "plain": 0, "w": [], "r": [], "sentToReader": 0, "panic": true}),
        };
        rec["src"] = json!(src);
        if rec.get("panic").is_none() {
            rec["panic"] = json!(false);
        }
        out.push_str(&rec.to_string());
        out.push('\n');
    };
    if let Some(p) = input {
        let text = std::fs::read_to_string(p).expect("read input");
        for (i, line) in text.lines().filter(|l| !l.trim().is_empty()).enumerate() {
            let b: Value = serde_json::from_str(line).expect("json");
            let ws: Vec<usize> = b["ws"].as_array().map(|a| a.iter().map(|x| x.as_u64().unwrap_or(1) as usize).collect()).unwrap_or_default();
            let sw = b["sw"].as_u64().unwrap_or(0) as usize;
            let sched = b["sched"].as_array().cloned().unwrap_or_default();
            // abstract byte = `scale` concrete bytes: 1, or a size that crosses the AES block size
            let scale = [1usize, 1, 7, 16, 17][(seed as usize + i) % 5];
            run("model", &ws, sw, &sched, scale, &mut r);
        }
    }
    for _ in 0..random {
        let (ws, sw, sched) = random_schedule(&mut r);
        run("random", &ws, sw, &sched, 1, &mut r);
    }
    std::fs::write(output.expect("--out"), out).expect("write output");
}
