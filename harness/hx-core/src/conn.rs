//! `hx conn`: replay of behaviours exported from spec/Conn.tla (and ConnTimed / Frames schedules)
//! against the real `passage_protocol::connection::Connection`.
//!
//! Input: one abstract behaviour per line (JSON, as printed by TLC). Output: one observation per
//! line: the same event vocabulary, produced from what the real code did. The comparison is done by
//! lib/conn_check.py with per-property projections.
#![allow(clippy::too_many_arguments)]

use crate::mock::{ClientEnd, pipe};
use crate::refcodec::*;
use passage_adapters::authentication::{AuthenticationAdapter, Profile, ProfileProperty};
use passage_adapters::discovery::DiscoveryAdapter;
use passage_adapters::filter::FilterAdapter;
use passage_adapters::localization::LocalizationAdapter;
use passage_adapters::status::StatusAdapter;
use passage_adapters::strategy::StrategyAdapter;
use passage_adapters::{
    FixedLocalizationAdapter, Protocol, ServerPlayers, ServerStatus, ServerVersion, Target,
};
use passage_protocol::connection::Connection;
use rsa::pkcs8::DecodePublicKey;
use rsa::rand_core::UnwrapErr;
use rsa::{Pkcs1v15Encrypt, RsaPrivateKey, RsaPublicKey};
use serde_json::{Value, json};
use std::collections::HashMap;
use std::net::SocketAddr;
use std::sync::{Arc, Mutex, OnceLock};
use std::time::{Duration, SystemTime, UNIX_EPOCH};
use uuid::Uuid;

pub type Log = Arc<Mutex<Vec<Value>>>;

#[derive(Clone, Debug)]
pub struct Ident {
    pub name: String,
    pub id: Uuid,
}

/// Concrete values standing behind the abstract labels of one behaviour.
#[derive(Debug)]
pub struct Conc {
    pub claimed: Ident,
    pub other: Ident,
    pub cookie: Ident,
    pub vouched_props: Vec<ProfileProperty>,
    pub cookie_props: Vec<ProfileProperty>,
    pub client_addr: SocketAddr,
    pub other_addr: SocketAddr,
    pub hs_host: String,
    pub hs_port: u16,
    pub protocol: i32,
    pub targets: HashMap<String, Target>,
    pub secret_s: Vec<u8>,
    pub secret_s2: Vec<u8>,
    pub expiry: u64,
    pub max_len: i32,
    pub shared_secret: [u8; 16],
    pub status_some: ServerStatus,
    pub loc_tables: HashMap<String, HashMap<String, String>>,
    pub msg_head: &'static str,
}

fn rand_uuid(r: &mut Rng) -> Uuid {
    Uuid::from_u128(((r.next() as u128) << 64) | r.next() as u128)
}

fn prop(r: &mut Rng, name: &str) -> ProfileProperty {
    ProfileProperty {
        name: name.to_string(),
        value: hex(&r.bytes(6)),
        signature: if r.below(2) == 0 { None } else { Some(hex(&r.bytes(8))) },
    }
}

/// every configured message ends in characters whose Java "modified UTF-8" form differs from UTF-8
pub const MSG_TAIL: &str = "\u{1F600}\0\u{e9}\u{20ac}";

impl Conc {
    pub fn new(r: &mut Rng) -> Self {
        let names_a = ["Steve", "Alex_0123456789a", "Jörg_Ünï", "a", "N0tch"];
        let names_b = ["Herobrine", "zzzzzzzzzzzzzzzz", "Ωmega", "b", "jeb_"];
        let names_c = ["CookieMonster", "cccccccccccccccc", "Çédric", "c", "Dinnerbone"];
        let i = r.below(5) as usize;
        let claimed = Ident { name: names_a[i].into(), id: rand_uuid(r) };
        let other = Ident { name: names_b[r.below(5) as usize].into(), id: rand_uuid(r) };
        let cookie = Ident { name: names_c[r.below(5) as usize].into(), id: rand_uuid(r) };
        let nv = 1 + r.below(3) as usize;
        // (a profile may carry two properties of the same name, e.g. a signed one and an unsigned override: every third profile with 2+ does)
        let same_name = r.below(3) == 0;
        let vouched_props = (0..nv).map(|k| prop(r, &if same_name { "textures".to_string() } else { format!("textures{k}") })).collect();
        let nc = 1 + r.below(2) as usize;
        let cookie_props = (0..nc).map(|k| prop(r, &format!("ck{k}"))).collect();
        let form = r.below(4);
        let client_addr: SocketAddr = if form == 0 {
            format!("[2001:db8::{:x}]:{}", 1 + r.below(0xfffe), 1024 + r.below(60000)).parse().unwrap()
        } else if form == 1 {
            // IPv4-mapped IPv6: what a dual-stack listener or a PROXY TCP6 header reports for an IPv4 client
            format!("[::ffff:198.51.100.{}]:{}", 1 + r.below(250), 1024 + r.below(60000)).parse().unwrap()
        } else {
            format!("198.51.100.{}:{}", 1 + r.below(250), 1024 + r.below(60000)).parse().unwrap()
        };
        let other_addr: SocketAddr = if r.below(2) == 0 {
            format!("[2001:db8:ffff::{:x}]:{}", 1 + r.below(0xfffe), client_addr.port()).parse().unwrap()
        } else {
            format!("203.0.113.{}:{}", 1 + r.below(250), client_addr.port()).parse().unwrap()
        };
        let ports = [0u16, 1, 25565, 65535];
        let v6forms = ["2001:db8::6", "::1", "::ffff:10.0.0.1", "2001:db8:1:2:3:4:5:6"];
        let mut targets = HashMap::new();
        let mk = |id: &str, addr: String, meta: &[(&str, &str)]| Target {
            identifier: id.to_string(),
            address: addr.parse().unwrap(),
            meta: meta.iter().map(|(k, v)| (k.to_string(), v.to_string())).collect(),
        };
        targets.insert("t1".into(), mk("lobby-1", format!("10.1.2.3:{}", ports[r.below(4) as usize]), &[("players", "3")]));
        targets.insert("t2".into(), mk("lobby-2", format!("10.1.2.4:{}", ports[r.below(4) as usize]), &[]));
        targets.insert(
            "t6".into(),
            mk("six", format!("[{}]:{}", v6forms[r.below(4) as usize], ports[r.below(4) as usize]), &[("k", "v"), ("unicode", "ü")]),
        );
        targets.insert("t9".into(), mk("outside", format!("192.0.2.9:{}", ports[r.below(4) as usize]), &[("x", "y")]));
        let slen = [1usize, 32, 200][r.below(3) as usize];
        let mut secret_s = r.bytes(slen);
        match r.below(6) {
            0 => *secret_s.last_mut().unwrap() = b'\n', // a secret read from a file with its trailing newline
            1 => secret_s[0] = b' ',
            _ => {}
        }
        let mut secret_s2 = r.bytes(slen);
        if secret_s2 == secret_s {
            secret_s2[0] ^= 1;
        }
        let mut shared_secret = [0u8; 16];
        shared_secret.copy_from_slice(&r.bytes(16));
        let mut loc_tables = HashMap::new();
        // configured messages are plain text (anything that does not open a JSON object): some look like the start of other JSON values
        let msg_head = ["MSG", "[MSG", "[]MSG", "\"MSG", "0MSG", " {MSG", "nullMSG"][r.below(7) as usize];
        for t in ["de_DE", "fr", "en_US"] {
            let mut m = HashMap::new();
            for k in ["disconnect_no_target", "disconnect_timeout"] {
                m.insert(k.to_string(), format!("{msg_head}|{k}|{t}|{MSG_TAIL}"));
            }
            loc_tables.insert(t.to_string(), m);
        }
        Conc {
            claimed,
            other,
            cookie,
            vouched_props,
            cookie_props,
            client_addr,
            other_addr,
            // (also a fully qualified name with its trailing dot and the host as a modded client sends it, with a NUL-separated marker)
            hs_host: ["play.example.org", "h", "mc.example.net", "mc.example.org.", "play.example.org\0FML3\0"][r.below(5) as usize].to_string(),
            hs_port: [25565u16, 1, 65535][r.below(3) as usize],
            protocol: [770, 767, 0][r.below(3) as usize],
            targets,
            secret_s,
            secret_s2,
            expiry: [60u64, 21600][r.below(2) as usize],
            max_len: [1000, 10_000][r.below(2) as usize],
            shared_secret,
            status_some: ServerStatus {
                version: ServerVersion { name: "V".into(), protocol: 770 },
                players: Some(ServerPlayers { online: 1, max: 20, sample: None }),
                description: None,
                // every fourth server has an icon: the Status Response is then a frame of about 20 KB (a three-byte length prefix)
                favicon: if r.below(4) == 0 { Some(format!("data:image/png;base64,{}", "iVBORw0KGgo".repeat(1800))) } else { None },
                enforces_secure_chat: Some(true),
            },
            loc_tables,
            msg_head,
        }
    }

    pub fn ident_label(&self, name: &str, id: &Uuid) -> String {
        let n = |x: &Ident| x.name == name;
        let u = |x: &Ident| &x.id == id;
        for (l, x) in [("claimed", &self.claimed), ("other", &self.other), ("cookie", &self.cookie)] {
            if n(x) && u(x) {
                return l.to_string();
            }
        }
        format!("mixed:{name}/{id}")
    }
    pub fn props_label(&self, p: &[ProfileProperty]) -> String {
        if p == self.vouched_props.as_slice() {
            // (also when the service vouched for a profile WITHOUT properties: the empty list is then what has to be kept)
            "vouched".into()
        } else if p.is_empty() {
            "none".into()
        } else if p == self.cookie_props.as_slice() {
            "cookie".into()
        } else {
            format!("other:{}", p.len())
        }
    }
    pub fn target_label(&self, t: &Target) -> String {
        for (l, x) in &self.targets {
            if x.identifier == t.identifier && x.address == t.address && x.meta == t.meta {
                return l.clone();
            }
        }
        format!("other:{}", t.identifier)
    }
    pub fn target_labels(&self, ts: &[Target]) -> Value {
        Value::Array(ts.iter().map(|t| Value::String(self.target_label(t))).collect())
    }
    pub fn secret(&self, label: &str) -> Option<Vec<u8>> {
        match label {
            "S" => Some(self.secret_s.clone()),
            "S2" => Some(self.secret_s2.clone()),
            _ => None,
        }
    }
}

// ---------------------------------------------------------------------------------------------
// recording adapters
// ---------------------------------------------------------------------------------------------

pub struct RoundCtx {
    pub conc: Arc<Conc>,
    pub log: Log,
    pub rets: Mutex<HashMap<String, Value>>, // adapter name -> scripted return
    pub lats: HashMap<String, u64>,          // adapter name -> virtual latency in ms
    pub client_addr: SocketAddr,
    pub sent_secret: Mutex<Option<Vec<u8>>>, // what the client put into its Encryption Response
    pub seen_pub: Mutex<Option<Vec<u8>>>,    // the key the server announced
    pub fixed_loc: FixedLocalizationAdapter,
    pub t0: tokio::time::Instant,
    pub t_div: u64, // 1: log milliseconds, 1000: log seconds (timed tiers)
    pub real_delay_ms: u64, // discovery blocks for this long in REAL time (wall-clock dependent behaviour: cookie timestamps)
    pub var: u64,           // selects the kind of error a failing service reports
    pub failed: Mutex<std::collections::HashSet<String>>, // services that failed once keep failing when they are asked again
    pub answered: Mutex<Vec<Value>>, // {a, at}: service a returned its answer when the log had `at` entries (a dropped request never does)
}

impl RoundCtx {
    fn push(&self, c: Value) {
        let t = self.t0.elapsed().as_millis() as u64 / self.t_div;
        self.log.lock().unwrap().push(json!({"e": "call", "c": c, "t": t}));
    }
    fn ret(&self, a: &str) -> Option<Value> {
        let r = self.rets.lock().unwrap().remove(a);
        if matches!(&r, Some(v) if v == "err" || *v == json!(["ERR"])) {
            self.failed.lock().unwrap().insert(a.to_string());
        }
        r
    }
    /// A service that failed is down for the rest of the connection: asking it again (a retry is the implementation's own business and
    /// is not recorded) fails the same way.
    async fn down(&self, a: &str) -> Option<passage_adapters::Error> {
        if self.failed.lock().unwrap().contains(a) {
            self.lat(a).await;
            return Some(adapter_err(self.var));
        }
        None
    }
    async fn lat(&self, a: &str) {
        if let Some(ms) = self.lats.get(a) {
            if *ms > 0 {
                tokio::time::sleep(Duration::from_millis(*ms)).await;
            }
        }
        let at = self.log.lock().unwrap().len();
        self.answered.lock().unwrap().push(json!({"a": a, "at": at}));
    }
    fn args_ok(&self, c: &SocketAddr, s: (&str, u16), p: Protocol) -> bool {
        *c == self.client_addr && s.0 == self.conc.hs_host && s.1 == self.conc.hs_port && p == self.conc.protocol
    }
    fn targets_of(&self, v: &Value) -> Vec<Target> {
        v.as_array()
            .map(|a| a.iter().filter_map(|l| self.conc.targets.get(l.as_str().unwrap_or("")).cloned()).collect())
            .unwrap_or_default()
    }
}

fn adapter_err(var: u64) -> passage_adapters::Error {
    let cause = || Box::new(std::io::Error::new(std::io::ErrorKind::ConnectionReset, "scripted failure")) as Box<dyn std::error::Error + Send + Sync>;
    match var % 4 {
        0 => passage_adapters::Error::AdapterUnavailable { adapter_type: "scripted", reason: "scripted failure" },
        1 => passage_adapters::Error::FailedFetch { adapter_type: "scripted", cause: cause() },
        2 => passage_adapters::Error::FailedParse { adapter_type: "scripted", cause: cause() },
        _ => passage_adapters::Error::FailedInitialization { adapter_type: "scripted", cause: cause() },
    }
}

pub struct Rec(pub Arc<RoundCtx>);
impl std::fmt::Debug for Rec {
    fn fmt(&self, f: &mut std::fmt::Formatter<'_>) -> std::fmt::Result {
        write!(f, "Rec")
    }
}

impl StatusAdapter for Rec {
    async fn status(&self, c: &SocketAddr, s: (&str, u16), p: Protocol) -> passage_adapters::Result<Option<ServerStatus>> {
        let x = &self.0;
        if let Some(e) = x.down("status").await {
            return Err(e);
        }
        let ret = x.ret("status").unwrap_or(json!("null"));
        x.push(json!({"a": "status", "args": x.args_ok(c, s, p), "ret": ret}));
        x.lat("status").await;
        match ret.as_str() {
            Some("some") => Ok(Some(x.conc.status_some.clone())),
            Some("err") => Err(adapter_err(x.var)),
            _ => Ok(None),
        }
    }
}

impl AuthenticationAdapter for Rec {
    async fn authenticate(
        &self,
        c: &SocketAddr,
        s: (&str, u16),
        p: Protocol,
        user: (&str, &Uuid),
        shared_secret: &[u8],
        encoded_public: &[u8],
    ) -> passage_adapters::Result<Profile> {
        let x = &self.0;
        if let Some(e) = x.down("auth").await {
            return Err(e);
        }
        let ret = x.ret("auth").unwrap_or(json!("other"));
        let secret_ok = x.sent_secret.lock().unwrap().as_deref() == Some(shared_secret);
        let pub_ok = x.seen_pub.lock().unwrap().as_deref() == Some(encoded_public);
        x.push(json!({"a": "auth", "who": x.conc.ident_label(user.0, user.1), "secretOk": secret_ok, "pubOk": pub_ok,
                      "args": x.args_ok(c, s, p), "ret": ret}));
        x.lat("auth").await;
        match ret.as_str() {
            Some("same") => Ok(Profile {
                id: x.conc.claimed.id,
                name: x.conc.claimed.name.clone(),
                properties: x.conc.vouched_props.clone(),
                profile_actions: vec![],
            }),
            Some("err") => Err(adapter_err(x.var)),
            _ => Ok(Profile {
                id: x.conc.other.id,
                name: x.conc.other.name.clone(),
                properties: x.conc.vouched_props.clone(),
                profile_actions: vec![],
            }),
        }
    }
}

impl DiscoveryAdapter for Rec {
    async fn discover(&self) -> passage_adapters::Result<Vec<Target>> {
        let x = &self.0;
        if let Some(e) = x.down("discover").await {
            return Err(e);
        }
        let ret = x.ret("discover").unwrap_or(json!(["t1"]));
        x.push(json!({"a": "discover", "ret": ret}));
        x.lat("discover").await;
        if x.real_delay_ms > 0 {
            std::thread::sleep(Duration::from_millis(x.real_delay_ms));
        }
        if ret == json!(["ERR"]) {
            return Err(adapter_err(x.var));
        }
        Ok(x.targets_of(&ret))
    }
}

impl FilterAdapter for Rec {
    async fn filter(
        &self,
        c: &SocketAddr,
        s: (&str, u16),
        p: Protocol,
        user: (&str, &Uuid),
        targets: Vec<Target>,
    ) -> passage_adapters::Result<Vec<Target>> {
        let x = &self.0;
        if let Some(e) = x.down("filter").await {
            return Err(e);
        }
        let input = x.conc.target_labels(&targets);
        let ret = x.ret("filter").unwrap_or_else(|| input.clone());
        x.push(json!({"a": "filter", "who": x.conc.ident_label(user.0, user.1), "in": input, "args": x.args_ok(c, s, p), "ret": ret}));
        x.lat("filter").await;
        if ret == json!(["ERR"]) {
            return Err(adapter_err(x.var));
        }
        Ok(x.targets_of(&ret))
    }
}

impl StrategyAdapter for Rec {
    async fn select(
        &self,
        c: &SocketAddr,
        s: (&str, u16),
        p: Protocol,
        user: (&str, &Uuid),
        targets: Vec<Target>,
    ) -> passage_adapters::Result<Option<Target>> {
        let x = &self.0;
        if let Some(e) = x.down("select").await {
            return Err(e);
        }
        let input = x.conc.target_labels(&targets);
        let ret = x.ret("select").unwrap_or_else(|| input.get(0).cloned().unwrap_or(json!("none")));
        x.push(json!({"a": "select", "who": x.conc.ident_label(user.0, user.1), "in": input, "args": x.args_ok(c, s, p), "ret": ret}));
        x.lat("select").await;
        match ret.as_str() {
            Some("err") => Err(adapter_err(x.var)),
            Some("none") | None => Ok(None),
            Some(l) => Ok(x.conc.targets.get(l).cloned()),
        }
    }
}

impl LocalizationAdapter for Rec {
    async fn localize(&self, locale: Option<&str>, key: &str, params: &[(&'static str, String)]) -> passage_adapters::Result<String> {
        let x = &self.0;
        x.push(json!({"a": "localize", "loc": locale.unwrap_or("none"), "key": key}));
        x.fixed_loc.localize(locale, key, params).await
    }
}

// ---------------------------------------------------------------------------------------------
// process-wide helpers
// ---------------------------------------------------------------------------------------------

fn other_keypair() -> &'static RsaPublicKey {
    static K: OnceLock<RsaPublicKey> = OnceLock::new();
    K.get_or_init(|| {
        let mut rng = UnwrapErr(rand::rngs::SysRng);
        let sk = RsaPrivateKey::new(&mut rng, 1024).expect("keygen");
        RsaPublicKey::from(&sk)
    })
}

static STALE_TOKEN: Mutex<Option<Vec<u8>>> = Mutex::new(None);

fn rsa_enc(pk: &RsaPublicKey, data: &[u8]) -> Vec<u8> {
    let mut rng = UnwrapErr(rand::rngs::SysRng);
    pk.encrypt(&mut rng, Pkcs1v15Encrypt, data).expect("rsa encrypt")
}

fn now_secs() -> u64 {
    SystemTime::now().duration_since(UNIX_EPOCH).unwrap().as_secs()
}

// ---------------------------------------------------------------------------------------------
// the scripted client
// ---------------------------------------------------------------------------------------------

#[derive(Clone, Copy, PartialEq, Debug)]
enum Stage {
    Handshake,
    StatusRequest,
    Ping,
    LoginStart,
    SessCookie,
    AuthCookie,
    EncResp,
    LoginAck,
    Config,
}

#[derive(Clone, Copy, PartialEq, Debug)]
enum DPhase {
    Status,
    Login,
    Config,
}

pub struct Jar {
    pub auth: Option<Vec<u8>>,
    pub sess: Option<Vec<u8>>,
}

pub struct Client {
    /// the server asked for the authentication cookie and has not been answered yet
    pub asked_auth: bool,
    conc: Arc<Conc>,
    ctx: Arc<RoundCtx>,
    end: ClientEnd,
    log: Log,
    stage: Stage,
    dphase: DPhase,
    intent: String,
    secret_cfg: Option<Vec<u8>>,
    expiry: u64,
    enc: Option<RefCfb8>,
    dec: Option<RefCfb8>,
    inbuf: Vec<u8>,
    token: Option<Vec<u8>>,
    pubkey: Option<Vec<u8>>,
    pub stored_auth: Option<Vec<u8>>,
    pub stored_sess: Option<Vec<u8>>,
    pub last_ka: Option<u64>,
    var: u64, // variant selector for classes that fan out
    pub var_note: String,
    rng: Rng,
}

pub enum Action {
    Send(Vec<u8>),
    SendThenClose(Vec<u8>),
    Close,
}

impl Client {
    fn push(&self, v: Value) {
        self.log.lock().unwrap().push(v);
    }

    fn body_handshake(&self, next: i32) -> Vec<u8> {
        let mut b = Vec::new();
        put_varint(&mut b, self.conc.protocol);
        put_string(&mut b, &self.conc.hs_host);
        b.extend_from_slice(&self.conc.hs_port.to_be_bytes());
        put_varint(&mut b, next);
        b
    }
    fn body_login_start(&self) -> Vec<u8> {
        let mut b = Vec::new();
        put_string(&mut b, &self.conc.claimed.name);
        b.extend_from_slice(&self.conc.claimed.id.as_u128().to_be_bytes());
        b
    }
    fn body_cookie(&self, key: &str, payload: Option<&[u8]>) -> Vec<u8> {
        let mut b = Vec::new();
        put_string(&mut b, key);
        b.push(payload.is_some() as u8);
        if let Some(p) = payload {
            put_bytes(&mut b, p);
        }
        b
    }
    fn body_client_info(&self, locale: &str, chat_mode: i32) -> Vec<u8> {
        self.body_client_info_ord(locale, [chat_mode, 1, 0])
    }

    /// Client Information with the given ordinals for chat mode, main hand and particle status.
    fn body_client_info_ord(&self, locale: &str, ord: [i32; 3]) -> Vec<u8> {
        let mut b = Vec::new();
        put_string(&mut b, locale);
        b.push(10);
        put_varint(&mut b, ord[0]);
        b.push(1);
        b.push(0x7f);
        put_varint(&mut b, ord[1]);
        b.push(0);
        b.push(1);
        put_varint(&mut b, ord[2]);
        b
    }

    fn cookie_json(&self, who: &Ident, props: &[ProfileProperty], addr: SocketAddr, ts: u64) -> Vec<u8> {
        serde_json::to_vec(&json!({
            "timestamp": ts,
            "client_addr": addr.to_string(),
            "user_name": who.name,
            "user_id": who.id.to_string(),
            "target": "lobby-1",
            "profile_properties": props.iter().map(|p| json!({"name": p.name, "value": p.value, "signature": p.signature})).collect::<Vec<_>>(),
            "extra": {},
        }))
        .unwrap()
    }

    /// Builds the authentication cookie payload for an abstract class; the acceptance predicates
    /// (tag, IP, age) hold or fail by construction with the harness's own HMAC.
    fn auth_cookie(&mut self, class: &str) -> Option<Vec<u8>> {
        // no secret configured: whatever the client signs with must not count -- it tries the EMPTY key (what a missing secret degenerates
        // to if it is ever used as a key) or an arbitrary one
        let secret = self.secret_cfg.clone().unwrap_or_else(|| if self.var % 2 == 0 { Vec::new() } else { b"unconfigured".to_vec() });
        let now = now_secs();
        let good_body = self.cookie_json(&self.conc.cookie, &self.conc.cookie_props, self.ctx.client_addr, now);
        let good = ref_sign(&good_body, &secret);
        let v = self.var;
        match class {
            "absent" => None,
            "empty" => Some(vec![]),
            "short" => {
                let n = 1 + (v % 31) as usize;
                self.var_note = format!("short:{n}");
                Some(good[..n].to_vec())
            }
            "tagOnly" => Some(good[..32].to_vec()),
            "tagFlip" => {
                let bit = (v % 256) as usize;
                self.var_note = format!("tagFlip:bit{bit}");
                let mut g = good.clone();
                g[bit / 8] ^= 1 << (bit % 8);
                Some(g)
            }
            "bodyFlip" => {
                let bits = (good.len() - 32) * 8;
                let bit = (v % bits as u64) as usize;
                self.var_note = format!("bodyFlip:bit{bit}");
                let mut g = good.clone();
                g[32 + bit / 8] ^= 1 << (bit % 8);
                Some(g)
            }
            "otherSecret" => {
                let mut s2 = secret.clone();
                match v % 6 {
                    // note: appending or dropping a zero byte gives an equivalent HMAC key (zero padding), so avoid that
                    0 => s2.push(1),
                    1 => {
                        if s2.len() > 1 && s2[s2.len() - 1] != 0 {
                            s2.pop();
                        } else {
                            s2[0] ^= 0x80;
                        }
                    }
                    2 => s2[0] ^= 1,
                    // the configured secret with a line break behind it / a blank in front of it is ANOTHER secret
                    4 => s2.push(b'\n'),
                    5 => s2.insert(0, b' '),
                    _ => s2 = b"completely different".to_vec(),
                }
                self.var_note = format!("otherSecret:{}", v % 6);
                Some(ref_sign(&good_body, &s2))
            }
            "otherIp" => {
                // an unrelated address, or one that merely LOOKS like the client's: the deprecated IPv4-compatible form ::a.b.c.d of the
                // client's IPv4 (or IPv4-mapped) address, a neighbour that differs in the last bit
                let mine = self.ctx.client_addr;
                let v4 = match mine.ip() {
                    std::net::IpAddr::V4(a) => Some(a),
                    std::net::IpAddr::V6(a) => a.to_ipv4_mapped(),
                };
                let addr = match (v % 3, v4, mine.ip()) {
                    (1, Some(a), _) => {
                        let o = a.octets();
                        SocketAddr::new(std::net::IpAddr::V6(std::net::Ipv6Addr::new(0, 0, 0, 0, 0, 0, u16::from_be_bytes([o[0], o[1]]), u16::from_be_bytes([o[2], o[3]]))), mine.port())
                    }
                    (2, _, std::net::IpAddr::V4(a)) => {
                        let mut o = a.octets();
                        o[3] ^= 1;
                        SocketAddr::new(std::net::IpAddr::V4(o.into()), mine.port())
                    }
                    (2, _, std::net::IpAddr::V6(a)) => {
                        let mut o = a.octets();
                        o[15] ^= 1;
                        SocketAddr::new(std::net::IpAddr::V6(o.into()), mine.port())
                    }
                    _ => self.conc.other_addr,
                };
                self.var_note = format!("otherIp:{addr}");
                let b = self.cookie_json(&self.conc.cookie, &self.conc.cookie_props, addr, now);
                Some(ref_sign(&b, &secret))
            }
            "otherPort" => {
                let mut a = self.ctx.client_addr;
                a.set_port(a.port().wrapping_add(1).max(1));
                let b = self.cookie_json(&self.conc.cookie, &self.conc.cookie_props, a, now);
                Some(ref_sign(&b, &secret))
            }
            "expired" => {
                let age = self.expiry + [3, 60, 10 * self.expiry][(v % 3) as usize];
                self.var_note = format!("expired:age{age}");
                let b = self.cookie_json(&self.conc.cookie, &self.conc.cookie_props, self.ctx.client_addr, now - age);
                Some(ref_sign(&b, &secret))
            }
            "justInside" => {
                let b = self.cookie_json(&self.conc.cookie, &self.conc.cookie_props, self.ctx.client_addr, now - (self.expiry - 3));
                Some(ref_sign(&b, &secret))
            }
            "nonJson" => Some(ref_sign(b"this is not json", &secret)),
            "truncJson" => Some(ref_sign(&good_body[..good_body.len() / 2], &secret)),
            "missingField" => {
                let mut j: Value = serde_json::from_slice(&good_body).unwrap();
                j.as_object_mut().unwrap().remove("user_id");
                Some(ref_sign(&serde_json::to_vec(&j).unwrap(), &secret))
            }
            "fresh" => Some(good),
            "jar" => self.stored_auth.clone(),
            _ => None,
        }
    }

    fn enc_response(&mut self, class: &str) -> Vec<u8> {
        let der = self.pubkey.clone().unwrap_or_default();
        let token = self.token.clone().unwrap_or_else(|| vec![0; 32]);
        let pk = RsaPublicKey::from_public_key_der(&der).ok();
        let secret = self.conc.shared_secret.to_vec();
        let (es, et) = match (class, pk) {
            (_, None) => (vec![1, 2, 3], vec![4, 5, 6]),
            ("honest", Some(pk)) => (rsa_enc(&pk, &secret), rsa_enc(&pk, &token)),
            ("wrongToken", Some(pk)) => {
                let mut t = token.clone();
                t[(self.var % 32) as usize] ^= 1 << (self.var % 8);
                (rsa_enc(&pk, &secret), rsa_enc(&pk, &t))
            }
            ("emptyToken", Some(pk)) => (rsa_enc(&pk, &secret), rsa_enc(&pk, &[])),
            ("prefixToken", Some(pk)) => {
                let n = [1usize, 16, 31][(self.var % 3) as usize];
                self.var_note = format!("prefixToken:{n}");
                (rsa_enc(&pk, &secret), rsa_enc(&pk, &token[..n.min(token.len())]))
            }
            ("staleToken", Some(pk)) => {
                let t = STALE_TOKEN.lock().unwrap().clone().unwrap_or_else(|| vec![9; 32]);
                (rsa_enc(&pk, &secret), rsa_enc(&pk, &t))
            }
            ("otherKey", Some(_)) => (rsa_enc(other_keypair(), &secret), rsa_enc(other_keypair(), &token)),
            ("garbage", Some(_)) => (self.rng.bytes(128), self.rng.bytes(128)),
            ("badSecretLen", Some(pk)) => {
                let v = (self.var % 5) as usize;
                let n = [15usize, 17, 32, 0, 17][v];
                self.var_note = format!("badSecretLen:{n}{}", if v == 4 { " (leading zero byte)" } else { "" });
                let mut s = self.rng.bytes(n);
                if v == 4 {
                    s[0] = 0; // what a big-integer serialisation of a 16-byte key with the top bit set looks like
                }
                *self.ctx.sent_secret.lock().unwrap() = Some(s.clone());
                (rsa_enc(&pk, &s), rsa_enc(&pk, &token))
            }
            (_, Some(pk)) => (rsa_enc(&pk, &secret), rsa_enc(&pk, &token)),
        };
        if class != "badSecretLen" {
            *self.ctx.sent_secret.lock().unwrap() = Some(secret);
        }
        let mut b = Vec::new();
        put_bytes(&mut b, &es);
        put_bytes(&mut b, &et);
        b
    }

    /// The well-formed packet (id, body) expected at the current stage, for the malformed classes.
    fn expected_packet(&mut self) -> (i32, Vec<u8>) {
        match self.stage {
            Stage::Handshake => (0, self.body_handshake(2)),
            Stage::StatusRequest => (0, vec![]),
            Stage::Ping => (1, 7u64.to_be_bytes().to_vec()),
            Stage::LoginStart => (0, self.body_login_start()),
            Stage::SessCookie => (4, self.body_cookie("passage:session", Some(b"{\"id\":\"00000000-0000-4000-8000-000000000000\",\"server_address\":\"x\",\"server_port\":1}"))),
            Stage::AuthCookie => {
                let c = self.auth_cookie("fresh");
                (4, self.body_cookie("passage:authentication", c.as_deref()))
            }
            Stage::EncResp => (1, self.enc_response("honest")),
            Stage::LoginAck => (3, vec![]),
            Stage::Config => (0, self.body_client_info("en_US", 0)),
        }
    }

    fn malformed(&mut self, class: &str) -> Action {
        let vi = |v: i32| {
            let mut b = Vec::new();
            put_varint(&mut b, v);
            b
        };
        match class {
            "lenNeg" => return Action::Send(self.seal(vi(-1))),
            "lenZero" => return Action::Send(self.seal(vi(0))),
            "lenTooBig" => return Action::Send(self.seal(vi(self.conc.max_len + 1))),
            "lenMaxInt" => return Action::Send(self.seal(vi(i32::MAX))),
            "lenOverlong" => return Action::Send(self.seal(vec![0xff, 0xff, 0xff, 0xff, 0xff])),
            "eof" => return Action::Close,
            _ => {}
        }
        let (id, body) = self.expected_packet();
        // the first field of every packet attacked here is a length-prefixed string / byte array
        let first_len = {
            let mut c = Cur::new(&body);
            match self.stage {
                Stage::Handshake => {
                    c.varint();
                }
                _ => {}
            }
            let start = c.p;
            let n = c.varint().unwrap_or(0);
            (start, c.p, n)
        };
        let (ls, le, n) = first_len;
        let with_len = |newlen: i32| {
            let mut b = body[..ls].to_vec();
            put_varint(&mut b, newlen);
            b.extend_from_slice(&body[le..]);
            b
        };
        let body2 = match class {
            "truncEOF" => {
                let f = frame(id, &body);
                let cut = (f.len() / 2).max(1);
                return Action::SendThenClose(self.seal(f[..cut].to_vec()));
            }
            "innerNeg" => with_len(-1),
            "innerHuge" => with_len(i32::MAX),
            "innerBeyond" => with_len(n + 100),
            "badUtf8" => {
                let mut b = body[..ls].to_vec();
                put_varint(&mut b, 3);
                b.extend_from_slice(&[0xff, 0xfe, 0xc0]);
                b.extend_from_slice(&body[(le + n.max(0) as usize).min(body.len())..]);
                b
            }
            "shortBody" => body[..body.len().saturating_sub(2).min(body.len())].to_vec(),
            "badOrdinal" => {
                // an ordinal outside the enumeration: just above it, far above, negative -- in any of the three enumerated settings
                let bad = [3, -1, 100, i32::MIN, i32::MAX, -2][(self.var % 6) as usize];
                let mut ord = [0, 1, 0];
                ord[((self.var / 6) % 3) as usize] = bad;
                self.var_note = format!("ordinal {} = {}", ["chat mode", "main hand", "particle status"][((self.var / 6) % 3) as usize], bad);
                self.body_client_info_ord("en_US", ord)
            }
            _ => body.clone(),
        };
        Action::Send(self.seal(frame(id, &body2)))
    }

    /// Encrypts client bytes once the cipher is on.
    fn seal(&mut self, b: Vec<u8>) -> Vec<u8> {
        match &mut self.enc {
            Some(e) => e.encrypt(&b),
            None => b,
        }
    }

    /// Turns an abstract rx frame into an action on the transport, tracking the client's stage.
    pub fn build(&mut self, f: &Value) -> Action {
        let k = f["k"].as_str().unwrap_or("");
        let st = self.stage;
        let raw: Vec<u8> = match k {
            "Malformed" => return self.malformed(f["class"].as_str().unwrap_or("")),
            // seeded random bytes (given in hex), then the client closes its end
            "Fuzz" => {
                let b = unhex(f["hex"].as_str().unwrap_or(""));
                return Action::SendThenClose(self.seal(b));
            }
            "Handshake" => {
                let next = f["next"].as_str().unwrap_or("Login");
                let n = match next {
                    "Status" => 1,
                    "Login" => 2,
                    "Transfer" => 3,
                    "next0" => 0,
                    _ => 4,
                };
                if st == Stage::Handshake {
                    self.intent = next.to_string();
                    if next == "Status" {
                        self.stage = Stage::StatusRequest;
                        self.dphase = DPhase::Status;
                    } else {
                        self.stage = Stage::LoginStart;
                        self.dphase = DPhase::Login;
                    }
                }
                frame(0, &self.body_handshake(n))
            }
            "StatusRequest" => {
                if st == Stage::StatusRequest {
                    self.stage = Stage::Ping;
                }
                frame(0, &[])
            }
            "Ping" => {
                let pl: u64 = match f["payload"].as_str() {
                    Some("pMax") => u64::MAX,
                    Some("p0") => 0,
                    _ => 0x0102030405060708,
                };
                frame(1, &pl.to_be_bytes())
            }
            "LoginStart" => {
                if st == Stage::LoginStart {
                    self.stage = Stage::SessCookie;
                }
                frame(0, &self.body_login_start())
            }
            "LoginCookieResponse" => {
                let which = f["which"].as_str().unwrap_or("session");
                let v = f["v"].as_str().unwrap_or("absent").to_string();
                if which == "session" {
                    let payload: Option<Vec<u8>> = match v.as_str() {
                        "valid" => Some(
                            serde_json::to_vec(&json!({"id": "11111111-2222-4333-8444-555555555555", "server_address": "old.example.org", "server_port": 25565, "trace_id": null}))
                                .unwrap(),
                        ),
                        "badjson" => Some(b"{not json".to_vec()),
                        "jar" => self.stored_sess.clone(),
                        _ => None,
                    };
                    if st == Stage::SessCookie {
                        self.stage = if self.intent == "Transfer" && self.secret_cfg.is_some() { Stage::AuthCookie } else { Stage::EncResp };
                    }
                    frame(4, &self.body_cookie("passage:session", payload.as_deref()))
                } else {
                    self.asked_auth = false;
                    let payload = self.auth_cookie(&v);
                    if st == Stage::AuthCookie {
                        self.stage = Stage::EncResp;
                    }
                    frame(4, &self.body_cookie("passage:authentication", payload.as_deref()))
                }
            }
            "EncryptionResponse" => {
                let class = f["c"].as_str().unwrap_or("garbage").to_string();
                let body = self.enc_response(&class);
                let fr = frame(1, &body);
                if st == Stage::EncResp {
                    self.stage = Stage::LoginAck;
                    // from here on both directions are encrypted with the secret the client chose
                    let out = self.seal(fr);
                    self.enc = Some(RefCfb8::new(&self.conc.shared_secret));
                    self.dec = Some(RefCfb8::new(&self.conc.shared_secret));
                    return Action::Send(out);
                }
                fr
            }
            "LoginPluginResponse" => {
                let mut b = Vec::new();
                put_varint(&mut b, 1);
                b.push(0);
                frame(2, &b)
            }
            "LoginAck" => {
                if st == Stage::LoginAck {
                    self.stage = Stage::Config;
                }
                frame(3, &[])
            }
            "AckFinish" => frame(3, &[]),
            "ClientInfo" => {
                let l = f["locale"].as_str().unwrap_or("en_US").to_string();
                frame(0, &self.body_client_info(&l, 0))
            }
            "CfgCookieResponse" => frame(1, &self.body_cookie("passage:other", None)),
            "PluginMessage" => {
                let mut b = Vec::new();
                put_string(&mut b, "minecraft:brand");
                let n = f.get("size").and_then(|x| x.as_u64()).unwrap_or(7) as usize;
                b.extend(std::iter::repeat_n(b'v', n));
                frame(2, &b)
            }
            "KeepAlive" => {
                let id: u64 = match f.get("id").and_then(|x| x.as_str()) {
                    Some("last") => self.last_ka.unwrap_or(1),
                    Some("wrong") => self.last_ka.unwrap_or(1).wrapping_add(1),
                    _ => 0xdead_beef,
                };
                frame(4, &id.to_be_bytes())
            }
            "Pong" => frame(5, &7i32.to_be_bytes()),
            "ResourcePackResponse" => {
                let mut b = Uuid::from_u128(5).as_u128().to_be_bytes().to_vec();
                put_varint(&mut b, 0);
                frame(6, &b)
            }
            "KnownPacks" => frame(7, &[0]),
            "UnknownId" => frame(127, &[]),
            _ => frame(126, &[]),
        };
        Action::Send(self.seal(raw))
    }

    /// Decodes whatever the server has written so far into abstract tx events.
    pub fn drain(&mut self, t_ms: u64) {
        let mut bytes = self.end.take_out();
        if bytes.is_empty() {
            return;
        }
        if let Some(d) = &mut self.dec {
            bytes = d.decrypt(&bytes);
        }
        self.inbuf.extend_from_slice(&bytes);
        let (frames, used) = split_frames(&self.inbuf);
        self.inbuf.drain(..used);
        for (id, body) in frames {
            let p = self.abstract_tx(id, &body);
            self.push(json!({"e": "tx", "p": p, "t": t_ms}));
        }
    }

    pub fn leftover(&self) -> usize {
        self.inbuf.len()
    }

    fn abstract_tx(&mut self, id: i32, body: &[u8]) -> Value {
        let mut c = Cur::new(body);
        let bad = |what: &str| json!({"k": "Undecodable", "what": what, "id": id});
        match (self.dphase, id) {
            (DPhase::Status, 0) => {
                let Some(s) = c.string() else { return bad("StatusResponse") };
                let got: Value = serde_json::from_str(&s).unwrap_or(json!("unparseable"));
                let some = serde_json::to_value(&self.conc.status_some).unwrap();
                let label = if got == some {
                    "some".to_string()
                } else if got.is_null() {
                    "null".to_string()
                } else {
                    format!("other:{s}")
                };
                json!({"k": "StatusResponse", "body": label})
            }
            (DPhase::Status, 1) => {
                let Some(v) = c.u64() else { return bad("Pong") };
                let l = if v == 0 {
                    "p0".to_string()
                } else if v == u64::MAX {
                    "pMax".to_string()
                } else {
                    format!("other:{v}")
                };
                json!({"k": "Pong", "payload": l})
            }
            (DPhase::Login, 5) | (DPhase::Config, 0) => {
                let Some(key) = c.string() else { return bad("CookieRequest") };
                let l = match key.as_str() {
                    "passage:session" => "session".to_string(),
                    "passage:authentication" => "auth".to_string(),
                    o => format!("other:{o}"),
                };
                if l == "auth" && self.dphase == DPhase::Login {
                    self.asked_auth = true;
                }
                json!({"k": "CookieRequest", "key": l})
            }
            (DPhase::Login, 1) => {
                let (Some(_sid), Some(pk), Some(tok), Some(auth)) = (c.string(), c.bytes(), c.bytes(), c.bool()) else {
                    return bad("EncryptionRequest");
                };
                // "server": a usable RSA public key (the client can encrypt to it); which process-wide key object it comes from is the
                // implementation's business -- that it is the SAME key the session service is asked with is judged through seen_pub
                let server = RsaPublicKey::from_public_key_der(&pk).is_ok();
                {
                    let mut st = STALE_TOKEN.lock().unwrap();
                    if st.is_none() {
                        *st = Some(tok.clone());
                    }
                }
                self.token = Some(tok);
                self.pubkey = Some(pk.clone());
                *self.ctx.seen_pub.lock().unwrap() = Some(pk);
                json!({"k": "EncryptionRequest", "auth": auth, "pub": if server { "server" } else { "other" }})
            }
            (DPhase::Login, 2) => {
                let (Some(u), Some(name)) = (c.u128(), c.string()) else { return bad("LoginSuccess") };
                self.dphase = DPhase::Config;
                json!({"k": "LoginSuccess", "who": self.conc.ident_label(&name, &Uuid::from_u128(u))})
            }
            (DPhase::Login, 0) => json!({"k": "LoginDisconnect"}),
            (DPhase::Config, 2) => {
                // text component: TAG_String
                let msg = match (c.u8(), c.u16()) {
                    (Some(8), Some(n)) => c.take(n as usize).and_then(crate::refcodec::mutf8_decode),
                    _ => None,
                };
                let Some(m) = msg else { return bad("Disconnect") };
                if c.rest() != 0 {
                    return bad("Disconnect: bytes behind the text component");
                }
                let parts: Vec<&str> = m.split('|').collect();
                if parts.len() == 4 && parts[0] == self.conc.msg_head && parts[3] == MSG_TAIL {
                    json!({"k": "Disconnect", "msg": [parts[1], parts[2]]})
                } else {
                    json!({"k": "Disconnect", "msg": [m, "raw"]})
                }
            }
            (DPhase::Config, 4) => {
                let Some(v) = c.u64() else { return bad("KeepAlive") };
                self.last_ka = Some(v);
                json!({"k": "KeepAlive"})
            }
            (DPhase::Config, 0x0A) => {
                let (Some(key), Some(payload)) = (c.string(), c.bytes()) else { return bad("StoreCookie") };
                match key.as_str() {
                    "passage:authentication" => {
                        self.stored_auth = Some(payload.clone());
                        let tag_ok = self.secret_cfg.as_ref().map(|s| ref_verify(&payload, s)).unwrap_or(false);
                        let j: Value = if payload.len() >= 32 { serde_json::from_slice(&payload[32..]).unwrap_or(Value::Null) } else { Value::Null };
                        let who = self.conc.ident_label(
                            j["user_name"].as_str().unwrap_or("?"),
                            &j["user_id"].as_str().and_then(|s| Uuid::parse_str(s).ok()).unwrap_or(Uuid::nil()),
                        );
                        let props: Vec<ProfileProperty> = serde_json::from_value(j["profile_properties"].clone()).unwrap_or_default();
                        let target = self
                            .conc
                            .targets
                            .iter()
                            .find(|(_, t)| Some(t.identifier.as_str()) == j["target"].as_str())
                            .map(|(l, _)| l.clone())
                            .unwrap_or_else(|| format!("other:{}", j["target"]));
                        let addr = match j["client_addr"].as_str().and_then(|s| s.parse::<SocketAddr>().ok()) {
                            Some(a) if a == self.ctx.client_addr => "client".to_string(),
                            Some(a) => format!("other:{a}"),
                            None => "unparseable".to_string(),
                        };
                        let ts = j["timestamp"].as_u64().unwrap_or(0);
                        let now = now_secs();
                        // "the current time": when routing took real seconds, a timestamp taken before routing is visibly stale
                        let time_ok = ts <= now + 1 && now <= ts + if self.ctx.real_delay_ms > 0 { 2 } else { 5 };
                        json!({"k": "StoreCookie", "key": "auth", "who": who, "props": self.conc.props_label(&props), "target": target,
                               "addr": addr, "tagOk": tag_ok, "timeOk": time_ok})
                    }
                    "passage:session" => {
                        self.stored_sess = Some(payload.clone());
                        let j: Value = serde_json::from_slice(&payload).unwrap_or(Value::Null);
                        let host_ok = j["server_address"].as_str() == Some(self.conc.hs_host.as_str())
                            && j["server_port"].as_u64() == Some(self.conc.hs_port as u64);
                        let fresh = j["id"].as_str().and_then(|s| Uuid::parse_str(s).ok()).map(|u| !u.is_nil() && u.to_string() != "11111111-2222-4333-8444-555555555555").unwrap_or(false);
                        json!({"k": "StoreCookie", "key": "session", "host": if host_ok { "handshake" } else { "other" }, "fresh": fresh})
                    }
                    o => json!({"k": "StoreCookie", "key": format!("other:{o}")}),
                }
            }
            (DPhase::Config, 0x0B) => {
                let (Some(host), Some(port)) = (c.string(), c.varint()) else { return bad("Transfer") };
                let ip: Option<std::net::IpAddr> = host.parse().ok();
                let label = self
                    .conc
                    .targets
                    .iter()
                    .find(|(_, t)| Some(t.address.ip()) == ip && t.address.port() as i32 == port)
                    .map(|(l, _)| l.clone())
                    .unwrap_or_else(|| format!("other:{host}:{port}"));
                json!({"k": "Transfer", "target": label})
            }
            _ => json!({"k": "Unknown", "id": id, "phase": format!("{:?}", self.dphase)}),
        }
    }
}

// ---------------------------------------------------------------------------------------------
// one round = one connection
// ---------------------------------------------------------------------------------------------

pub struct RoundCfg {
    pub secret: Option<Vec<u8>>,
    pub client_addr: SocketAddr,
    pub expiry: u64,
    pub real_delay_ms: u64,
    /// the transport takes this many writes whole, five bytes of the next one, and then never becomes writable again
    pub block_writes_after: Option<usize>,
}

pub struct RoundOut {
    pub result: String,
    pub why: String,
    pub panic: bool,
    pub hang: bool,
    pub ran_after_eof: bool,
    pub leftover: usize,
    pub max_alloc: usize,
    pub peak_live: usize,
    pub var_note: String,
    pub answered: Vec<Value>,
}

fn classify(res: Result<Result<(), passage_protocol::Error>, tokio::task::JoinError>) -> (String, String, bool) {
    match res {
        Ok(Ok(())) => ("Ok".into(), "".into(), false),
        Ok(Err(e)) => {
            let dbg = format!("{e:?}");
            let variant: String = dbg.chars().take_while(|c| c.is_alphanumeric()).collect();
            let class = match variant.as_str() {
                "NoTargetFound" => "NoTargetFound",
                "MissedKeepAlive" => "MissedKeepAlive",
                _ => "Err",
            };
            (class.into(), variant, false)
        }
        Err(je) => {
            if je.is_panic() {
                let p = je.into_panic();
                let msg = p.downcast_ref::<String>().cloned().or_else(|| p.downcast_ref::<&str>().map(|s| s.to_string())).unwrap_or_default();
                ("Panic".into(), msg, true)
            } else {
                ("Cancelled".into(), "".into(), false)
            }
        }
    }
}

/// Timed / segmented driving of the configuration phase (C07, C08): all times in whole seconds since the
/// connection was created; the client acts at x.25 / x.75 so that nothing coincides with a keep-alive deadline.
#[derive(Clone, Debug, Default)]
pub struct Timed {
    pub ack_at: u64,
    pub info_at: u64,
    pub policy: String,
    pub locale: String,
    pub horizon: u64,
    /// extra ignorable frame (plugin message of `size` bytes) sent at `at`
    pub plugin: Option<(u64, usize)>,
    /// segmentation: which client frame ("LoginAck" | "ClientInfo" | "Echo" | "Plugin"), cut offset in bytes
    /// (0 = nothing before the pause), pause in seconds before the rest is delivered
    pub seg: Option<(String, usize, u64)>,
    /// write stall: at second `at` the transport starts accepting `k` bytes and then returns Pending until second `release`
    pub wstall: Option<(u64, usize, u64)>,
    /// accept every clientbound write in two portions (k bytes, then the rest)
    pub wsplit: Option<usize>,
    /// pipelined client: the Encryption Response is cut at this offset; its rest arrives in ONE segment together with the
    /// (already encrypted) Login Acknowledged and Client Information -- the plaintext/ciphertext switch falls inside a segment
    pub pipeline: Option<usize>,
    /// the client idles this many seconds before it sends the named frame of the login prefix
    /// ("LoginStart" | "CookieResponse" | "EncryptionResponse")
    pub pre_delay: Option<(String, u64)>,
    /// a malformed frame of the given class (see Client::malformed) sent at second `at` of the configuration phase
    pub bad: Option<(u64, String)>,
    /// the client sends its Client Information once more at this second (settings changed while it waits)
    pub info2: Option<u64>,
    /// the scheduler is busy when second `at` comes: the clock is `ms` milliseconds past it before anything due then is handled
    pub late: Option<(u64, u64)>,
}

impl Timed {
    pub fn from_json(v: &Value) -> Self {
        let g = |k: &str| v[k].as_u64().unwrap_or(0);
        Timed {
            ack_at: g("ackAt"),
            info_at: g("infoAt"),
            policy: v["policy"].as_str().unwrap_or("prompt").to_string(),
            locale: v["locale"].as_str().unwrap_or("en_US").to_string(),
            horizon: v["horizon"].as_u64().unwrap_or(400),
            plugin: v.get("plugin").and_then(|p| Some((p["at"].as_u64()?, p["size"].as_u64()? as usize))),
            seg: v.get("seg").and_then(|p| Some((p["frame"].as_str()?.to_string(), p["cut"].as_u64()? as usize, p["pause"].as_u64()?))),
            wstall: v.get("wstall").and_then(|p| Some((p["at"].as_u64()?, p["k"].as_u64()? as usize, p["release"].as_u64()?))),
            wsplit: v.get("wsplit").and_then(|p| p.as_u64()).map(|k| k as usize),
            pipeline: v.get("pipeline").and_then(|p| p.as_u64()).map(|k| k as usize),
            pre_delay: v.get("preDelay").and_then(|p| Some((p["frame"].as_str()?.to_string(), p["secs"].as_u64()?))),
            bad: v.get("bad").and_then(|p| Some((p["at"].as_u64()?, p["class"].as_str()?.to_string()))),
            info2: v.get("info2").and_then(|p| p.as_u64()),
            late: v.get("late").and_then(|p| Some((p["at"].as_u64()?, p["ms"].as_u64()?))),
        }
    }
}

pub async fn run_round(
    conc: Arc<Conc>,
    rc: RoundCfg,
    events: &[Value],
    timed: Option<Timed>,
    lats: HashMap<String, u64>,
    jar: &mut Jar,
    log: Log,
    var: u64,
    seed: u64,
) -> RoundOut {
    let t0 = tokio::time::Instant::now();
    let mut rets = HashMap::new();
    for ev in events {
        if ev["e"] == "call" {
            if let Some(a) = ev["c"]["a"].as_str() {
                rets.entry(a.to_string()).or_insert(ev["c"]["ret"].clone());
            }
        }
    }
    let ctx = Arc::new(RoundCtx {
        conc: conc.clone(),
        log: log.clone(),
        rets: Mutex::new(rets),
        lats,
        client_addr: rc.client_addr,
        sent_secret: Mutex::new(None),
        seen_pub: Mutex::new(None),
        fixed_loc: FixedLocalizationAdapter::new("en_US".into(), conc.loc_tables.clone()),
        t0,
        t_div: if timed.is_some() { 1000 } else { 1 },
        real_delay_ms: rc.real_delay_ms,
        var,
        failed: Mutex::new(Default::default()),
        answered: Mutex::new(vec![]),
    });
    let (stream, end) = pipe();
    end.set_t0(t0);
    if let Some(n) = rc.block_writes_after {
        let mut plan: Vec<crate::mock::WriteOutcome> = (0..n).map(|_| crate::mock::WriteOutcome::Accept(usize::MAX)).collect();
        plan.push(crate::mock::WriteOutcome::Accept(5));
        plan.push(crate::mock::WriteOutcome::Pending);
        end.plan_writes(plan);
    }
    let a = Arc::new(Rec(ctx.clone()));
    crate::alloc::reset();
    let mut conn = Connection::new(stream, a.clone(), a.clone(), a.clone(), a.clone(), a.clone(), a.clone())
        .with_client_address(rc.client_addr)
        .with_auth_secret(rc.secret.clone())
        .with_auth_cookie_expiry(rc.expiry)
        .with_max_packet_length(conc.max_len);
    let server = tokio::spawn(async move { conn.listen().await });

    let mut cl = Client {
        asked_auth: false,
        conc: conc.clone(),
        ctx: ctx.clone(),
        end: end.clone(),
        log: log.clone(),
        stage: Stage::Handshake,
        dphase: DPhase::Login,
        intent: String::new(),
        secret_cfg: rc.secret.clone(),
        expiry: rc.expiry,
        enc: None,
        dec: None,
        inbuf: vec![],
        token: None,
        pubkey: None,
        stored_auth: jar.auth.clone(),
        stored_sess: jar.sess.clone(),
        last_ka: None,
        var,
        var_note: String::new(),
        rng: Rng::new(seed ^ 0x5151),
    };
    let ms = |t0: tokio::time::Instant| t0.elapsed().as_millis() as u64;
    let settle = || tokio::time::sleep(Duration::from_millis(1));

    settle().await;
    cl.drain(ms(t0));
    let mut closed = false;
    let untimed = timed.is_none();
    match timed {
        None => {
            for ev in events {
                if ev["e"] != "rx" {
                    continue;
                }
                // a client that answers whenever it is asked: if the server requests the authentication cookie where the scripted behaviour has
                // no answer next (e.g. on a Login-intent connection), it presents a fresh, validly signed cookie and then carries on
                let model_asks = events.iter().any(|e| e["e"] == "tx" && e["p"]["k"] == "CookieRequest" && e["p"]["key"] == "auth");
                if cl.asked_auth && !model_asks && !server.is_finished() {
                    let f = json!({"k": "LoginCookieResponse", "which": "auth", "v": "fresh", "unscripted": true});
                    if let Action::Send(b) = cl.build(&f) {
                        cl.push(json!({"e": "rx", "f": f, "t": ms(t0)}));
                        end.push(&b);
                        settle().await;
                        cl.drain(ms(t0));
                    }
                }
                let act = cl.build(&ev["f"]);
                cl.push(json!({"e": "rx", "f": ev["f"], "t": ms(t0)}));
                match act {
                    Action::Send(b) => end.push(&b),
                    Action::SendThenClose(b) => {
                        end.push(&b);
                        end.close();
                        closed = true;
                    }
                    Action::Close => {
                        end.close();
                        closed = true;
                    }
                }
                settle().await;
                cl.drain(ms(t0));
            }
        }
        Some(tm) => {
            // lock-step login prefix (everything up to and including the Encryption Response)
            let mut pipelined = false;
            for ev in events {
                if ev["e"] != "rx" {
                    continue;
                }
                if let Some((fr, secs)) = &tm.pre_delay {
                    if ev["f"]["k"] == fr.as_str() {
                        // an idle client: whatever the server sends meanwhile is recorded in order
                        for _ in 0..*secs {
                            tokio::time::sleep(Duration::from_secs(1)).await;
                            cl.drain(ms(t0) / 1000);
                        }
                    }
                }
                if server.is_finished() {
                    break;
                }
                if let Action::Send(b) = cl.build(&ev["f"]) {
                    cl.push(json!({"e": "rx", "f": ev["f"], "t": ms(t0) / 1000}));
                    if let (Some(cut), true) = (tm.pipeline, ev["f"]["k"] == "EncryptionResponse") {
                        let ack = json!({"k": "LoginAck"});
                        let info = json!({"k": "ClientInfo", "locale": tm.locale});
                        let mut rest = b[cut.min(b.len())..].to_vec();
                        for f in [&ack, &info] {
                            if let Action::Send(x) = cl.build(f) {
                                rest.extend_from_slice(&x);
                                cl.push(json!({"e": "rx", "f": f, "t": 0}));
                            }
                        }
                        end.push(&b[..cut.min(b.len())]);
                        settle().await;
                        end.push(&rest);
                        pipelined = true;
                    } else {
                        end.push(&b);
                    }
                }
                settle().await;
                cl.drain(0);
            }
            if let Some(k) = tm.wsplit {
                end.plan_writes((0..64).map(|_| crate::mock::WriteOutcome::Accept(k)).collect());
            }
            // (time in s, frame) actions; frames wait behind a partially sent one (the byte stream is ordered)
            let mut actions: Vec<(u64, Value)> = if pipelined {
                vec![]
            } else {
                vec![(tm.ack_at, json!({"k": "LoginAck"})), (tm.info_at, json!({"k": "ClientInfo", "locale": tm.locale}))]
            };
            if let Some((at, size)) = tm.plugin {
                actions.push((at, json!({"k": "PluginMessage", "size": size})));
            }
            if let Some((at, class)) = &tm.bad {
                actions.push((*at, json!({"k": "Malformed", "class": class})));
            }
            if let Some(at) = tm.info2 {
                actions.push((at, json!({"k": "ClientInfo", "locale": tm.locale})));
            }
            let mut late_done = false;
            let mut pending_rest: Option<(u64, Vec<u8>, Value)> = None; // (deliver at, bytes, frame)
            let mut seg_used = false;
            let mut seen_tx = 0usize;
            let mut echo_n = 0u64;
            let mut stall_on = false;
            tokio::time::sleep_until(t0 + Duration::from_millis(250)).await;
            loop {
                let now_ms = ms(t0);
                let now_s = now_ms / 1000;
                cl.drain(now_s);
                // react to new Keep Alives according to the echo policy
                let kas: Vec<u64> = {
                    let l = log.lock().unwrap();
                    let txs: Vec<&Value> = l.iter().filter(|e| e["e"] == "tx").collect();
                    let new: Vec<u64> = txs[seen_tx.min(txs.len())..].iter().filter(|e| e["p"]["k"] == "KeepAlive").map(|e| e["t"].as_u64().unwrap_or(now_s)).collect();
                    seen_tx = txs.len();
                    new
                };
                for t in kas {
                    match tm.policy.as_str() {
                        "prompt" => actions.push((t + 3, json!({"k": "KeepAlive", "id": "last"}))),
                        "slow" => actions.push((t + 15, json!({"k": "KeepAlive", "id": "last"}))),
                        "late" => actions.push((t + 17, json!({"k": "KeepAlive", "id": "last"}))),
                        "wrong" => actions.push((t + 3, json!({"k": "KeepAlive", "id": "wrong"}))),
                        "dup" => {
                            actions.push((t + 3, json!({"k": "KeepAlive", "id": "last"})));
                            actions.push((t + 5, json!({"k": "KeepAlive", "id": "last"})));
                        }
                        "unsolicited" => {
                            actions.push((t + 3, json!({"k": "KeepAlive", "id": "last"})));
                            actions.push((t + 7, json!({"k": "KeepAlive", "id": "unsolicited"})));
                        }
                        _ => {}
                    }
                }
                // write stall window
                if let Some((at, k, release)) = tm.wstall {
                    if !stall_on && now_s >= at && now_s < release {
                        // k = 0: the transport takes not a single byte of the next packet
                        end.plan_writes(if k == 0 { vec![crate::mock::WriteOutcome::Pending] } else { vec![crate::mock::WriteOutcome::Accept(k), crate::mock::WriteOutcome::Pending] });
                        stall_on = true;
                    }
                    if stall_on && now_s >= release {
                        end.release_write();
                    }
                }
                // the rest of a partially sent frame
                if let Some((at, bytes, f)) = pending_rest.take() {
                    if now_s >= at {
                        end.push(&bytes);
                        cl.push(json!({"e": "rx", "f": f, "t": now_s}));
                    } else {
                        pending_rest = Some((at, bytes, f));
                    }
                }
                if pending_rest.is_none() && !server.is_finished() {
                    actions.sort_by_key(|a| a.0);
                    while let Some(pos) = actions.iter().position(|a| a.0 <= now_s) {
                        let (_, f) = actions.remove(pos);
                        let kind = f["k"].as_str().unwrap_or("").to_string();
                        let is_echo = kind == "KeepAlive" && f["id"] == "last";
                        if is_echo {
                            echo_n += 1;
                        }
                        let seg_here = match &tm.seg {
                            Some((fr, _, _)) if !seg_used => {
                                (fr == "LoginAck" && kind == "LoginAck") || (fr == "ClientInfo" && kind == "ClientInfo") || (fr == "Plugin" && kind == "PluginMessage")
                                    || (fr == "Echo" && is_echo && echo_n == 1)
                            }
                            _ => false,
                        };
                        if let Action::Send(b) = cl.build(&f) {
                            if seg_here {
                                let (_, cut, pause) = tm.seg.clone().unwrap();
                                let cut = cut.min(b.len());
                                seg_used = true;
                                end.push(&b[..cut]);
                                pending_rest = Some((now_s + pause, b[cut..].to_vec(), f));
                                break;
                            } else {
                                end.push(&b);
                                cl.push(json!({"e": "rx", "f": f, "t": now_s}));
                            }
                        }
                    }
                }
                if server.is_finished() || now_s > tm.horizon {
                    break;
                }
                match tm.late {
                    Some((at, by)) if !late_done && now_ms + 500 >= at * 1000 && now_ms < at * 1000 => {
                        // jump over second `at`: everything due then is handled `by` ms late (and in one go)
                        late_done = true;
                        tokio::time::advance(Duration::from_millis(at * 1000 + by - now_ms)).await;
                    }
                    _ => tokio::time::sleep(Duration::from_millis(500)).await,
                }
            }
            if stall_on {
                end.release_write();
            }
            cl.drain(ms(t0) / 1000);
        }
    }

    // the model says the connection has ended by now, of its own accord
    let hang = !server.is_finished();
    let mut ran_after_eof = false;
    if hang && !closed && untimed {
        // ... but the handler is still there: a client that carries on as if nothing had happened (a pinger that pipelines its Ping, a client
        // that answers the next request) shows what the handler does next -- whatever it sends now is recorded and judged like the rest
        let probe = match cl.stage {
            Stage::Ping => Some(json!({"k": "Ping", "payload": "p0", "probe": true})),
            Stage::SessCookie => Some(json!({"k": "LoginCookieResponse", "which": "session", "v": "absent", "probe": true})),
            Stage::AuthCookie => Some(json!({"k": "LoginCookieResponse", "which": "auth", "v": "absent", "probe": true})),
            Stage::EncResp => Some(json!({"k": "EncryptionResponse", "c": "honest", "probe": true})),
            Stage::LoginAck => Some(json!({"k": "LoginAck", "probe": true})),
            Stage::Config => Some(json!({"k": "ClientInfo", "locale": "en_US", "probe": true})),
            _ => None,
        };
        if let Some(f) = probe {
            if let Action::Send(b) = cl.build(&f) {
                cl.push(json!({"e": "rx", "f": f, "t": ms(t0)}));
                end.push(&b);
                settle().await;
                cl.drain(ms(t0));
            }
        }
    }
    if hang {
        if !closed {
            end.close();
        }
        settle().await;
        cl.drain(ms(t0));
        ran_after_eof = !server.is_finished();
    } else if !closed {
        // nothing
    }
    let max_alloc = crate::alloc::max_single();
    let peak_live = crate::alloc::peak_live();
    if !server.is_finished() {
        server.abort();
    }
    let (result, why, panic) = classify(server.await);
    cl.drain(ms(t0));
    jar.auth = cl.stored_auth.clone();
    jar.sess = cl.stored_sess.clone();
    RoundOut { result, why, panic, hang, ran_after_eof, leftover: cl.leftover(), max_alloc, peak_live, var_note: cl.var_note.clone(),
               answered: ctx.answered.lock().unwrap().clone() }
}

/// How many variants a behaviour fans out into (classes instantiated in several ways).
fn fanout_of(tr: &[Value], full: bool) -> u64 {
    let mut n = 1u64;
    for ev in tr {
        if ev["e"] == "rx" {
            let f = &ev["f"];
            if f["k"] == "LoginCookieResponse" && f["which"] == "auth" {
                n = n.max(match f["v"].as_str().unwrap_or("") {
                    "short" => if full { 31 } else { 4 },
                    "tagFlip" => if full { 256 } else { 6 },
                    "bodyFlip" => if full { 1600 } else { 6 },
                    "otherSecret" => 6,
                    "otherIp" => 3,
                    "expired" => 3,
                    "fresh" | "justInside" | "otherPort" | "jar" => 3,
                    _ => 1,
                });
            }
            if f["k"] == "Malformed" && f["class"] == "badOrdinal" {
                n = n.max(18);
            }
            if f["k"] == "EncryptionResponse" {
                n = n.max(match f["c"].as_str().unwrap_or("") {
                    "badSecretLen" => 5,
                    "prefixToken" => 3,
                    "wrongToken" => if full { 8 } else { 2 },
                    _ => 1,
                });
            }
        }
    }
    n
}

pub fn run_behaviour(idx: usize, b: &Value, seed: u64, var: u64) -> Value {
    let hist: Vec<Value> = b["hist"].as_array().cloned().unwrap_or_default();
    // an issued authentication cookie of a given size: the first connection is run once to measure the cookie, then the whole history is
    // run with the vouched profile padded (a larger skin property) so that the cookie has exactly that many bytes
    if let (Some(want), true) = (b["cookieLen"].as_u64(), b.get("padProps").is_none()) {
        let mut b1 = b.clone();
        b1["hist"] = json!([hist.first().cloned().unwrap_or(Value::Null)]);
        b1["padProps"] = json!(0);
        let l0 = run_behaviour(idx, &b1, seed, var)["hist"][0]["authCookieLen"].as_u64().unwrap_or(0);
        let mut b2 = b.clone();
        b2["padProps"] = json!(if l0 > 0 { want.saturating_sub(l0) } else { 0 });
        return run_behaviour(idx, &b2, seed, var);
    }
    let mut rng = Rng::new(seed.wrapping_mul(1_000_003).wrapping_add(idx as u64));
    let mut conc = Conc::new(&mut rng);
    // identity variants: the vouched / cookie identity may share the NAME or the UUID with the claimed one (never both)
    // ... or be an unusual one: the service vouches for the nil UUID, or for an empty name (what it vouches for is what counts)
    match var % 5 {
        1 => {
            conc.other.name = conc.claimed.name.clone();
            conc.cookie.name = conc.claimed.name.clone();
        }
        2 => {
            conc.other.id = conc.claimed.id;
            conc.cookie.id = conc.claimed.id;
        }
        3 => conc.other.id = Uuid::nil(),
        4 => conc.other.name = String::new(),
        _ => {}
    }
    // the server address of the Handshake may be given with a fixed length (sweeps over the frame length prefix)
    if let Some(n) = b["hostLen"].as_u64() {
        conc.hs_host = "play.example.org.".chars().cycle().take(n as usize).collect();
    }
    // the authenticated profile may carry no properties at all (an account without a skin)
    if (var / 5) % 4 == 3 {
        conc.vouched_props.clear();
    }
    if let Some(pad) = b["padProps"].as_u64() {
        conc.max_len = 10_000;
        if conc.vouched_props.is_empty() {
            conc.vouched_props.push(ProfileProperty { name: "textures".into(), value: "dGV4".into(), signature: None });
        }
        conc.vouched_props[0].value.push_str(&"A".repeat(pad as usize));
    }
    let conc = Arc::new(conc);
    let mut jar = Jar { auth: None, sess: None };
    let mut rounds_out = vec![];
    // a cookie whose BODY was altered under the tag of a genuine one: half of the time the genuine cookie has been presented to (and
    // accepted by) this very process just before, on a connection of its own -- whatever the process remembers of it must not vouch for
    // the altered one.  The priming connection is not part of the judged history.
    let flips_body = hist.iter().any(|r| r["obs"].as_array().map(|o| o.iter().any(|e| e["e"] == "rx" && e["f"]["which"] == "auth" && e["f"]["v"] == "bodyFlip")).unwrap_or(false));
    if flips_body && (var / 3) % 2 == 0 {
        if let Some(r0) = hist.first() {
            let mut evs: Vec<Value> = vec![];
            for e in r0["obs"].as_array().cloned().unwrap_or_default() {
                if e["e"] != "rx" {
                    continue;
                }
                let mut e2 = e.clone();
                let is_flip = e["f"]["which"] == "auth" && e["f"]["v"] == "bodyFlip";
                if is_flip {
                    e2["f"]["v"] = json!("fresh");
                }
                evs.push(e2);
                if is_flip {
                    break;
                }
            }
            let rt = tokio::runtime::Builder::new_current_thread().enable_all().start_paused(true).build().unwrap();
            let rc = RoundCfg { secret: conc.secret(r0["secret"].as_str().unwrap_or("none")), client_addr: conc.client_addr, expiry: conc.expiry, real_delay_ms: 0, block_writes_after: None };
            let mut pj = Jar { auth: None, sess: None };
            let log = Arc::new(Mutex::new(vec![]));
            // same variant: the genuine cookie of the priming connection is the one the judged connection alters
            let _ = rt.block_on(run_round(conc.clone(), rc, &evs, None, HashMap::new(), &mut pj, log, var, seed));
        }
    }
    // connections share a process: every third behaviour runs right after a connection of SOMEBODY ELSE (own identity, own address) whose
    // client stopped reading in mid-login, so that it was abandoned with output still queued (what the listener's deadline does to it).
    // Nothing of that neighbour may show up on the judged connection; it is not part of the judged history.
    if idx % 3 == 0 {
        let mut nrng = Rng::new(seed.wrapping_mul(7_000_003).wrapping_add(idx as u64));
        let nconc = Arc::new(Conc::new(&mut nrng));
        let evs: Vec<Value> = vec![
            json!({"e": "rx", "f": {"k": "Handshake", "next": "Login"}}),
            json!({"e": "rx", "f": {"k": "LoginStart", "who": "claimed"}}),
            json!({"e": "rx", "f": {"k": "LoginCookieResponse", "which": "session", "v": "absent"}}),
            json!({"e": "rx", "f": {"k": "EncryptionResponse", "c": "honest"}}),
            json!({"e": "rx", "f": {"k": "LoginAck"}}),
            json!({"e": "rx", "f": {"k": "ClientInfo", "locale": "en_US"}}),
        ];
        let rt = tokio::runtime::Builder::new_current_thread().enable_all().start_paused(true).build().unwrap();
        let rc = RoundCfg { secret: nconc.secret("S"), client_addr: nconc.other_addr, expiry: nconc.expiry, real_delay_ms: 0,
                            block_writes_after: Some(1 + (idx / 3) % 4) };
        let mut pj = Jar { auth: None, sess: None };
        let log = Arc::new(Mutex::new(vec![]));
        let _ = rt.block_on(run_round(nconc, rc, &evs, None, HashMap::new(), &mut pj, log, 0, seed));
    }
    for (k, round) in hist.iter().enumerate() {
        let evs: Vec<Value> = round["obs"].as_array().cloned().unwrap_or_default();
        let rcv = &round["rc"];
        let mut addr = conc.client_addr;
        let mut expiry = conc.expiry;
        if k > 0 {
            if rcv["ip"] == "other" {
                addr = conc.other_addr;
            } else {
                // same IP, new ephemeral port
                addr.set_port(addr.port().wrapping_add(7).max(1));
            }
            if rcv["age"] == "beyond" {
                expiry = 1;
                std::thread::sleep(Duration::from_millis(2200));
            }
        }
        let log: Log = Arc::new(Mutex::new(vec![]));
        let rt = tokio::runtime::Builder::new_current_thread().enable_all().start_paused(true).build().unwrap();
        let rc = RoundCfg { secret: conc.secret(round["secret"].as_str().unwrap_or("none")), client_addr: addr, expiry,
                            real_delay_ms: if b["slow"].as_bool().unwrap_or(false) && k == 0 { 3200 } else { 0 }, block_writes_after: None };
        let out = rt.block_on(run_round(conc.clone(), rc, &evs, None, HashMap::new(), &mut jar, log.clone(), var, seed));
        drop(rt);
        let obs = log.lock().unwrap().clone();
        rounds_out.push(json!({
            "secret": round["secret"], "rc": rcv, "obs": obs,
            "result": out.result, "why": out.why, "panic": out.panic, "hang": out.hang, "ranAfterEof": out.ran_after_eof,
            "leftover": out.leftover, "maxAlloc": out.max_alloc.min(2_000_000_000), "peakLive": out.peak_live.min(2_000_000_000),
            "maxLen": conc.max_len, "var": out.var_note, "rets": out.answered, "authCookieLen": jar.auth.as_ref().map(|c| c.len()).unwrap_or(0),
        }));
    }
    json!({
        "i": idx, "var": var, "hist": rounds_out,
        "conc": {"claimed": conc.claimed.name, "other": conc.other.name, "cookie": conc.cookie.name,
                 "client": conc.client_addr.to_string(), "expiry": conc.expiry, "secretLen": conc.secret_s.len(), "maxLen": conc.max_len,
                 "targets": conc.targets.iter().map(|(l, t)| (l.clone(), json!(t.address.to_string()))).collect::<serde_json::Map<_, _>>()},
    })
}

/// One timed scenario (C07 / C08): honest login, then the configuration phase under the given schedule.
pub fn run_timed(idx: usize, rec: &Value, seed: u64, tm: Timed) -> Value {
    let sched = &rec["sched"];
    let mut rng = Rng::new(seed.wrapping_mul(1_000_003).wrapping_add(idx as u64));
    let conc = Arc::new(Conc::new(&mut rng));
    let evs: Vec<Value> = vec![
        json!({"e": "rx", "f": {"k": "Handshake", "next": "Login"}}),
        json!({"e": "rx", "f": {"k": "LoginStart", "who": "claimed"}}),
        json!({"e": "rx", "f": {"k": "LoginCookieResponse", "which": "session", "v": "absent"}}),
        json!({"e": "rx", "f": {"k": "EncryptionResponse", "c": sched["enc"].as_str().unwrap_or("honest")}}),
        // what the service vouches for differs from what the client claimed in every second schedule
        json!({"e": "call", "c": {"a": "auth", "ret": if idx % 2 == 1 { "other" } else { "same" }}}),
        json!({"e": "call", "c": {"a": "discover", "ret": ["t1", "t2"]}}),
        json!({"e": "call", "c": {"a": "filter", "ret": ["t2", "t1"]}}),
        json!({"e": "call", "c": {"a": "select", "ret": "t2"}}),
    ];
    let mut lats = HashMap::new();
    lats.insert("auth".to_string(), sched["auth"].as_u64().unwrap_or(0) * 1000);
    for (i, a) in ["discover", "filter", "select"].iter().enumerate() {
        lats.insert(a.to_string(), sched["lat"][i].as_u64().unwrap_or(0) * 1000);
    }
    let log: Log = Arc::new(Mutex::new(vec![]));
    let mut jar = Jar { auth: None, sess: None };
    let rt = tokio::runtime::Builder::new_current_thread().enable_all().start_paused(true).build().unwrap();
    let rc = RoundCfg { secret: None, client_addr: conc.client_addr, expiry: conc.expiry, real_delay_ms: 0, block_writes_after: None };
    let out = rt.block_on(run_round(conc.clone(), rc, &evs, Some(tm), lats, &mut jar, log.clone(), sched["var"].as_u64().unwrap_or(0), seed));
    drop(rt);
    let obs = log.lock().unwrap().clone();
    json!({"obs": obs, "result": if out.hang { "running".to_string() } else { out.result }, "why": out.why, "panic": out.panic, "hang": out.hang,
           "leftover": out.leftover, "rets": out.answered})
}

pub fn main_timed(args: &[String]) {
    let mut input = None;
    let mut output = None;
    let mut seed = 1u64;
    let mut threads = 8usize;
    let mut pair = false;
    let mut it = args.iter();
    while let Some(a) = it.next() {
        match a.as_str() {
            "--in" => input = it.next().cloned(),
            "--out" => output = it.next().cloned(),
            "--seed" => seed = it.next().and_then(|s| s.parse().ok()).unwrap_or(1),
            "--threads" => threads = it.next().and_then(|s| s.parse().ok()).unwrap_or(8),
            "--pair" => pair = true,
            _ => {}
        }
    }
    let text = std::fs::read_to_string(input.expect("--in")).expect("read input");
    let recs: Vec<Value> = text.lines().filter(|l| !l.trim().is_empty()).map(|l| serde_json::from_str(l).expect("json")).collect();
    std::panic::set_hook(Box::new(|_| {}));
    let recs = Arc::new(recs);
    let recs2 = recs.clone();
    let r = crate::pool::run_pool(
        recs.len(),
        threads,
        Duration::from_secs(30),
        move |k| {
            let recs = &recs2;
            let rec = &recs[k];
            let mut tm = Timed::from_json(&rec["sched"]);
            for key in ["seg", "wstall", "wsplit", "plugin", "pipeline"] {
                // these may also sit next to "sched"
                if rec.get(key).is_some() {
                    let mut merged = rec["sched"].clone();
                    merged[key] = rec[key].clone();
                    let t2 = Timed::from_json(&merged);
                    tm.seg = tm.seg.or(t2.seg);
                    tm.wstall = tm.wstall.or(t2.wstall);
                    tm.wsplit = tm.wsplit.or(t2.wsplit);
                    tm.plugin = tm.plugin.or(t2.plugin);
                    tm.pipeline = tm.pipeline.or(t2.pipeline);
                }
            }
            let var = run_timed(k, rec, seed, tm.clone());
            let mut o = json!({"line": k + 1, "sched": rec["sched"], "seg": rec.get("seg").cloned().unwrap_or(json!("none")),
                               "wstall": rec.get("wstall").cloned().unwrap_or(json!("none")), "wsplit": rec.get("wsplit").cloned().unwrap_or(json!(0)), "stalled": rec.get("wstall").is_some(),
                               "obs": var["obs"], "result": var["result"], "why": var["why"], "panic": var["panic"], "hang": var["hang"], "leftover": var["leftover"],
                               "i": k, "var": 0,
                               "hist": [{"secret": "none", "rc": {"ip": "first", "age": "first", "secret": "first"}, "obs": var["obs"], "result": var["result"], "rets": var["rets"],
                                         "panic": var["panic"], "hang": if rec["judgeHang"] == true { var["hang"].clone() } else { json!(false) }, "ranAfterEof": false, "maxAlloc": 0, "maxLen": 10000}]});
            if pair {
                // reference: the same actions, the segmented frame delivered whole at the time its last byte arrives, transport accepts whole writes
                let mut rf = tm.clone();
                if let Some((f, _, p)) = rf.seg.clone() {
                    rf.seg = Some((f, 0, p));
                }
                rf.wstall = None;
                rf.wsplit = None;
                rf.pipeline = None;
                let r = run_timed(k, rec, seed, rf);
                o["ref"] = json!({"obs": r["obs"], "result": r["result"], "why": r["why"], "panic": r["panic"]});
            }
            o.to_string()
        },
        |k| {
            let rec = &recs[k];
            let hist = json!([{"secret": "none", "rc": {"ip": "first", "age": "first", "secret": "first"}, "obs": [], "result": "running",
                               "panic": false, "hang": true, "ranAfterEof": true, "maxAlloc": 0, "maxLen": 10000}]);
            json!({"line": k + 1, "sched": rec["sched"], "seg": rec.get("seg").cloned().unwrap_or(json!("none")), "wstall": "none", "wsplit": 0, "stalled": rec.get("wstall").is_some(),
                   "obs": [], "result": "running", "why": "handler never yielded (spinning): abandoned by the harness watchdog after 30 s", "panic": false, "hang": true, "leftover": 0,
                   "i": k, "var": 0, "hist": hist, "ref": {"obs": [], "result": "unknown", "why": "", "panic": false}, "spin": true})
            .to_string()
        },
    );
    let mut out = String::new();
    for (_, l) in r {
        out.push_str(&l);
        out.push('\n');
    }
    std::fs::write(output.expect("--out"), out).expect("write output");
}

pub fn main(args: &[String]) {
    let mut input = None;
    let mut output = None;
    let mut seed = 1u64;
    let mut threads = 8usize;
    let mut full = false;
    let mut it = args.iter();
    while let Some(a) = it.next() {
        match a.as_str() {
            "--in" => input = it.next().cloned(),
            "--out" => output = it.next().cloned(),
            "--seed" => seed = it.next().and_then(|s| s.parse().ok()).unwrap_or(1),
            "--threads" => threads = it.next().and_then(|s| s.parse().ok()).unwrap_or(8),
            "--fanout-full" => full = true,
            _ => {}
        }
    }
    let text = std::fs::read_to_string(input.expect("--in")).expect("read input");
    let behaviours: Vec<Value> = text.lines().filter(|l| !l.trim().is_empty()).map(|l| serde_json::from_str(l).expect("json")).collect();
    // (index, variant) work items
    let mut items = vec![];
    for (i, b) in behaviours.iter().enumerate() {
        let tr: Vec<Value> = b["hist"].as_array().map(|h| h.iter().flat_map(|r| r["obs"].as_array().cloned().unwrap_or_default()).collect()).unwrap_or_default();
        // exhaustive variants (every truncation length, every bit) only where the behaviour asks for it
        let full_here = full && b["fan"] == "full";
        let n = fanout_of(&tr, full_here);
        if n == 1 {
            items.push((i, seed.wrapping_add(i as u64)));
        } else {
            for v in 0..n {
                items.push((i, if full_here { v } else { seed.wrapping_mul(31).wrapping_add(i as u64 * 7 + v * 1009) }));
            }
        }
    }
    std::panic::set_hook(Box::new(|_| {}));
    // warm up the server key pair and obtain a verify token from another connection (for "staleToken")
    let warm = json!({"hist": [{"secret": "none", "rc": {"ip": "first"}, "obs": [
        {"e": "rx", "f": {"k": "Handshake", "next": "Login"}},
        {"e": "rx", "f": {"k": "LoginStart", "who": "claimed"}},
        {"e": "rx", "f": {"k": "LoginCookieResponse", "which": "session", "v": "absent"}},
        {"e": "rx", "f": {"k": "Malformed", "class": "eof"}}]}]});
    let _ = run_behaviour(0, &warm, 0, 0);
    let _ = other_keypair();

    let items = Arc::new(items);
    let behaviours = Arc::new(behaviours);
    let (items2, behaviours2) = (items.clone(), behaviours.clone());
    let r = crate::pool::run_pool(
        items.len(),
        threads,
        Duration::from_secs(30),
        move |k| {
            let (i, var) = items2[k];
            run_behaviour(i, &behaviours2[i], seed, var).to_string()
        },
        |k| {
            // the handler never yielded: report the behaviour as still running after everything was sent (and after EOF)
            let (i, var) = items[k];
            let hist: Vec<Value> = behaviours[i]["hist"].as_array().cloned().unwrap_or_default().into_iter().map(|r| {
                let obs: Vec<Value> = r["obs"].as_array().cloned().unwrap_or_default().into_iter().filter(|e| e["e"] == "rx").collect();
                json!({"secret": r["secret"], "rc": r["rc"], "obs": obs, "result": "running", "why": "handler never yielded (spinning): abandoned by the harness watchdog after 30 s",
                       "panic": false, "hang": true, "ranAfterEof": true, "leftover": 0, "maxAlloc": 0, "peakLive": 0, "maxLen": 10000, "var": ""})
            }).collect();
            json!({"i": i, "var": var, "hist": hist, "conc": {}, "spin": true}).to_string()
        },
    );
    let mut out = String::new();
    for (_, l) in r {
        out.push_str(&l);
        out.push('\n');
    }
    std::fs::write(output.expect("--out"), out).expect("write output");
}
