//! `hx builtins`: the built-in FixedStatusAdapter and FixedLocalizationAdapter driven with the cases exported from
//! spec/Builtins.tla; records what they answered (judged by Trace_Builtins.tla).
use passage_adapters::localization::LocalizationAdapter;
use passage_adapters::authentication::AuthenticationAdapter;
use passage_adapters::discovery::DiscoveryAdapter;
use passage_adapters::status::StatusAdapter;
use passage_adapters::{FixedLocalizationAdapter, FixedStatusAdapter, ServerStatus};
use serde_json::{Value, json};
use std::collections::HashMap;

fn parts(v: &Value) -> Vec<String> {
    v.as_array().map(|a| a.iter().filter_map(|x| x.as_str().map(|s| s.to_string())).collect()).unwrap_or_default()
}

pub fn main(args: &[String]) {
    let mut input = None;
    let mut output = None;
    let mut it = args.iter();
    while let Some(a) = it.next() {
        match a.as_str() {
            "--in" => input = it.next().cloned(),
            "--out" => output = it.next().cloned(),
            _ => {}
        }
    }
    let text = std::fs::read_to_string(input.expect("--in")).expect("read input");
    let rt = tokio::runtime::Builder::new_current_thread().enable_all().build().unwrap();
    let mut out = String::new();
    // the localization adapter is built once per configuration and then asked by every client of the process: all cases of one
    // configuration go to ONE instance, in the exported order and then, on a second instance, in the reverse order
    let lines: Vec<&str> = text.lines().filter(|l| !l.trim().is_empty()).collect();
    let mut shared: HashMap<String, FixedLocalizationAdapter> = HashMap::new();
    let n = lines.len();
    for (pos, line) in lines.iter().chain(lines.iter().rev()).enumerate() {
        let pass = if pos < n { "fwd" } else { "rev" };
        let rec: Value = serde_json::from_str(line).expect("json");
        if pass == "rev" && rec["kind"] != "loc" {
            continue;
        }
        let c = &rec["case"];
        let got = if rec["kind"] == "auth" {
            // identities behind the labels; the adapters are asked without any service behind them
            let ident = |l: &str| -> (String, uuid::Uuid) {
                match l {
                    "steve" => ("Steve".to_string(), uuid::Uuid::from_u128(0x1111_1111_1111_4111_8111_1111_1111_1111)),
                    "alex" => ("Alex".to_string(), uuid::Uuid::from_u128(0x2222_2222_2222_4222_8222_2222_2222_2222)),
                    "service" => ("FromConfig".to_string(), uuid::Uuid::from_u128(0x9999_9999_9999_4999_8999_9999_9999_9999)),
                    _ => (String::new(), uuid::Uuid::nil()),
                }
            };
            let label = |name: &str, id: &uuid::Uuid| -> String {
                for l in ["steve", "alex", "service", "nil"] {
                    let (n, u) = ident(l);
                    if n == name && u == *id {
                        return l.to_string();
                    }
                }
                format!("other:{name}/{id}")
            };
            let (cn, cu) = ident(c["claimed"]["who"].as_str().unwrap_or(""));
            let (fnm, fu) = ident(c["fixed"]["who"].as_str().unwrap_or(""));
            let props: Vec<passage_adapters::authentication::ProfileProperty> = (0..c["fixed"]["props"].as_u64().unwrap_or(0))
                .map(|i| passage_adapters::authentication::ProfileProperty { name: format!("p{i}"), value: format!("v{i}"), signature: if i == 0 { None } else { Some("sig".into()) } })
                .collect();
            let fixed = passage_adapters::authentication::Profile { id: fu, name: fnm, properties: props, profile_actions: vec![] };
            let client: std::net::SocketAddr = "192.0.2.1:1234".parse().unwrap();
            let r = if c["kind"] == "disabled" {
                rt.block_on(passage_adapters::DisabledAuthenticationAdapter::new().authenticate(&client, ("h", 1), 770, (&cn, &cu), b"secret", b"key"))
            } else {
                rt.block_on(passage_adapters::FixedAuthenticationAdapter::new(fixed).authenticate(&client, ("h", 1), 770, (&cn, &cu), b"secret", b"key"))
            };
            match r {
                Ok(p) => json!({"ok": true, "who": label(&p.name, &p.id), "props": p.properties.len()}),
                Err(e) => json!({"ok": false, "who": format!("error:{e}"), "props": -1}),
            }
        } else if rec["kind"] == "discover" {
            let targets: Vec<passage_adapters::Target> = parts(&c["targets"])
                .iter()
                .enumerate()
                .map(|(i, id)| passage_adapters::Target { identifier: id.clone(), address: format!("10.0.0.{}:25565", i + 1).parse().unwrap(), meta: Default::default() })
                .collect();
            let a = passage_adapters::FixedDiscoveryAdapter::new(targets);
            let mut lists = vec![];
            for _ in 0..c["calls"].as_u64().unwrap_or(1) {
                lists.push(match rt.block_on(a.discover()) {
                    Ok(ts) => ts.iter().map(|t| t.identifier.clone()).collect::<Vec<_>>(),
                    Err(e) => vec![format!("error:{e}")],
                });
            }
            json!({"lists": lists})
        } else if rec["kind"] == "status" {
            let status = if c["configured"].as_bool().unwrap_or(false) { Some(ServerStatus::default()) } else { None };
            let g = |k: &str| c[k].as_i64().unwrap_or(0) as i32;
            let a = FixedStatusAdapter::new(status, g("preferred"), g("min"), g("max"));
            let r = rt.block_on(a.status(&"127.0.0.1:1".parse().unwrap(), ("h", 1), g("client")));
            match r {
                Ok(Some(s)) => json!({"some": true, "protocol": s.version.protocol}),
                Ok(None) => json!({"some": false, "protocol": 0}),
                Err(e) => json!({"some": false, "protocol": -999, "error": e.to_string()}),
            }
        } else {
            let mut messages: HashMap<String, HashMap<String, String>> = HashMap::new();
            for t in c["tables"].as_array().cloned().unwrap_or_default() {
                let p = parts(&t);
                let name = p.join("_");
                let mut m = HashMap::new();
                m.insert("k1".to_string(), format!("T|{name}|k1|{{p}}|{{p}}"));
                if p.first().map(|s| s == "de").unwrap_or(false) {
                    m.insert("k2".to_string(), format!("T|{name}|k2|{{p}}|{{p}}"));
                }
                messages.insert(name, m);
            }
            let cfg_key = format!("{pass}|{}|{}", c["tables"], c["default"]);
            let a = shared.entry(cfg_key).or_insert_with(|| FixedLocalizationAdapter::new(parts(&c["default"]).join("_"), messages));
            let req = parts(&c["requested"]);
            let reqs = req.join("_");
            let key = c["key"].as_str().unwrap_or("k1");
            let r = rt.block_on(a.localize(if req.is_empty() { None } else { Some(reqs.as_str()) }, key, &[("{p}", "VAL".to_string())]));
            match r {
                Ok(s) if s == key => json!({"from": [], "text": "key"}),
                Ok(s) => {
                    let f: Vec<&str> = s.split('|').collect();
                    if f.len() == 5 && f[0] == "T" && f[2] == key {
                        let from: Vec<&str> = f[1].split('_').collect();
                        json!({"from": from, "text": if f[3] == "VAL" && f[4] == "VAL" { "template" } else { "template-unsubstituted" }})
                    } else {
                        json!({"from": [], "text": format!("other:{s}")})
                    }
                }
                Err(e) => json!({"from": [], "text": format!("error:{e}")}),
            }
        };
        out.push_str(&json!({"kind": rec["kind"], "case": c, "got": got}).to_string());
        out.push('\n');
    }
    std::fs::write(output.expect("--out"), out).expect("write output");
}
