//! `hx builtins`: the built-in FixedStatusAdapter and FixedLocalizationAdapter driven with the cases exported from
//! spec/Builtins.tla; records what they answered (judged by Trace_Builtins.tla).
use passage_adapters::localization::LocalizationAdapter;
use passage_adapters::status::StatusAdapter;
use passage_adapters::{FixedLocalizationAdapter, FixedStatusAdapter, ServerStatus};
use serde_json::{Value, json};
use std::collections::HashMap;

fn parts(v: &Value) -> Vec<String> {
    v.as_array().map(|a| a.iter().filter_map(|x| x.as_str().map(|s| s.to_string())).collect()).unwrap_or_default()
}

pub fn main(args: &[String]) {
    let mut input = None;
    let mut output = None;
    let mut it = args.iter();
    while let Some(a) = it.next() {
        match a.as_str() {
            "--in" => input = it.next().cloned(),
            "--out" => output = it.next().cloned(),
            _ => {}
        }
    }
    let text = std::fs::read_to_string(input.expect("--in")).expect("read input");
    let rt = tokio::runtime::Builder::new_current_thread().enable_all().build().unwrap();
    let mut out = String::new();
    // the localization adapter is built once per configuration and then asked by every client of the process: all cases of one
    // configuration go to ONE instance, in the exported order and then, on a second instance, in the reverse order
    let lines: Vec<&str> = text.lines().filter(|l| !l.trim().is_empty()).collect();
    let mut shared: HashMap<String, FixedLocalizationAdapter> = HashMap::new();
    let n = lines.len();
    for (pos, line) in lines.iter().chain(lines.iter().rev()).enumerate() {
        let pass = if pos < n { "fwd" } else { "rev" };
        let rec: Value = serde_json::from_str(line).expect("json");
        if pass == "rev" && rec["kind"] == "status" {
            continue;
        }
        let c = &rec["case"];
        let got = if rec["kind"] == "status" {
            let status = if c["configured"].as_bool().unwrap_or(false) { Some(ServerStatus::default()) } else { None };
            let g = |k: &str| c[k].as_i64().unwrap_or(0) as i32;
            let a = FixedStatusAdapter::new(status, g("preferred"), g("min"), g("max"));
            let r = rt.block_on(a.status(&"127.0.0.1:1".parse().unwrap(), ("h", 1), g("client")));
            match r {
                Ok(Some(s)) => json!({"some": true, "protocol": s.version.protocol}),
                Ok(None) => json!({"some": false, "protocol": 0}),
                Err(e) => json!({"some": false, "protocol": -999, "error": e.to_string()}),
            }
        } else {
            let mut messages: HashMap<String, HashMap<String, String>> = HashMap::new();
            for t in c["tables"].as_array().cloned().unwrap_or_default() {
                let p = parts(&t);
                let name = p.join("_");
                let mut m = HashMap::new();
                m.insert("k1".to_string(), format!("T|{name}|k1|{{p}}|{{p}}"));
                if p.first().map(|s| s == "de").unwrap_or(false) {
                    m.insert("k2".to_string(), format!("T|{name}|k2|{{p}}|{{p}}"));
                }
                messages.insert(name, m);
            }
            let cfg_key = format!("{pass}|{}|{}", c["tables"], c["default"]);
            let a = shared.entry(cfg_key).or_insert_with(|| FixedLocalizationAdapter::new(parts(&c["default"]).join("_"), messages));
            let req = parts(&c["requested"]);
            let reqs = req.join("_");
            let key = c["key"].as_str().unwrap_or("k1");
            let r = rt.block_on(a.localize(if req.is_empty() { None } else { Some(reqs.as_str()) }, key, &[("{p}", "VAL".to_string())]));
            match r {
                Ok(s) if s == key => json!({"from": [], "text": "key"}),
                Ok(s) => {
                    let f: Vec<&str> = s.split('|').collect();
                    if f.len() == 5 && f[0] == "T" && f[2] == key {
                        let from: Vec<&str> = f[1].split('_').collect();
                        json!({"from": from, "text": if f[3] == "VAL" && f[4] == "VAL" { "template" } else { "template-unsubstituted" }})
                    } else {
                        json!({"from": [], "text": format!("other:{s}")})
                    }
                }
                Err(e) => json!({"from": [], "text": format!("error:{e}")}),
            }
        };
        out.push_str(&json!({"kind": rec["kind"], "case": c, "got": got}).to_string());
        out.push('\n');
    }
    std::fs::write(output.expect("--out"), out).expect("write output");
}
